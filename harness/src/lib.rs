//! tvh — turmoil verification harness (library part: engine, drivers, models, properties).
//! The binary (`src/main.rs`) and the libFuzzer targets (`/verif/fuzz`) are thin front-ends.
#![allow(dead_code)]

pub mod drivers;
pub mod engine;
pub mod models;
pub mod props;

//! tvh — turmoil verification harness. `tvh check <ID> [quick|thorough]`,
//! `tvh replay <path>`. See /verif/DESIGN.md.


use tvh::engine::{self, Tier};
use tvh::props;

fn usage() -> ! {
    eprintln!("usage: tvh check <ID> [quick|thorough] | tvh replay <file> | tvh list");
    std::process::exit(2);
}

fn main() {
    let args: Vec<String> = std::env::args().collect();
    if args.len() < 2 {
        usage();
    }
    engine::install_panic_hook();
    let seed: u64 = std::env::var("VERIF_SEED")
        .ok()
        .and_then(|s| s.trim().parse::<i64>().ok())
        .map(|v| v as u64)
        .unwrap_or(0);
    match args[1].as_str() {
        "list" => {
            for p in props::ALL {
                println!("{}", p.id);
            }
        }
        "check" => {
            if args.len() < 3 {
                usage();
            }
            let tier = match args
                .get(3)
                .cloned()
                .or_else(|| std::env::var("VERIF_TIER").ok())
                .as_deref()
            {
                Some("thorough") => Tier::Thorough,
                _ => Tier::Quick,
            };
            let Some(p) = props::ALL.iter().find(|p| p.id == args[2]) else {
                eprintln!("unknown property {}", args[2]);
                std::process::exit(2);
            };
            let code = (p.check)(tier, seed);
            std::process::exit(code);
        }
        "replay" => {
            if args.len() < 3 {
                usage();
            }
            let path = std::path::PathBuf::from(&args[2]);
            let txt = std::fs::read_to_string(&path).unwrap_or_else(|e| {
                eprintln!("cannot read {}: {e}", path.display());
                std::process::exit(2)
            });
            let v: serde_json::Value = serde_json::from_str(&txt).unwrap_or_else(|e| {
                eprintln!("bad json: {e}");
                std::process::exit(2)
            });
            let id = v["property"].as_str().unwrap_or("").to_string();
            let Some(p) = props::ALL.iter().find(|p| p.id == id) else {
                eprintln!("unknown property {id}");
                std::process::exit(2);
            };
            let ctx = engine::Ctx::new(p.id, Tier::Quick, seed, p.level);
            let ok = ctx.replay_file(&path, &|sub, sc| (p.replay)(sub, sc), false);
            std::process::exit(if ok { 0 } else { 1 });
        }
        // internal sub-commands (C01 child processes etc.)
        other => {
            if let Some(code) = props::internal(other, &args[2..]) {
                std::process::exit(code);
            }
            usage();
        }
    }
}

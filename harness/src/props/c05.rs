//! C05 — virtual clocks advance exactly one tick per step and agree.
//! DESIGN.md §6 C05.  SimDriver: the harness calls `Sim::step` itself and
//! publishes the index of the step in progress to host code.

use crate::engine::{replay_as, Ctx, Outcome, Tier};
use proptest::prelude::*;
use serde::{Deserialize, Serialize};
use serde_json::Value;
use std::cell::{Cell, RefCell};
use std::collections::BTreeMap;
use std::rc::Rc;
use std::time::{Duration, SystemTime};

pub const PROP: super::Prop = super::Prop {
    id: "C05",
    level: "exploration",
    check,
    replay,
};

#[derive(Clone, Debug, Serialize, Deserialize)]
pub enum Task {
    /// sleep each duration (ms) in turn
    Sleeps(Vec<u64>),
    /// tokio interval with the period (ms), n ticks
    Interval(u64, u32),
    /// timeout(limit, sleep(inner)) pairs
    Timeouts(Vec<(u64, u64)>),
    /// sleep_until(now + d) chain
    SleepUntil(Vec<u64>),
    /// return after the given sleeps (host software finishes; only on hosts)
    Finish(Vec<u64>),
}

#[derive(Clone, Debug, Serialize, Deserialize)]
pub struct HostSpec {
    pub client: bool,
    /// registered after this many steps (0 = before the first step)
    pub reg_after: u32,
    pub tasks: Vec<Task>,
}

#[derive(Clone, Debug, Serialize, Deserialize)]
pub enum Ctl {
    Crash(usize),
    Bounce(usize),
}

#[derive(Clone, Debug, Serialize, Deserialize)]
pub struct Scenario {
    pub tick_us: u64,
    /// sub-microsecond part of the tick (only generated in the fractional class)
    #[serde(default)]
    pub tick_sub_ns: u32,
    /// configured epoch = UNIX_EPOCH + epoch_ms milliseconds + epoch_sub_ns nanoseconds
    pub epoch_ms: u64,
    /// sub-millisecond part of the configured epoch (any value is valid; the
    /// generator uses 0..=999_999)
    #[serde(default)]
    pub epoch_sub_ns: u32,
    pub seed: u64,
    pub random_order: bool,
    pub steps: u32,
    pub hosts: Vec<HostSpec>,
    /// (after this many steps, action)
    pub ctl: Vec<(u32, Ctl)>,
    /// `Builder::simulation_duration` in microseconds.  None: generous (never
    /// reached).  Some: the run is stepped past it; a step that ends beyond the
    /// duration while a client is still running returns the "Ran for duration"
    /// error, the driver ignores it and keeps stepping, and every clock clause
    /// is asserted on those steps like on any other.
    #[serde(default)]
    pub sim_duration_us: Option<u64>,
}

#[derive(Clone, Debug)]
struct Obs {
    host: usize,
    step: u64,
    elapsed: Duration,
    sim_elapsed: Duration,
    since_epoch: Duration,
    /// for timer observations: (expected delta, measured sim delta, measured Instant delta, what)
    timer: Option<(Duration, Duration, Duration, &'static str)>,
}

/// A timer a host program is currently waiting on (registered when the wait
/// starts, removed when it returns or its future is dropped).
#[derive(Clone, Debug)]
struct Pending {
    host: usize,
    /// sim time at which the wait started
    set_at: Duration,
    /// whole-millisecond length of the wait
    len: Duration,
    what: &'static str,
}

#[derive(Clone)]
struct Shared {
    step: Rc<Cell<u64>>,
    log: Rc<RefCell<Vec<Obs>>>,
    /// timers currently awaited by host programs, by id
    pending: Rc<RefCell<BTreeMap<u64, Pending>>>,
    next_id: Rc<Cell<u64>>,
    /// per host: how many times its software has started (first poll)
    starts: Rc<RefCell<Vec<u64>>>,
    /// per host: its software has returned (turmoil stops running a finished host)
    finished: Rc<RefCell<Vec<bool>>>,
    /// period of the endless clock-observing loop (ms)
    idle_ms: u64,
}

struct PendingGuard {
    pending: Rc<RefCell<BTreeMap<u64, Pending>>>,
    id: u64,
}

impl Drop for PendingGuard {
    fn drop(&mut self) {
        self.pending.borrow_mut().remove(&self.id);
    }
}

impl Shared {
    fn obs(&self, host: usize, timer: Option<(Duration, Duration, Duration, &'static str)>) {
        self.log.borrow_mut().push(Obs {
            host,
            step: self.step.get(),
            elapsed: turmoil::elapsed(),
            sim_elapsed: turmoil::sim_elapsed().expect("sim_elapsed in host"),
            since_epoch: turmoil::since_epoch().expect("since_epoch in host"),
            timer,
        });
    }
}

async fn timed<F: std::future::Future>(
    sh: &Shared,
    host: usize,
    expect: Duration,
    what: &'static str,
    f: F,
) {
    let s0 = turmoil::sim_elapsed().unwrap();
    let i0 = tokio::time::Instant::now();
    sh.obs(host, None);
    let id = sh.next_id.get();
    sh.next_id.set(id + 1);
    sh.pending.borrow_mut().insert(id, Pending { host, set_at: s0, len: expect, what });
    let _guard = PendingGuard { pending: sh.pending.clone(), id };
    let _ = f.await;
    drop(_guard);
    let s1 = turmoil::sim_elapsed().unwrap();
    let i1 = tokio::time::Instant::now();
    sh.obs(host, Some((expect, s1 - s0, i1 - i0, what)));
}

async fn run_task(sh: Shared, host: usize, t: Task) {
    let ms = |d: u64| Duration::from_millis(d);
    match t {
        Task::Sleeps(v) | Task::Finish(v) => {
            for d in v {
                timed(&sh, host, ms(d), "sleep", tokio::time::sleep(ms(d))).await;
            }
        }
        Task::SleepUntil(v) => {
            for d in v {
                let dl = tokio::time::Instant::now() + ms(d);
                timed(&sh, host, ms(d), "sleep_until", tokio::time::sleep_until(dl)).await;
            }
        }
        Task::Interval(p, n) => {
            let p = p.max(1);
            let mut iv = tokio::time::interval(ms(p));
            iv.tick().await; // first tick is immediate
            for _ in 0..n {
                timed(&sh, host, ms(p), "interval", iv.tick()).await;
            }
        }
        Task::Timeouts(v) => {
            for (limit, inner) in v {
                let exp = ms(limit.min(inner));
                timed(
                    &sh,
                    host,
                    exp,
                    "timeout",
                    tokio::time::timeout(ms(limit), tokio::time::sleep(ms(inner))),
                )
                .await;
            }
        }
    }
}

async fn software(sh: Shared, host: usize, tasks: Vec<Task>) -> turmoil::Result {
    sh.starts.borrow_mut()[host] += 1;
    sh.obs(host, None);
    let mut finishing = None;
    let mut handles = Vec::new();
    for t in tasks {
        if matches!(t, Task::Finish(_)) && finishing.is_none() {
            finishing = Some(t);
        } else {
            handles.push(tokio::task::spawn_local(run_task(sh.clone(), host, t)));
        }
    }
    match finishing {
        Some(t) => {
            run_task(sh.clone(), host, t).await;
            sh.finished.borrow_mut()[host] = true;
            Ok(())
        }
        None => {
            for h in handles {
                let _ = h.await;
            }
            // keep observing the clock once per wake-up, forever
            let idle = Duration::from_millis(sh.idle_ms);
            loop {
                timed(&sh, host, idle, "sleep", tokio::time::sleep(idle)).await;
            }
        }
    }
}

pub fn run(sc: &Scenario) -> Outcome {
    let mut out = Outcome::ok();
    let tick = Duration::from_micros(sc.tick_us) + Duration::from_nanos(sc.tick_sub_ns as u64);
    let whole_ms = tick.subsec_nanos() % 1_000_000 == 0;
    // the CONFIGURED epoch: every epoch clause below compares against this
    // value, never against a since_epoch() sampled from the code under test
    let epoch_d = Duration::from_millis(sc.epoch_ms) + Duration::from_nanos(sc.epoch_sub_ns as u64);
    let epoch = SystemTime::UNIX_EPOCH + epoch_d;
    let n = sc.hosts.len();
    let tick_ms = tick.as_millis() as u64;
    let sh = Shared {
        step: Rc::new(Cell::new(0)),
        log: Rc::new(RefCell::new(Vec::new())),
        pending: Rc::new(RefCell::new(BTreeMap::new())),
        next_id: Rc::new(Cell::new(0)),
        starts: Rc::new(RefCell::new(vec![0; n])),
        finished: Rc::new(RefCell::new(vec![false; n])),
        // the endless observer loop is scaled with the tick so that the
        // number of wake-ups per step stays bounded (<= 16 for long ticks)
        idle_ms: (tick_ms / 16).max(3),
    };

    let duration = match sc.sim_duration_us {
        Some(us) => Duration::from_micros(us),
        None => Duration::from_secs(3600 * 24).max(tick * (sc.steps + 2)),
    };
    let mut b = turmoil::Builder::new();
    b.tick_duration(tick).epoch(epoch).rng_seed(sc.seed).simulation_duration(duration);
    if sc.random_order {
        b.enable_random_order();
    }
    let mut sim = b.build();

    // --- before the first step: no time has passed, epoch time is the configured epoch
    if sim.elapsed() != Duration::ZERO {
        out.fail(
            "sim-elapsed-nonzero-before-first-step",
            format!("fresh Sim::elapsed={:?}", sim.elapsed()),
        );
        return out;
    }
    if sim.since_epoch() != epoch_d {
        out.fail(
            "sim-since-epoch:before-first-step",
            format!("fresh Sim::since_epoch={:?}, configured epoch - UNIX_EPOCH={epoch_d:?}", sim.since_epoch()),
        );
        return out;
    }

    let mut registered = vec![false; n];
    // liveness bookkeeping: a registered host whose software is neither
    // crashed nor finished is run by every step
    let mut crashed = vec![false; n];
    // Some(number of software starts seen when the (re)start was requested)
    let mut await_start: Vec<Option<u64>> = vec![None; n];
    let mut due_checked = 0u64;
    let mut start_checked = 0u64;
    let mut multi_step_timer = false;
    let mut reg_offset = vec![Duration::ZERO; n];
    let mut late = false;
    // steps that returned the time-budget error (the driver steps on)
    let mut err_steps = 0u64;
    let mut first_err: Option<u64> = None;
    let mut reg_after_err = false;
    let mut ctl_after_err = false;
    let mut crashes = 0;
    let mut bounces = 0;
    let mut non_dividing = false;
    for h in &sc.hosts {
        for t in &h.tasks {
            let ds: Vec<u64> = match t {
                Task::Sleeps(v) | Task::Finish(v) | Task::SleepUntil(v) => v.clone(),
                Task::Interval(p, _) => vec![*p],
                Task::Timeouts(v) => v.iter().map(|(a, b)| *a.min(b)).collect(),
            };
            if ds
                .iter()
                .any(|d| *d > 0 && (*d as u128 * 1_000_000) % tick.as_nanos().max(1) != 0)
            {
                non_dividing = true;
            }
        }
    }

    macro_rules! register_due {
        ($done:expr) => {
            for (i, h) in sc.hosts.iter().enumerate() {
                if !registered[i] && h.reg_after <= $done {
                    registered[i] = true;
                    // the simulation time at which the host is registered, from
                    // the model (tick * completed calls of step), not from the
                    // code under test
                    reg_offset[i] = tick * $done;
                    await_start[i] = Some(0);
                    if $done > 0 {
                        late = true;
                    }
                    if first_err.is_some() {
                        reg_after_err = true;
                    }
                    let name = format!("h{i}");
                    let tasks = h.tasks.clone();
                    let shc = sh.clone();
                    if h.client {
                        sim.client(name, software(shc, i, tasks));
                    } else {
                        sim.host(name, move || software(shc.clone(), i, tasks.clone()));
                    }
                }
            }
        };
    }

    let mut last_seen = vec![Duration::ZERO; n];
    let mut checked_from = 0usize;
    let mut timer_obs = 0u64;
    let mut excluded_fractional = 0u64;

    for done in 0..sc.steps {
        register_due!(done);
        for (at, c) in &sc.ctl {
            if *at == done {
                match c {
                    Ctl::Crash(i) if *i < n && registered[*i] && !sc.hosts[*i].client => {
                        sim.crash(format!("h{i}"));
                        crashes += 1;
                        ctl_after_err |= first_err.is_some();
                        crashed[*i] = true;
                        await_start[*i] = None;
                        sh.pending.borrow_mut().retain(|_, p| p.host != *i);
                    }
                    Ctl::Bounce(i) if *i < n && registered[*i] && !sc.hosts[*i].client => {
                        sim.bounce(format!("h{i}"));
                        bounces += 1;
                        ctl_after_err |= first_err.is_some();
                        crashed[*i] = false;
                        sh.finished.borrow_mut()[*i] = false;
                        await_start[*i] = Some(sh.starts.borrow()[*i]);
                        sh.pending.borrow_mut().retain(|_, p| p.host != *i);
                    }
                    _ => {}
                }
            }
        }
        let k = done as u64 + 1;
        sh.step.set(k);
        let want = tick * (k as u32);
        if let Err(e) = sim.step() {
            // The only error a step of this workload may return is the
            // time-budget one, and only once the simulation time is beyond the
            // configured duration.  It is a *result* of the call, not an
            // exemption: "every call to step advances the simulation clock
            // and the clock of every registered host", so every clause below
            // is asserted for this step too and the driver keeps stepping.
            let msg = e.to_string();
            // (no software of this workload ever returns Err, so the error is recognised by the
            // situation, not by its wording, which the property does not fix)
            if sc.sim_duration_us.is_none() || want <= duration {
                out.fail(
                    "step-error",
                    format!("step {k} (sim time {want:?}, simulation_duration {duration:?}) returned error {msg}"),
                );
                return out;
            }
            err_steps += 1;
            first_err.get_or_insert(k);
        }
        // --- Sim-side clauses (whatever the step returned)
        if sim.elapsed() != want {
            out.fail(
                "sim-elapsed-not-tick-times-steps",
                format!(
                    "after {k} calls of step ({err_steps} of them returned the time-budget error) Sim::elapsed={:?}, tick*steps={:?}",
                    sim.elapsed(),
                    want
                ),
            );
            return out;
        }
        if sim.since_epoch() != epoch_d + want {
            out.fail(
                "sim-since-epoch",
                format!(
                    "after {k} calls of step ({err_steps} of them returned the time-budget error) Sim::since_epoch={:?}, epoch+elapsed={:?}",
                    sim.since_epoch(),
                    epoch_d + want
                ),
            );
            return out;
        }
        // --- host-side clauses for the observations of this step
        let log = sh.log.borrow();
        for o in &log[checked_from..] {
            let lo = tick * ((o.step - 1) as u32);
            let hi = tick * (o.step as u32);
            if o.sim_elapsed != o.elapsed + reg_offset[o.host] {
                out.fail(
                    "sim-elapsed-vs-elapsed-offset",
                    format!("{o:?}: sim_elapsed != elapsed + registration offset {:?}", reg_offset[o.host]),
                );
                return out;
            }
            if o.since_epoch != epoch_d + o.sim_elapsed {
                out.fail(
                    "since-epoch-vs-sim-elapsed",
                    format!("{o:?}: since_epoch != epoch {epoch_d:?} + sim_elapsed"),
                );
                return out;
            }
            if o.sim_elapsed < last_seen[o.host] {
                out.fail(
                    "host-clock-not-monotone",
                    format!("{o:?}: earlier observation on the same host saw {:?}", last_seen[o.host]),
                );
                return out;
            }
            last_seen[o.host] = o.sim_elapsed;
            if whole_ms {
                if o.sim_elapsed < lo || o.sim_elapsed > hi {
                    out.fail(
                        "observation-outside-step-window",
                        format!("{o:?}: step {} window is [{lo:?},{hi:?}]", o.step),
                    );
                    return out;
                }
                if let Some((exp, ds, di, what)) = o.timer {
                    timer_obs += 1;
                    if exp > tick {
                        multi_step_timer = true;
                    }
                    if ds != exp {
                        out.fail(
                            format!("timer-fires-off-instant:{what}"),
                            format!("{o:?}: {what} of {exp:?} advanced sim_elapsed by {ds:?}"),
                        );
                        return out;
                    }
                    if di != exp {
                        out.fail(
                            format!("instant-disagrees-with-timer:{what}"),
                            format!("{o:?}: {what} of {exp:?} advanced Instant by {di:?}"),
                        );
                        return out;
                    }
                }
            } else {
                // F-C05-1: with a tick that is not a whole number of
                // milliseconds tokio's 1 ms timer wheel drifts against the
                // host timer; the window and timer-exactness clauses are
                // excluded for this class and counted.
                excluded_fractional += 1;
                // weaker clauses that must still hold: the lower edge of the
                // step window (HostTimer's accumulated ticks do not depend on
                // tokio's rounding) ...
                if o.sim_elapsed < lo {
                    out.fail(
                        "observation-before-step-window:fractional-tick",
                        format!("{o:?}: step {} starts at {lo:?}", o.step),
                    );
                    return out;
                }
                // ... and timers never fire early
                if let Some((exp, _ds, di, what)) = o.timer {
                    if di < exp {
                        out.fail(
                            format!("timer-fires-early:{what}"),
                            format!("{o:?}: {what} of {exp:?} returned after Instant delta {di:?}"),
                        );
                        return out;
                    }
                }
            }
        }
        checked_from = log.len();
        drop(log);
        // --- liveness clauses: `Sim::step` runs every host whose software is
        // running (not crashed, not finished) for one tick, so by the end of
        // step k (sim time k*tick) ...
        for i in 0..n {
            if !registered[i] || crashed[i] || sh.finished.borrow()[i] {
                continue;
            }
            // ... software that was registered / bounced before the step has started
            if let Some(mark) = await_start[i] {
                start_checked += 1;
                if sh.starts.borrow()[i] == mark {
                    out.fail(
                        "due-not-fired:software-start",
                        format!(
                            "host h{i} was registered/bounced before step {k} (tick {tick:?}) and is not crashed, but its software was not polled during the step"
                        ),
                    );
                    return out;
                }
                await_start[i] = None;
            }
        }
        // ... and every timer whose instant lies strictly before the end of
        // the step window has fired
        for p in sh.pending.borrow().values() {
            if !registered[p.host] || crashed[p.host] || sh.finished.borrow()[p.host] {
                continue;
            }
            due_checked += 1;
            if p.set_at + p.len < want {
                out.fail(
                    format!("due-not-fired:{}", p.what),
                    format!(
                        "{p:?}: instant {:?} lies before the end {want:?} of step {k} (tick {tick:?}) but the {} has not returned",
                        p.set_at + p.len,
                        p.what
                    ),
                );
                return out;
            }
        }
    }

    if !whole_ms {
        out.label("fractional-tick");
        if tick.subsec_nanos() % 1000 != 0 {
            out.label("fractional-tick:sub-us-part");
        }
        if tick < Duration::from_micros(100) {
            out.label("fractional-tick:below-100us");
        }
        out.exclude("F-C05-1");
        out.count("observations excluded from window/timer clauses (fractional tick)", excluded_fractional);
    } else {
        out.label("whole-ms-tick");
    }
    out.label(match tick_ms {
        0 => "tick:below-1ms",
        1..=9 => "tick:1-9ms",
        10..=99 => "tick:10-99ms",
        100..=999 => "tick:100-999ms",
        1_000..=59_999 => "tick:1-59s",
        60_000..=3_599_999 => "tick:1-59min",
        _ => "tick:1h-and-more",
    });
    if tick >= Duration::from_secs(1) {
        out.label(if tick.subsec_nanos() == 0 {
            "tick>=1s:whole-seconds"
        } else {
            "tick>=1s:with-subsecond-part"
        });
    }
    if tick.as_nanos() > u32::MAX as u128 {
        out.label("tick:beyond-u32-nanos");
    }
    if tick.as_micros() > u32::MAX as u128 {
        out.label("tick:beyond-u32-micros");
    }
    if tick.as_millis() > u32::MAX as u128 {
        out.label("tick:beyond-u32-millis");
    }
    if multi_step_timer {
        out.label("timer-longer-than-tick-fired");
    }
    if late {
        out.label("late-registration");
    }
    if crashes > 0 {
        out.label("crash");
    }
    if bounces > 0 {
        out.label("bounce");
    }
    if non_dividing {
        out.label("tick-does-not-divide-timer");
    }
    if sc.random_order {
        out.label("random-order");
    }
    match (sc.sim_duration_us, first_err) {
        (None, _) => out.label("duration:generous"),
        (Some(_), None) => out.label("duration:short-but-no-step-failed(no-client-running-beyond-it)"),
        (Some(_), Some(f)) => {
            out.label("duration:crossed,driver-steps-on-after-the-error");
            if duration.as_nanos() % tick.as_nanos().max(1) != 0 {
                out.label("duration:crossed:not-a-multiple-of-the-tick");
            }
            if f == 1 {
                out.label("duration:crossed:first-step-already-fails");
            }
            if (sc.steps as u64) > f {
                out.label("duration:crossed:more-steps-after-the-first-failing-one");
            }
            if reg_after_err {
                out.label("duration:crossed:host-or-client-registered-after-a-failing-step");
            }
            if ctl_after_err {
                out.label("duration:crossed:crash-or-bounce-after-a-failing-step");
            }
        }
    }
    out.count("steps that returned the time-budget error (all clauses asserted on them)", err_steps);
    out.label(if epoch_d.is_zero() {
        "epoch:unix-epoch"
    } else if epoch_d.subsec_nanos() % 1_000_000 != 0 {
        "epoch:sub-ms-part"
    } else if epoch_d.subsec_nanos() != 0 {
        "epoch:whole-ms"
    } else {
        "epoch:whole-s"
    });
    if epoch_d.subsec_nanos() % 1_000 != 0 {
        out.label("epoch:sub-us-part");
    }
    if epoch_d.as_secs() > u32::MAX as u64 {
        out.label("epoch:beyond-u32-seconds");
    }
    out.count("timer observations checked exactly", timer_obs);
    out.count("pending timers checked for being due (per step)", due_checked);
    out.count("software starts checked", start_checked);
    out.count("observations", checked_from as u64);
    out.nontrivial = checked_from >= 4 && (non_dividing || late || crashes + bounces > 0 || err_steps > 0);
    out
}

/// Probe scenario for the known finding F-C05-1: asserts the *full* clause
/// set on a fractional tick (used only through the committed replay).
#[derive(Clone, Debug, Serialize, Deserialize)]
pub struct FracProbe {
    pub tick_us: u64,
    pub sleep_ms: u32,
}

pub fn run_frac(p: &FracProbe) -> Outcome {
    let mut out = Outcome::ok();
    let tick = Duration::from_micros(p.tick_us);
    let res: Rc<RefCell<Option<(Duration, Duration)>>> = Rc::new(RefCell::new(None));
    let r2 = res.clone();
    let d = Duration::from_millis(p.sleep_ms as u64);
    let mut b = turmoil::Builder::new();
    b.tick_duration(tick)
        .epoch(SystemTime::UNIX_EPOCH + Duration::from_secs(1))
        .rng_seed(1);
    let mut sim = b.build();
    sim.client("c", async move {
        let s0 = turmoil::sim_elapsed().unwrap();
        let i0 = tokio::time::Instant::now();
        tokio::time::sleep(d).await;
        *r2.borrow_mut() = Some((turmoil::sim_elapsed().unwrap() - s0, i0.elapsed()));
        Ok(())
    });
    let _ = sim.run();
    out.nontrivial = true;
    out.label("fractional-probe");
    match *res.borrow() {
        Some((ds, di)) => {
            if ds != d || di != d {
                if p.tick_us % 1000 != 0 {
                    out.fail(
                        "fractional-tick:timer-fires-off-instant",
                        format!("tick {tick:?}: sleep({d:?}) advanced sim_elapsed by {ds:?}, Instant by {di:?}"),
                    );
                } else {
                    out.fail(
                        "timer-fires-off-instant:sleep",
                        format!("tick {tick:?}: sleep({d:?}) advanced sim_elapsed by {ds:?}, Instant by {di:?}"),
                    );
                }
            }
        }
        None => out.fail("probe-did-not-finish", "client never finished"),
    }
    out
}

/// Probe scenario for the other way a step can return an error: the software
/// of a host / client returns `Err`.  Three hosts registered in the order
/// h0, c1, h2 (the order steps run them without random order): h0 and h2
/// observe the clock every millisecond, client c1 sleeps `fail_after_ms` and
/// returns an error.  The driver keeps stepping.  Asserted on every call of
/// step, whatever it returned: Sim::elapsed == tick * calls, and every
/// in-host observation lies in the window of the step it was made in.
/// Used only through a replay file (the random tiers never let software fail).
#[derive(Clone, Debug, Serialize, Deserialize)]
pub struct SoftErrProbe {
    pub tick_ms: u64,
    pub fail_after_ms: u64,
    pub steps: u32,
}

pub fn run_soft_err(p: &SoftErrProbe) -> Outcome {
    let mut out = Outcome::ok();
    out.nontrivial = true;
    out.label("software-error-probe");
    let tick = Duration::from_millis(p.tick_ms.max(1));
    let step_no = Rc::new(Cell::new(0u64));
    let log: Rc<RefCell<Vec<(usize, u64, Duration)>>> = Rc::new(RefCell::new(Vec::new()));
    let mut b = turmoil::Builder::new();
    b.tick_duration(tick)
        .epoch(SystemTime::UNIX_EPOCH + Duration::from_secs(1))
        .rng_seed(1)
        .simulation_duration(Duration::from_secs(3600 * 24));
    let mut sim = b.build();
    let observer = |i: usize| {
        let (step_no, log) = (step_no.clone(), log.clone());
        move || {
            let (step_no, log) = (step_no.clone(), log.clone());
            async move {
                loop {
                    log.borrow_mut().push((i, step_no.get(), turmoil::sim_elapsed().unwrap()));
                    tokio::time::sleep(Duration::from_millis(1)).await;
                }
            }
        }
    };
    sim.host("h0", observer(0));
    let d = Duration::from_millis(p.fail_after_ms);
    sim.client("c1", async move {
        tokio::time::sleep(d).await;
        Err("software failure".into())
    });
    sim.host("h2", observer(2));
    let mut errs = 0u32;
    let mut seen = 0usize;
    for k in 1..=p.steps as u64 {
        step_no.set(k);
        let failed = sim.step().is_err();
        errs += failed as u32;
        let want = tick * k as u32;
        if sim.elapsed() != want {
            out.fail(
                "software-error-step:sim-clock-not-advanced",
                format!(
                    "call {k} of step returned {}; {errs} call(s) so far returned the error of c1's software; Sim::elapsed={:?}, tick*calls={want:?}",
                    if failed { "Err" } else { "Ok" },
                    sim.elapsed()
                ),
            );
            return out;
        }
        let lg = log.borrow();
        for (h, st, t) in &lg[seen..] {
            let (lo, hi) = (tick * (*st as u32 - 1), tick * *st as u32);
            if *t < lo || *t > hi {
                out.fail(
                    "software-error-step:host-clock-outside-step-window",
                    format!("h{h} observed sim_elapsed {t:?} during call {st} of step, window [{lo:?},{hi:?}]; {errs} call(s) so far returned the software error"),
                );
                return out;
            }
        }
        seen = lg.len();
    }
    if errs == 0 {
        out.fail("probe-did-not-fail", "no call of step returned the software error");
    }
    out
}

/// Timer lengths (ms).  `wide == None`: the small absolute lengths used with
/// ticks up to 1 s.  `wide == Some(tick_ms)`: lengths scaled with the tick so
/// that every relation between timer and tick (shorter, equal, one off, a
/// multiple, several ticks, not dividing) occurs for every tick magnitude,
/// plus the lengths at which `Duration` accessors change (whole-second part /
/// sub-second part of the tick, 1 s and 1 min +-1 ms).
fn dur_strategy(wide: Option<u64>) -> BoxedStrategy<u64> {
    match wide {
        None => prop_oneof![
            4 => 0u64..=12,
            2 => 13u64..=120,
            1 => Just(1000u64),
        ]
        .boxed(),
        Some(t) => {
            let t = t.max(1);
            prop_oneof![
                3 => 0u64..=12,
                1 => 13u64..=120,
                1 => proptest::sample::select(vec![999u64, 1000, 1001, 59_999, 60_000, 60_001]),
                // k ticks, one millisecond off either way
                4 => (0u64..=4, 0u64..=2).prop_map(move |(k, off)| (k * t + off).saturating_sub(1)),
                // anything up to three ticks
                4 => 0u64..=3 * t,
                // the two parts `Duration` splits the tick into
                1 => Just(t % 1000),
                1 => Just(t - t % 1000),
                // a fraction of the tick
                1 => (1u64..=7).prop_map(move |k| t * k / 8),
            ]
            .boxed()
        }
    }
}

fn task_strategy(host: bool, wide: Option<u64>) -> BoxedStrategy<Task> {
    let d = dur_strategy(wide);
    let (period, limit, inner) = match wide {
        None => ((1u64..=40).boxed(), (1u64..=30).boxed(), (0u64..=30).boxed()),
        Some(_) => (
            d.clone().prop_map(|p| p.max(1)).boxed(),
            d.clone().prop_map(|p| p.max(1)).boxed(),
            d.clone(),
        ),
    };
    let mut v: Vec<BoxedStrategy<Task>> = vec![
        proptest::collection::vec(d.clone(), 1..6).prop_map(Task::Sleeps).boxed(),
        (period, 1u32..=6).prop_map(|(p, n)| Task::Interval(p, n)).boxed(),
        proptest::collection::vec((limit, inner), 1..4).prop_map(Task::Timeouts).boxed(),
        proptest::collection::vec(d.clone(), 1..5).prop_map(Task::SleepUntil).boxed(),
    ];
    if host {
        let f = match wide {
            None => (0u64..=10).boxed(),
            Some(_) => d.clone(),
        };
        v.push(proptest::collection::vec(f, 0..3).prop_map(Task::Finish).boxed());
    }
    proptest::strategy::Union::new(v).boxed()
}

fn host_strategy(max_steps: u32, wide: Option<u64>) -> BoxedStrategy<HostSpec> {
    (any::<bool>(), prop_oneof![3 => Just(0u32), 1 => 0..max_steps])
        .prop_flat_map(move |(client, reg_after)| {
            proptest::collection::vec(task_strategy(!client, wide), 1..4).prop_map(move |tasks| HostSpec {
                client,
                reg_after,
                tasks,
            })
        })
        .boxed()
}

/// Last whole second of year 9999 (the "far future" end of the epoch range).
const EPOCH_MAX_S: u64 = 253_402_300_799;

/// (epoch_ms, epoch_sub_ns): `Builder::epoch` takes any `SystemTime`; the only
/// restriction in the unchanged tree is epoch >= UNIX_EPOCH (`Sim::new`
/// panics otherwise), so nothing before UNIX_EPOCH is generated.
fn epoch_strategy() -> BoxedStrategy<(u64, u32)> {
    let boundary_s = proptest::sample::select(vec![
        0u64,
        1,
        i32::MAX as u64,
        i32::MAX as u64 + 1,
        u32::MAX as u64,
        u32::MAX as u64 + 1,
        EPOCH_MAX_S,
    ]);
    let ms = prop_oneof![
        // whole seconds: boundaries, "today", far future
        2 => boundary_s.prop_map(|s| s * 1000),
        2 => (0u64..4_000_000_000).prop_map(|s| s * 1000),
        1 => (0u64..=EPOCH_MAX_S).prop_map(|s| s * 1000),
        // whole milliseconds
        1 => 0u64..1000,
        4 => 0u64..4_000_000_000_000,
        1 => 0u64..=EPOCH_MAX_S * 1000 + 999,
    ];
    let sub = prop_oneof![
        4 => Just(0u32),
        2 => proptest::sample::select(vec![1u32, 999, 1000, 1001, 499_999, 500_000, 999_000, 999_999]),
        // whole microseconds
        1 => (1u32..1000).prop_map(|us| us * 1000),
        // arbitrary nanosecond precision
        5 => 1u32..1_000_000,
    ];
    prop_oneof![
        1 => Just((0u64, 0u32)),
        1 => Just((0u64, 1u32)),
        22 => (ms, sub),
    ]
    .boxed()
}

/// Which family of ticks a sub-tier draws from.
#[derive(Clone, Copy, PartialEq, Eq)]
pub enum TickClass {
    /// whole milliseconds, 1 ms ..= 1 s, small absolute timer lengths
    WholeMs,
    /// not a whole number of milliseconds (known finding F-C05-1)
    Fractional,
    /// whole milliseconds over all orders of magnitude (1 ms .. ~50 days),
    /// timer lengths scaled with the tick
    Wide,
}

/// Whole-millisecond ticks (in ms) across orders of magnitude, with the
/// values at which `Duration` accessors / integer conversions change:
/// 1 s and 1 min (sub-second part vs. whole), u32::MAX ns (4.29 s),
/// u16 ms, u32::MAX us (71.6 min), i32 / u32::MAX ms (24.8 / 49.7 days).
fn wide_tick_ms() -> BoxedStrategy<u64> {
    prop_oneof![
        6 => proptest::sample::select(vec![
            1u64, 2, 999, 1000, 1001, 1500, 2000, 2500, 3000, 4294, 4295, 10_000,
            59_000, 59_999, 60_000, 60_001, 61_000, 65_535, 65_536, 90_000, 120_000,
            3_600_000, 4_294_967, 4_294_968, 86_400_000,
            i32::MAX as u64, i32::MAX as u64 + 1, u32::MAX as u64, u32::MAX as u64 + 1,
        ]),
        // whole seconds / whole minutes
        4 => (1u64..=7200).prop_map(|s| s * 1000),
        1 => (1u64..=600).prop_map(|m| m * 60_000),
        // whole seconds plus a sub-second part
        3 => (1u64..=7200, 1u64..=999).prop_map(|(s, ms)| s * 1000 + ms),
        // one draw per order of magnitude
        1 => 1u64..=10,
        1 => 10u64..=100,
        1 => 100u64..=1000,
        1 => 1000u64..=10_000,
        1 => 10_000u64..=100_000,
        1 => 100_000u64..=1_000_000,
        1 => 1_000_000u64..=10_000_000,
        1 => 10_000_000u64..=100_000_000,
    ]
    .boxed()
}

/// How `Builder::simulation_duration` relates to the run (resolved against
/// the tick and the number of steps once those are drawn).
#[derive(Clone, Copy, Debug)]
enum DurSel {
    /// never reached
    Generous,
    /// anywhere in 0 ..= tick*steps (parts per million of the run; in general
    /// not a multiple of the tick; shrinks towards 0 = the first step fails)
    Anywhere(u32),
    /// exactly k ticks (the step that ends *at* the duration is still within it)
    Ticks(u32),
    /// k ticks plus / minus one microsecond
    TicksOff(u32, bool),
}

impl DurSel {
    /// Always inside 0 ..= tick_us*steps (the box `fuzz_sanitize` clamps into).
    fn resolve(self, tick_us: u64, steps: u32) -> Option<u64> {
        let total = tick_us * steps as u64;
        match self {
            DurSel::Generous => None,
            DurSel::Anywhere(ppm) => Some((total as u128 * ppm.min(1_000_000) as u128 / 1_000_000) as u64),
            DurSel::Ticks(k) => Some((k % (steps + 1)) as u64 * tick_us),
            DurSel::TicksOff(k, up) => {
                let d = (k % (steps + 1)) as u64 * tick_us;
                Some(if up { (d + 1).min(total) } else { d.saturating_sub(1) })
            }
        }
    }
}

fn duration_strategy() -> BoxedStrategy<DurSel> {
    prop_oneof![
        5 => Just(DurSel::Generous),
        3 => (0u32..=1_000_000).prop_map(DurSel::Anywhere),
        1 => (0u32..60).prop_map(DurSel::Ticks),
        1 => (0u32..60, any::<bool>()).prop_map(|(k, up)| DurSel::TicksOff(k, up)),
    ]
    .boxed()
}

pub fn strategy(class: TickClass) -> BoxedStrategy<Scenario> {
    let tick = if class == TickClass::Fractional {
        prop_oneof![
            7 => proptest::sample::select(vec![500u64, 1500, 250, 2750, 100, 999, 1001]).prop_map(|us| (us, 0u32)),
            // nanosecond-precision ticks: 1 ns, 1 us, just below / above 1 ms and 2 ms
            3 => proptest::sample::select(vec![(0u64, 1u32), (1, 0), (999, 999), (1000, 1), (1999, 999), (2000, 1), (1234, 567)]),
            // fractional ticks of one second and more
            2 => proptest::sample::select(vec![(1_000_000u64, 1u32), (1_000_500, 0), (1_500_250, 0), (2_000_000, 999), (60_000_001, 0), (999_999, 999)]),
        ]
        .boxed()
    } else if class == TickClass::Wide {
        wide_tick_ms().prop_map(|ms| (ms * 1000, 0u32)).boxed()
    } else {
        prop_oneof![
            9 => proptest::sample::select(vec![1000u64, 2000, 3000, 5000, 7000, 10_000, 33_000, 100_000, 1_000_000]),
            2 => (1u64..=50).prop_map(|m| m * 1000),
        ]
        .prop_map(|us| (us, 0u32))
        .boxed()
    };
    (tick, epoch_strategy(), any::<u64>(), any::<bool>(), 4u32..60, duration_strategy())
        .prop_flat_map(move |((tick_us, tick_sub_ns), (epoch_ms, epoch_sub_ns), seed, random_order, steps, dur)| {
            let sim_duration_us = dur.resolve(tick_us, steps);
            let wide = match class {
                TickClass::Wide => Some(tick_us / 1000),
                // fractional ticks of 1 s and more also get scaled timers
                TickClass::Fractional if tick_us >= 999_999 => Some((tick_us / 1000).max(1)),
                _ => None,
            };
            (
                proptest::collection::vec(host_strategy(steps, wide), 1..5),
                proptest::collection::vec(
                    (0..steps, (0usize..5, any::<bool>())),
                    0..5,
                ),
            )
                .prop_map(move |(hosts, ctl)| {
                    let n = hosts.len();
                    let mut ctl: Vec<(u32, Ctl)> = ctl
                        .into_iter()
                        .map(|(at, (h, crash))| {
                            (at, if crash { Ctl::Crash(h % n) } else { Ctl::Bounce(h % n) })
                        })
                        .collect();
                    ctl.sort_by_key(|c| c.0);
                    Scenario {
                        tick_us,
                        tick_sub_ns,
                        epoch_ms,
                        epoch_sub_ns,
                        seed,
                        random_order,
                        steps,
                        hosts,
                        ctl,
                        sim_duration_us,
                    }
                })
        })
        .boxed()
}

fn check(tier: Tier, seed: u64) -> i32 {
    let ctx = Ctx::new("C05", tier, seed, "exploration");
    ctx.replay_corpus(&replay);
    ctx.random("whole-ms", tier.pick(12_000, 150_000), &|| strategy(TickClass::WholeMs), &run);
    ctx.random("wide-ticks", tier.pick(16_000, 120_000), &|| strategy(TickClass::Wide), &run);
    ctx.random("fractional", tier.pick(2_000, 20_000), &|| strategy(TickClass::Fractional), &run);
    ctx.finish(
        "random scenarios (tick, epoch, 1-4 hosts/clients with sleep/interval/timeout/sleep_until tasks, late registration, crash/bounce controller); three tick families: whole-ms ticks 1 ms..1 s with small absolute timer lengths, wide-ticks = whole-ms ticks over all orders of magnitude (1 ms .. ~50 days: whole seconds, whole minutes, seconds plus a sub-second part, 1 s / 1 min / u16 ms / u32::MAX ns / u32::MAX us / i32 and u32::MAX ms boundaries +-1) with timer lengths scaled to the tick (k ticks +-1 ms, up to 3 ticks, fractions, the whole-second and sub-second parts of the tick), and fractional ticks; the endless observer loop of a host sleeps max(3 ms, tick/16) so the cost per step is bounded; the epoch is a generated dimension: UNIX_EPOCH, UNIX_EPOCH+1ns, whole seconds (incl. 2^31 / 2^32 boundaries and year 9999), whole ms, whole us and arbitrary ns precision, never before UNIX_EPOCH (Sim::new panics there); Builder::simulation_duration is a generated dimension: generous (half of the cases) or anywhere in 0..=tick*steps with microsecond precision (in general not a multiple of the tick), exactly k ticks, k ticks +-1 us, so that the run is stepped past it at an arbitrary step; the driver steps manually, ignores the time-budget error (the only error accepted, and only once tick*calls exceeds the configured duration) and keeps calling step, with hosts/clients registered and hosts crashed/bounced after failing steps too; every clause is asserted on every call of step whatever it returned; a fresh Sim must report elapsed 0 and since_epoch == configured epoch, every step checks Sim::elapsed == tick*steps and Sim::since_epoch == configured epoch + tick*steps, and every in-host observation checks offset/epoch identities against the CONFIGURED epoch and the MODEL registration offset (tick * calls of step made before the registration), monotonicity, the step window and exact timer firing; liveness after every step: software registered or bounced before the step has been polled during it, and every timer a running (not crashed, not finished) host waits on whose instant (sim time at which the wait began + whole-ms length) lies strictly before the end of the step has returned. Non-trivial = >=4 observations and (a timer length not divisible by the tick, or a late registration, or a crash/bounce, or a step that returned the time-budget error). Distinct by scenario hash.",
        &[
            "host programs use only tokio::time and turmoil clock getters",
            "host software never returns an error or panics in the generated tiers (a step that returns early because software failed is a different situation from the time-budget error; it is covered by the replay-only probe sub `soft-err-probe`); clients never finish, so once a client is registered every step that ends beyond the configured duration reports the time-budget error",
            "fractional (non whole-millisecond) ticks, including ns-precision ticks from 1 ns, are generated as a separate class; the upper window edge and timer-exactness clauses are excluded there (known finding F-C05-1) and counted; the lower window edge, never-early timers, the liveness clauses and all epoch/offset identities are still checked",
            "liveness is not demanded of crashed hosts or of hosts whose software has returned (turmoil does not run them); a timer due exactly at the end of a step may fire in that step or at the start of the next",
            "ticks above 2^32+1 ms (~50 days) are not generated",
            "epochs before UNIX_EPOCH are not generated (Sim::new expects epoch >= UNIX_EPOCH)",
        ],
    )
}

fn replay(sub: &str, v: &Value) -> Result<Outcome, String> {
    match sub {
        "frac-probe" => replay_as::<FracProbe>(v, &run_frac),
        "soft-err-probe" => replay_as::<SoftErrProbe>(v, &run_soft_err),
        _ => replay_as::<Scenario>(v, &run),
    }
}

// ---------------------------------------------------------------- coverage-guided tier

/// Clamp a byte-decoded scenario (engine::bytesde) into exactly the domain of
/// `strategy(TickClass::WholeMs)` (sub `whole-ms`):
/// * tick: one of 1000/2000/3000/5000/7000/10 000/33 000/100 000/1 000 000 us or
///   m*1000 us with m in 1..=50; `tick_sub_ns` stays 0 (sub-microsecond and
///   fractional ticks belong to the `fractional` sub only);
/// * epoch: 0 ..= (year 9999)*1000+999 ms plus 0..=999 999 ns (`epoch_strategy`:
///   every branch is a subset of that box, and the box's last branch covers it);
/// * seed, random_order: any; steps 4..=59;
/// * `sim_duration_us`: None or 0 ..= tick_us*steps (`DurSel::resolve`);
/// * 1..=4 hosts, `reg_after` < steps, 1..=3 tasks each in `task_strategy(!client, None)`:
///   lengths 0..=120 or 1000 ms (Sleeps 1..=5, SleepUntil 1..=4 entries), Interval
///   period 1..=40 x 1..=6 ticks, Timeouts 1..=3 pairs (limit 1..=30, inner 0..=30),
///   Finish (0..=2 entries of 0..=10 ms) only on hosts, never on clients;
/// * 0..=4 controller entries (at < steps, host index < number of hosts), stably
///   sorted by `at` as the generator does.
pub fn fuzz_sanitize(sc: &mut Scenario) -> bool {
    const TICKS_US: [u64; 9] = [1000, 2000, 3000, 5000, 7000, 10_000, 33_000, 100_000, 1_000_000];
    let t = sc.tick_us % 59;
    sc.tick_us = if t < 9 { TICKS_US[t as usize] } else { (t - 8) * 1000 };
    sc.tick_sub_ns = 0;
    sc.epoch_ms %= EPOCH_MAX_S * 1000 + 1000;
    sc.epoch_sub_ns %= 1_000_000;
    sc.steps = 4 + sc.steps % 56;
    let steps = sc.steps;
    // duration_strategy(): None, or anything in 0 ..= tick*steps microseconds
    sc.sim_duration_us = sc.sim_duration_us.map(|d| d % (sc.tick_us * steps as u64 + 1));
    // dur_strategy(None): 0..=12 | 13..=120 | 1000
    let dur = |d: &mut u64| {
        let x = *d % 122;
        *d = if x == 121 { 1000 } else { x };
    };
    sc.hosts.truncate(4);
    if sc.hosts.is_empty() {
        sc.hosts.push(HostSpec { client: false, reg_after: 0, tasks: Vec::new() });
    }
    for h in sc.hosts.iter_mut() {
        // generator: 3/4 registered before the first step, 1/4 anywhere below `steps`;
        // the spare high bits of the decoded u32 make the same split
        h.reg_after = if (h.reg_after >> 16) % 4 == 0 { h.reg_after % steps } else { 0 };
        h.tasks.truncate(3);
        if h.tasks.is_empty() {
            h.tasks.push(Task::Sleeps(vec![0]));
        }
        for t in h.tasks.iter_mut() {
            if h.client {
                // task_strategy(host = false) has no Finish alternative
                if let Task::Finish(v) = t {
                    *t = Task::Sleeps(std::mem::take(v));
                }
            }
            match t {
                Task::Sleeps(v) => {
                    v.truncate(5);
                    if v.is_empty() {
                        v.push(0);
                    }
                    v.iter_mut().for_each(dur);
                }
                Task::SleepUntil(v) => {
                    v.truncate(4);
                    if v.is_empty() {
                        v.push(0);
                    }
                    v.iter_mut().for_each(dur);
                }
                Task::Interval(p, n) => {
                    *p = 1 + *p % 40;
                    *n = 1 + *n % 6;
                }
                Task::Timeouts(v) => {
                    v.truncate(3);
                    if v.is_empty() {
                        v.push((1, 0));
                    }
                    for (limit, inner) in v.iter_mut() {
                        *limit = 1 + *limit % 30;
                        *inner %= 31;
                    }
                }
                Task::Finish(v) => {
                    v.truncate(2);
                    for d in v.iter_mut() {
                        *d %= 11;
                    }
                }
            }
        }
    }
    let n = sc.hosts.len();
    sc.ctl.truncate(4);
    for (at, c) in sc.ctl.iter_mut() {
        *at %= steps;
        match c {
            Ctl::Crash(i) | Ctl::Bounce(i) => *i %= n,
        }
    }
    sc.ctl.sort_by_key(|c| c.0);
    true
}

//! C10 — without a crash (and with all fault probabilities 0) the simulated
//! filesystem behaves like a plain POSIX file tree.  DESIGN.md §6 C10.
//! FsDirect driver (`drivers::fsdirect`), op language + interpreters + generators
//! `drivers::fshistory` (shared with C07), reference model `models::posixfs`.
//!
//! A scenario is a history of <= ~40 ops over a 13-path universe on two
//! independent hosts (two `Fs` instances, identical path names).  The
//! interpreter steps the real crate and the model in lock-step:
//!
//! * after every op the result is compared (data, counts, positions, Ok/Err,
//!   and the error kind where the model has an unambiguous one);
//! * every `scan_every` ops and at the end both hosts' whole universe is
//!   scanned through the std shim (exists, kind, len, content, read_dir as a
//!   set) and compared with the model — this is also the host-isolation check,
//!   because a host's model only changes by that host's ops;
//! * immediately before and after every sync op / clock advance the scan of
//!   the real tree must be identical.
//!
//! Sound-first restriction: a handle is only used while its path still names
//! the inode it was opened on.
//!
//! `write_at` (std / tokio `write_at`, io_uring Write with an offset) through a
//! handle opened for appending is executed through all three front ends: it
//! must succeed with the byte count, and the file must read either as POSIX
//! pwrite() (bytes at the offset) or as Linux (bytes at the end) leaves it
//! (`pwrite_on_append`; the model follows what it sees).
//!
//! Sub-check `fshandle` (`run_handles`): the same histories with the host
//! software routing its I/O through `turmoil_fs::FsHandle` guards -- nested,
//! overlapping / dropped out of LIFO order, sequential, on the simulation
//! thread and on worker OS threads -- and the per-host models + scans as the
//! host-isolation oracle.
//!
//! Known findings (F-C10-1 .. F-C10-14, see `probes()` and
//! known_findings.json) are handled by *avoidance* (the op is not executed when
//! the model state says it would trigger the defect) or *taint*; both are
//! counted with `out.exclude`.  Two kinds of taint:
//!
//! * data taint of a file inode: its content / length / end-relative
//!   positions are no longer compared (existence and kind still are);
//! * region taint of a path: nothing at or below the path is compared any
//!   more, every op that touches the region (or an ancestor that depends on
//!   it) is executed but not compared and taints what else it touches, and
//!   files whose not-yet-durable rename chain contains a name in the region are
//!   tainted with it.
//!
//! The tolerance is status-driven: a rule is active only while its finding is
//! recorded with status "known" in known_findings.json (`is_known`).  Once an
//! entry is flipped to "fixed" the random tier executes and asserts the
//! formerly avoided / tainted situations again and reports a returning defect
//! with its generic signature; the probe replays then have to pass.
//!
//! The rules are as narrow as the defects (narrowed with `C10_SURVEY`, see
//! below): a shape that works on the unchanged tree is executed and fully
//! asserted.  In particular, for F-C10-2 (a name re-used while the departure of
//! its former holder is not durable):
//!
//! * re-creation is tainted only if it does not truncate and the former holder
//!   left unsynced data ops or a synced image behind, or if a former holder
//!   had *arrived* under the name by a rename that is still not durable;
//!   `open` with create(+new)+truncate+write, `File::create` and `fs::write`
//!   (both front ends) over any left-overs, and a non-truncating create over a
//!   name whose holder left nothing behind, are asserted in full;
//! * such a re-created file is tainted later only when it was file-synced and
//!   a sync_dir then makes the old departure durable (`Facts::born_over`);
//! * a file renamed onto a name with left-over unsynced data ops is tainted
//!   when that rename becomes durable (not before), or when it is renamed back
//!   to the first name of its own not-yet-durable chain;
//! * a file renamed *away* from a name (rename not durable) is tainted when
//!   something is renamed onto that name or a data op is made under it;
//! * with a crash oracle layered on top (C07, `crash_oracle_on_top`) left-over
//!   unsynced data ops taint at once, as torn writes put them into the
//!   durable image.
//!
//! F-C10-10 taints only when a sync_dir makes a rename durable while an earlier
//! not-yet-durable entry op on one of its names lies in another directory
//! (`Ren::flushed_in_order`); a chain made durable in history order, wholly or
//! as a prefix, stays asserted.  F-C10-11 taints a file under the name of a
//! removed directory only when it is renamed away from it.  F-C10-1 and
//! F-C10-4 were surveyed and are already exact (every write after a rename
//! and every directory rename misbehaves).
//!
//! The rules are phrased over *history facts* (`Facts` per file inode,
//! `NameFacts` per name: "data not file-synced since ...", "renamed and no
//! sync_dir of a parent since", "a file left this name and no sync_dir of the
//! parent since", ...), never over turmoil-fs internals.  `Scenario::strict` is
//! a bit mask that switches individual rules off: the probe scenarios (sub
//! "probe") run with everything strict and a fixed op list and must fail with
//! their dedicated signature `probe:<name>:<generic signature>`.
//!
//! Development aids (environment, only read in `check`/trace):
//! `C10_STRICT=<mask>` runs the random tier with rules switched off (used to
//! show that a fix makes the strict check pass), `C10_DUMP_PROBES=<dir>` writes
//! one replay file per probe, `C10_OS_SELFTEST=<n>` runs n histories against
//! the operating system's filesystem instead of turmoil-fs to validate the
//! reference model, `C10_TRACE=1` prints the concretised ops of a replay.

use crate::drivers::fsdirect::{Fe, Host, OpenFlags, PENDED};
use crate::drivers::fshistory::{
    self, describe, exec_model, mflags, payload, pth, reconcile_open_backend, resolve_slot, scan_model, step_strategy, Last, RealBackend,
    RealHost, Res, Seen,
};
pub use crate::drivers::fshistory::{Op, Step, Whence, NSLOTS, PATHS};
use crate::engine::{replay_as, Ctx, Outcome, Tier};
use crate::models::posixfs::{self as pm, is_prefix, parent_of, Ino, MErr, MHandle, Tree};
use proptest::prelude::*;
use serde::{Deserialize, Serialize};
use serde_json::Value;
use std::cell::Cell;
use std::collections::{BTreeMap, BTreeSet};
use std::io::{self, ErrorKind};
use std::rc::Rc;
use std::time::Duration;
use turmoil_fs::{FsHandle, FsHandleGuard};

pub const PROP: super::Prop = super::Prop {
    id: "C10",
    level: "exploration",
    check,
    replay,
};

// ---- known-finding switches (bit numbers in Scenario::strict) -------------
pub const K_RENAME_DATA: u32 = 1 << 0; // F-C10-1
pub const K_RECREATE: u32 = 1 << 1; // F-C10-2
pub const K_SETLEN_ORDER: u32 = 1 << 2; // F-C10-3
pub const K_DIR_RENAME: u32 = 1 << 3; // F-C10-4
pub const K_ERR_KIND: u32 = 1 << 4; // F-C10-5
pub const K_OPEN_FLAGS: u32 = 1 << 5; // F-C10-6 invalid OpenOptions combinations accepted
pub const K_TYPE_CONFUSION: u32 = 1 << 6; // F-C10-7 file ops on directory paths / dirs over files
pub const K_RENAME_SELF: u32 = 1 << 7; // F-C10-8 rename(p, p)
pub const K_URING_MODE: u32 = 1 << 8; // F-C10-9 io_uring ignores the access mode
pub const K_XDIR_SYNC: u32 = 1 << 9; // F-C10-10 sync_dir(dest dir) after cross-dir rename of a never-durable file
pub const K_DIR_RECREATE_SYNC: u32 = 1 << 10; // F-C10-11 sync_dir(d) of a re-created directory
pub const K_RMDIR_RENAMED_IN: u32 = 1 << 11; // F-C10-12 remove_dir ignores children that arrived by rename
pub const K_APPEND_ZERO: u32 = 1 << 12; // F-C10-13 zero-length write on an append handle moves the cursor
pub const K_DIR_INTO_SELF: u32 = 1 << 13; // F-C10-14 rename of a directory into its own subtree succeeds
pub const K_ALL: u32 = u32::MAX;

/// Finding id a rule bit belongs to.
fn finding_of(bit: u32) -> &'static str {
    match bit {
        K_RENAME_DATA => "F-C10-1",
        K_RECREATE => "F-C10-2",
        K_SETLEN_ORDER => "F-C10-3",
        K_DIR_RENAME => "F-C10-4",
        K_ERR_KIND => "F-C10-5",
        K_OPEN_FLAGS => "F-C10-6",
        K_TYPE_CONFUSION => "F-C10-7",
        K_RENAME_SELF => "F-C10-8",
        K_URING_MODE => "F-C10-9",
        K_XDIR_SYNC => "F-C10-10",
        K_DIR_RECREATE_SYNC => "F-C10-11",
        K_RMDIR_RENAMED_IN => "F-C10-12",
        K_APPEND_ZERO => "F-C10-13",
        K_DIR_INTO_SELF => "F-C10-14",
        _ => "",
    }
}

/// Ids of the C10 findings whose entry in known_findings.json (under
/// VERIF_ROOT, default /verif) has status "known".  Only those are tolerated:
/// every avoid / taint / excluded comparison that exists because of finding
/// F-C10-n is active only while `is_known("F-C10-n")`.  An entry with status
/// "fixed" (or no entry) suppresses nothing: the random tier asserts the full
/// clause again and a returning defect is reported with its generic
/// (non-probe) signature; the probe replays stay as regression tests.
pub fn is_known(id: &str) -> bool {
    static KNOWN: std::sync::OnceLock<Vec<String>> = std::sync::OnceLock::new();
    KNOWN
        .get_or_init(|| {
            crate::engine::load_findings()
                .into_iter()
                .filter(|f| f.property == "C10" && f.status == "known")
                .map(|f| f.id)
                .collect()
        })
        .iter()
        .any(|k| k == id)
}

#[derive(Clone, Debug, Serialize, Deserialize)]
pub struct Scenario {
    pub ops: Vec<Step>,
    /// full scan every this many ops (>= 1), and always at the end
    pub scan_every: u8,
    /// bit mask of known-finding avoid/taint rules that are switched OFF
    #[serde(default)]
    pub strict: u32,
    /// set for probe scenarios: failure signatures get the prefix `probe:<name>:`
    #[serde(default)]
    pub probe: Option<String>,
}

// ---------------------------------------------------------------------------
// results

fn kind_name(k: ErrorKind) -> String {
    format!("{k:?}")
}

// ---------------------------------------------------------------------------
// per-host interpreter state

/// History facts about one file inode (no implementation knowledge: these
/// are properties of the op history, used to describe where known findings
/// apply).
#[derive(Clone, Debug, Default)]
pub(crate) struct Facts {
    /// data or length changed since the last successful sync_all/sync_data of
    /// this file (or since creation)
    pub(crate) dirty: bool,
    /// length was reduced since the last successful file sync
    pub(crate) shrunk: bool,
    /// a sync_all/sync_data of this file succeeded at some point
    pub(crate) ever_synced: bool,
    /// renamed (as a file) and the rename(s) not yet followed by a sync_dir
    /// of one of the parent directories involved
    pub(crate) renamed: Option<Ren>,
    /// the file was created under a name while the departure of a former
    /// holder of the name (unlink / rename away / replacement) was not yet
    /// durable: the directories whose sync_dir makes such a departure
    /// durable (the parent of the name; both parents of a not-yet-durable
    /// rename away from the name) and that were not synced since
    pub(crate) born_over: BTreeSet<String>,
}
#[derive(Clone, Debug)]
pub(crate) struct Ren {
    pub(crate) dirty_at_rename: bool,
    /// every name the file had since the first not-yet-durable rename
    pub(crate) names: Vec<String>,
    /// parallel to `names`: the name had a create / remove / rename (of
    /// whatever file) not yet followed by a sync_dir of its parent when this
    /// chain first touched it
    pub(crate) pre: Vec<bool>,
}
impl Ren {
    pub(crate) fn parents(&self) -> BTreeSet<String> {
        self.names.iter().map(|n| parent_of(n)).collect()
    }
    /// Hop i is the rename names[i] -> names[i+1]; sync_dir(d) makes it
    /// durable iff d is the parent of one of its two names.
    fn hop_flushed(&self, i: usize, d: &str) -> bool {
        parent_of(&self.names[i]) == d || parent_of(&self.names[i + 1]) == d
    }
    /// sync_dir(d) makes the chain's entry ops durable in history order: the
    /// hops it makes durable form a prefix of the chain, and every earlier
    /// not-yet-durable entry op on a name of such a hop lies in `d` as well
    /// (so that it becomes durable by the same call).  Returns the number of
    /// hops made durable, or None if the order is broken (F-C10-10).
    fn flushed_in_order(&self, d: &str) -> Option<usize> {
        let hops = self.names.len() - 1;
        let mut m = 0;
        let mut gap = false;
        for i in 0..hops {
            if self.hop_flushed(i, d) {
                if gap {
                    return None;
                }
                for k in [i, i + 1] {
                    if self.pre[k] && parent_of(&self.names[k]) != d {
                        return None;
                    }
                }
                m = i + 1;
            } else {
                gap = true;
            }
        }
        Some(m)
    }
}

/// History facts about one name (path).
#[derive(Clone, Debug, Default)]
pub(crate) struct NameFacts {
    /// a former file under this name had unsynced data when it left the name
    pub(crate) stale_pending: bool,
    /// a former file under this name had synced data, and no sync_dir of the
    /// parent directory happened since it left
    pub(crate) stale_persisted: bool,
    /// the name was created / removed / renamed from or to and no sync_dir
    /// of its parent happened since
    pub(crate) entry_pending: bool,
    /// a file left this name (unlink / renamed away / replaced) and no
    /// sync_dir of the parent happened since
    pub(crate) removal_pending: bool,
}

pub(crate) struct HostState {
    /// the real side (directly driven `Fs`, the OS, or a host inside a Sim)
    /// including its handle table
    pub(crate) real: Box<dyn RealBackend>,
    pub(crate) model: Tree,
    /// the model's mirror of the real handle table (a slot is occupied on
    /// both sides or on neither)
    pub(crate) mh: Vec<Option<MHandle>>,
    /// inodes whose content/len is no longer compared, with the finding id
    pub(crate) data_taint: BTreeMap<Ino, &'static str>,
    /// path regions (prefix semantics) where nothing is compared any more
    pub(crate) region_taint: BTreeMap<String, &'static str>,
    // --- history facts used by the known-finding rules -------------------
    /// per file inode: history facts the known-finding rules are phrased in
    pub(crate) facts: BTreeMap<Ino, Facts>,
    names: BTreeMap<String, NameFacts>,
    /// directory paths removed and the removal not yet followed by a
    /// sync_dir of the parent
    pub(crate) dir_removed: BTreeSet<String>,
    /// directories created again at a path in `dir_removed`
    pub(crate) dir_recreated: BTreeSet<String>,
    // --- non-trivial rule ---------------------------------------------------
    /// per inode: 0 = untouched, 1 = mutated, 2 = mutated then synced, 3 = mutated again
    pub(crate) mut_state: BTreeMap<Ino, u8>,
    pub(crate) vacated_any: BTreeSet<String>,
    pub(crate) writes: u32,
}

impl HostState {
    pub(crate) fn new(seed: u64) -> Self {
        Self::with_host(Host::new(seed, Duration::from_secs(1_000_000)))
    }
    pub(crate) fn with_host(real: Host) -> Self {
        Self::with_backend(Box::new(RealHost::new(real)))
    }
    pub(crate) fn with_backend(real: Box<dyn RealBackend>) -> Self {
        HostState {
            real,
            model: Tree::new(),
            mh: (0..NSLOTS).map(|_| None).collect(),
            data_taint: BTreeMap::new(),
            region_taint: BTreeMap::new(),
            facts: BTreeMap::new(),
            names: BTreeMap::new(),
            dir_removed: BTreeSet::new(),
            dir_recreated: BTreeSet::new(),
            mut_state: BTreeMap::new(),
            vacated_any: BTreeSet::new(),
            writes: 0,
        }
    }

    /// Forget everything about the past (the host crashed: the software, its
    /// handles and every not-yet-durable op are gone) and continue from `tree`
    /// as the current — and fully durable — state.  The real backend and the
    /// write counter are kept.
    pub(crate) fn reset_to(&mut self, tree: Tree) {
        self.model = tree;
        for m in self.mh.iter_mut() {
            *m = None;
        }
        self.data_taint.clear();
        self.region_taint.clear();
        self.facts.clear();
        // every file that survived is durable, content included: for the
        // history facts that is the same as "file-synced at some point"
        for p in PATHS.iter() {
            if let Some(ino) = self.model.lookup(p) {
                if !self.model.is_dir(ino) {
                    self.facts.insert(ino, Facts { ever_synced: true, ..Facts::default() });
                }
            }
        }
        self.names.clear();
        self.dir_removed.clear();
        self.dir_recreated.clear();
        self.mut_state.clear();
        self.vacated_any.clear();
    }

    pub(crate) fn region_tainted(&self, p: &str) -> Option<&'static str> {
        for (q, id) in &self.region_taint {
            // an op on p depends on q if q is p, below p or above p (root is
            // above everything, so it is never put in the set)
            if is_prefix(q, p) || (p != "/" && is_prefix(p, q)) {
                return Some(id);
            }
        }
        None
    }
    /// p itself (or an ancestor) is tainted: its own existence/kind is unknown.
    pub(crate) fn self_tainted(&self, p: &str) -> bool {
        self.region_taint.keys().any(|q| is_prefix(q, p))
    }
}

/// What happened in one call of [`Run::step`] (kept when `Run::keep_log`).
#[derive(Clone, Debug)]
pub(crate) struct StepRec {
    pub(crate) host: usize,
    /// the op with concrete path indices
    pub(crate) op: Op,
    /// false: skipped (empty slot, stale handle) or avoided by a rule
    pub(crate) executed: bool,
    pub(crate) real_ok: bool,
    pub(crate) model_ok: bool,
    /// the op ran inside a region-tainted part of the tree (nothing compared)
    pub(crate) region_tainted: bool,
    pub(crate) last: Last,
    /// inode of the handle a handle op worked on
    pub(crate) handle_ino: Option<Ino>,
    /// path that handle was opened with
    pub(crate) handle_path: Option<String>,
    /// payload of a writing op
    pub(crate) data: Vec<u8>,
}

/// The lock-step interpreter of C10: real side, POSIX model, result
/// comparison, scans, and the status-driven avoid/taint rules.  C07 drives it
/// step by step (`keep_log`) and adds the crash oracle on top.
pub(crate) struct Run<'a> {
    pub(crate) sc: &'a Scenario,
    pub(crate) out: Outcome,
    pub(crate) hosts: Vec<HostState>,
    pub(crate) ops_done: u32,
    pub(crate) nt_sync: bool,
    pub(crate) nt_reuse: bool,
    pub(crate) last: Last,
    /// record a [`StepRec`] per step
    pub(crate) keep_log: bool,
    pub(crate) log: Vec<StepRec>,
    /// the Fs syncs files in the background (sync_probability > 0): any file
    /// that was written may have synced content behind the model's back
    pub(crate) background_sync: bool,
    cur_data: Vec<u8>,
    rec: Option<StepRec>,
    /// resolved handle slot of the op being executed
    cur_slot: Option<usize>,
    /// model state before the op: existing paths, those that are dirs, missing ones
    pre_existing: Vec<String>,
    pre_dirs: Vec<String>,
    pre_missing: Vec<String>,
    /// inode at the op's (first) path before the op
    pre_ino: Option<Ino>,
    pre_inos: BTreeMap<String, Ino>,
}

fn hex(d: &[u8]) -> String {
    d.iter().map(|b| format!("{b:02x}")).collect::<Vec<_>>().join("")
}

/// Known error-kind mismatches (F-C10-5): (op, model situation, kind turmoil returns).
const KNOWN_KINDS: &[(&str, &str, &str)] = &[
    ("create_dir", "exists", "Other"),
    ("create_dir", "parent-missing", "Other"),
    ("create_dir", "path-component-is-a-file", "Other"),
    ("create_dir_all", "path-component-is-a-file", "Other"),
    ("remove_dir", "missing", "Other"),
    ("remove_dir", "parent-missing", "Other"),
    ("remove_dir", "path-component-is-a-file", "Other"),
    ("remove_dir", "not-a-directory", "Other"),
    ("remove_dir", "directory-not-empty", "Other"),
    ("rename", "source-missing", "Other"),
    ("rename", "parent-missing", "Other"),
    ("rename", "destination-parent-missing", "Other"),
    ("rename", "path-component-is-a-file", "Other"),
    ("rename", "file-onto-directory", "Other"),
    ("rename", "directory-onto-file", "Other"),
    ("rename", "directory-onto-nonempty-directory", "Other"),
    ("rename", "destination-is-ancestor-of-source", "Other"),
    // ENOTDIR situations reported as NotFound
    ("open", "path-component-is-a-file", "NotFound"),
    ("open", "open-for-write-on-directory", "NotFound"),
    ("metadata", "path-component-is-a-file", "NotFound"),
    ("read", "path-component-is-a-file", "NotFound"),
    ("fs_write", "path-component-is-a-file", "NotFound"),
    ("read_dir", "path-component-is-a-file", "NotFound"),
    ("read_dir", "not-a-directory", "NotFound"),
    ("remove_file", "path-component-is-a-file", "NotFound"),
    ("remove_dir_all", "path-component-is-a-file", "NotFound"),
    ("remove_dir_all", "not-a-directory", "NotFound"),
];

impl<'a> Run<'a> {
    /// The interpreter is driven step by step by a client that layers a crash
    /// oracle on top (C07 sets `keep_log`).  The F-C10-2 rule is then applied
    /// in its wider form wherever a former holder of a name left *unsynced
    /// data ops* behind: the views C10 compares are not affected by them once
    /// they are truncated away / as long as the rename is not durable, but the
    /// durable image under the name is (torn writes at a crash apply them).
    /// Likewise F-C10-11: a file under the name of a directory whose removal
    /// is not durable reads correctly, but its durable image collides with
    /// the directory's.
    pub(crate) fn crash_oracle_on_top(&self) -> bool {
        self.keep_log
    }

    /// Is the avoid/taint rule `bit` active?  Only while the scenario does
    /// not switch it off *and* its finding is still recorded as "known".
    pub(crate) fn on(&self, bit: u32) -> bool {
        self.sc.strict & bit == 0 && is_known(finding_of(bit))
    }

    fn fail(&mut self, sig: String, detail: String) {
        let sig = match &self.sc.probe {
            Some(p) => format!("probe:{p}:{sig}"),
            None => sig,
        };
        self.out.fail(sig, detail);
    }

    // ---- comparison ------------------------------------------------------

    fn compare(
        &mut self,
        idx: usize,
        step: &Step,
        real: &io::Result<Res>,
        model: &Result<Res, MErr>,
    ) {
        let opn = step.op.name();
        let fe = step.op.fe().map(|f| f.name()).unwrap_or("-");
        let ctx = format!("op #{idx} host {} {:?}", step.host, step.op);
        if let Err(e) = real {
            if e.to_string().contains("tvh:") || e.to_string().contains(PENDED) {
                self.fail(format!("front-end-protocol:{opn}:{fe}"), format!("{ctx}: {e}"));
                return;
            }
        }
        match (real, model) {
            (Ok(r), Ok(m)) => {
                if r != m {
                    let aspect = match m {
                        Res::Data(_) => "data",
                        Res::Count(_) => "count",
                        Res::Pos(_) => "position",
                        Res::Len(_) => "len",
                        Res::Names(_) => "entries",
                        Res::Stat(_) => "kind-or-len",
                        Res::Bool(_) => "exists",
                        Res::Unit => "unit",
                    };
                    self.fail(
                        format!("result-mismatch:{opn}:{aspect}"),
                        format!("{ctx}: real {} model {}", show(r), show(m)),
                    );
                }
            }
            (Ok(r), Err(m)) => self.fail(
                format!("outcome-mismatch:{opn}:model-err-{}:real-ok", m.situation),
                format!("{ctx}: real Ok({}) but a POSIX tree fails ({}, {:?})", show(r), m.situation, m.kind),
            ),
            (Err(e), Ok(m)) => self.fail(
                format!("outcome-mismatch:{opn}:model-ok:real-err-{}", kind_name(e.kind())),
                format!("{ctx}: real Err({e}) but a POSIX tree returns {}", show(m)),
            ),
            (Err(e), Err(m)) => {
                if let Some(k) = m.kind {
                    if e.kind() != k {
                        let got = kind_name(e.kind());
                        let known = KNOWN_KINDS
                            .iter()
                            .any(|(o, s, g)| *o == opn && *s == m.situation && *g == got);
                        if known && self.on(K_ERR_KIND) {
                            self.out.exclude("F-C10-5");
                            self.out.count(format!("F-C10-5 {opn}/{}: {got} instead of {}", m.situation, kind_name(k)), 1);
                        } else {
                            self.fail(
                                format!("error-kind:{opn}:{}:expected-{}-got-{got}", m.situation, kind_name(k)),
                                format!("{ctx}: real Err({e})"),
                            );
                        }
                    }
                }
            }
        }
    }

    // ---- scans -------------------------------------------------------------

    /// Compare the real tree of host `h` with its model. `why` names the op
    /// after which the scan runs (for the signature).
    pub(crate) fn scan_host(&mut self, h: usize, why: &str, detail_ctx: &str) {
        if self.out.failure.is_some() {
            return;
        }
        let hs = &mut self.hosts[h];
        let real = hs.real.scan();
        let model = scan_model(&hs.model);
        let mut skipped_region = 0u64;
        let mut skipped_data = 0u64;
        let mut problem: Option<(String, String)> = None;
        for (i, p) in PATHS.iter().enumerate() {
            if hs.self_tainted(p) {
                skipped_region += 1;
                continue;
            }
            let (rex, rseen) = &real[i];
            let (mex, mseen) = &model[i];
            let mut bad = |aspect: &str, d: String| {
                if problem.is_none() {
                    problem = Some((aspect.to_string(), format!("path {p}: {d}")));
                }
            };
            if rex != mex {
                bad("exists", format!("exists() real {rex} model {mex} (metadata view: {rseen:?})"));
                continue;
            }
            match (rseen, mseen) {
                (Seen::Absent, Seen::Absent) => {}
                (Seen::Odd(s), _) => bad("inconsistent", s.clone()),
                (Seen::File { len: rl, content: rc }, Seen::File { len: ml, content: mc }) => {
                    let ino = hs.model.lookup(p).unwrap();
                    if hs.data_taint.contains_key(&ino) {
                        skipped_data += 1;
                        continue;
                    }
                    if rl != ml {
                        bad("len", format!("metadata len real {rl} model {ml}"));
                    } else if rc != mc {
                        bad(
                            "content",
                            format!(
                                "content real {} model {}",
                                hex(rc.as_deref().unwrap_or(&[])),
                                hex(mc.as_deref().unwrap_or(&[]))
                            ),
                        );
                    }
                }
                (Seen::Dir { entries: re }, Seen::Dir { entries: me }) => {
                    // entries that are themselves tainted are not compared
                    let f = |v: &Option<Vec<String>>| -> Vec<String> {
                        v.clone()
                            .unwrap_or_default()
                            .into_iter()
                            .filter(|q| !hs.self_tainted(q))
                            .collect()
                    };
                    let (re, me) = (f(re), f(me));
                    if re != me {
                        bad("read_dir", format!("entries real {re:?} model {me:?}"));
                    }
                }
                (r, m) => bad(
                    "kind",
                    format!("real {} model {}", seen_kind(r), seen_kind(m)),
                ),
            }
        }
        if skipped_region > 0 {
            self.out.count("scan comparisons skipped (region taint)", skipped_region);
        }
        if skipped_data > 0 {
            self.out.count("scan comparisons skipped (data taint)", skipped_data);
        }
        if let Some((aspect, d)) = problem {
            self.fail(format!("scan:{why}:{aspect}"), format!("{detail_ctx}: host {h}: {d}"));
        }
    }

    pub(crate) fn scan_all(&mut self, acting: usize, why: &str, detail_ctx: &str) {
        self.scan_host(acting, why, detail_ctx);
        for h in 0..self.hosts.len() {
            if h != acting {
                self.scan_host(h, &format!("other-host-after-{why}"), detail_ctx);
            }
        }
    }

    /// Real-vs-real comparison around a sync op / clock advance.
    fn view_unchanged(
        &mut self,
        h: usize,
        before: &[(bool, Seen)],
        opn: &str,
        detail_ctx: &str,
    ) {
        if self.out.failure.is_some() {
            return;
        }
        let hs = &mut self.hosts[h];
        let after = hs.real.scan();
        for (i, p) in PATHS.iter().enumerate() {
            if hs.self_tainted(p) {
                continue;
            }
            if let Some(ino) = hs.model.lookup(p) {
                if hs.data_taint.contains_key(&ino) {
                    // only existence / kind
                    if seen_kind(&before[i].1) != seen_kind(&after[i].1) || before[i].0 != after[i].0 {
                        let d = format!("{detail_ctx}: path {p}: before {:?} after {:?}", before[i], after[i]);
                        self.fail(format!("sync-or-clock-changed-view:{opn}:kind"), d);
                        return;
                    }
                    continue;
                }
            }
            let strip = |s: &(bool, Seen)| -> (bool, Seen) {
                match &s.1 {
                    Seen::Dir { entries } => (
                        s.0,
                        Seen::Dir {
                            entries: entries
                                .clone()
                                .map(|v| v.into_iter().filter(|q| !hs.self_tainted(q)).collect()),
                        },
                    ),
                    _ => s.clone(),
                }
            };
            let (b, a) = (strip(&before[i]), strip(&after[i]));
            if b != a {
                let aspect = match (&b.1, &a.1) {
                    (Seen::File { len: l1, .. }, Seen::File { len: l2, .. }) if l1 != l2 => "len",
                    (Seen::File { .. }, Seen::File { .. }) => "content",
                    (Seen::Dir { .. }, Seen::Dir { .. }) => "read_dir",
                    _ => "exists-or-kind",
                };
                let d = format!("{detail_ctx}: path {p}: before {b:?} after {a:?}");
                self.fail(format!("sync-or-clock-changed-view:{opn}:{aspect}"), d);
                return;
            }
        }
    }

    // ---- NT bookkeeping ------------------------------------------------------

    fn note_mutation(&mut self, h: usize, ino: Ino) {
        let tainted = self.hosts[h].data_taint.contains_key(&ino);
        let st = self.hosts[h].mut_state.entry(ino).or_insert(0);
        *st = match *st {
            0 | 1 => 1,
            2 | 3 => 3,
            _ => 3,
        };
        if *st == 3 {
            if tainted {
                self.out.label("sync-between-mutations (object tainted)");
            } else {
                self.nt_sync = true;
            }
        }
    }
    fn note_sync(&mut self, h: usize, ino: Ino) {
        if let Some(st) = self.hosts[h].mut_state.get_mut(&ino) {
            if *st == 1 {
                *st = 2;
            }
        }
    }
    fn note_vacated(&mut self, h: usize, p: &str) {
        self.hosts[h].vacated_any.insert(p.to_string());
    }
    fn note_name_used(&mut self, h: usize, p: &str) {
        if self.hosts[h].vacated_any.contains(p) {
            if self.hosts[h].self_tainted(p) {
                self.out.label("name-reuse (path tainted)");
            } else {
                self.nt_reuse = true;
            }
        }
    }

    // ---- taint helpers -------------------------------------------------------

    pub(crate) fn taint_data(&mut self, h: usize, ino: Ino, id: &'static str) {
        self.hosts[h].data_taint.entry(ino).or_insert(id);
        self.out.exclude(id);
    }
    pub(crate) fn taint_region(&mut self, h: usize, p: &str, id: &'static str) {
        if p == "/" {
            // never taint the root: taint every top-level path instead
            for q in PATHS.iter().filter(|q| pm::components(q).len() == 1) {
                self.hosts[h].region_taint.entry(q.to_string()).or_insert(id);
            }
        } else {
            self.hosts[h].region_taint.entry(p.to_string()).or_insert(id);
        }
        self.out.exclude(id);
        // unknown things now happen under this name: files whose
        // not-yet-durable rename chain contains a name in the region are
        // affected by them (data and, when the chain is made durable out of
        // order, existence under every name of the chain)
        loop {
            let hs = &self.hosts[h];
            let mut add: Vec<String> = Vec::new();
            let mut inos: Vec<Ino> = Vec::new();
            for (i, f) in hs.facts.iter() {
                let Some(r) = f.renamed.as_ref() else { continue };
                if r.names.iter().any(|n| hs.self_tainted(n)) {
                    inos.push(*i);
                    for n in &r.names {
                        if !hs.self_tainted(n) {
                            add.push(n.clone());
                        }
                    }
                }
            }
            for o in inos {
                self.hosts[h].data_taint.entry(o).or_insert(id);
            }
            if add.is_empty() {
                break;
            }
            for n in add {
                self.hosts[h].region_taint.entry(n).or_insert(id);
            }
        }
    }

    fn skip(&mut self, id: &'static str, what: &str) {
        if id == "unspecified" {
            self.out.count(format!("skipped (unspecified behaviour): {what}"), 1);
            return;
        }
        self.out.exclude(id);
        self.out.count(format!("avoided {id}: {what}"), 1);
    }

    // ---- one step ------------------------------------------------------------

    /// Returns false if the op was not executed (skipped / avoided).
    fn concretize(&self, h: usize, op: &Op) -> Op {
        fshistory::concretize(&self.hosts[h].model, op)
    }

    /// Execute one step on both sides, compare, apply the rules.  Returns
    /// false if the op was not executed (skipped / avoided).
    pub(crate) fn step(&mut self, idx: usize, step: &Step) -> bool {
        let executed = self.step_inner(idx, step);
        if self.keep_log {
            if let Some(mut r) = self.rec.take() {
                r.executed = executed;
                self.log.push(r);
            }
        }
        executed
    }

    fn step_inner(&mut self, idx: usize, step: &Step) -> bool {
        let h = (step.host as usize) % self.hosts.len();
        let step = &Step {
            host: step.host,
            op: self.concretize(h, &step.op),
        };
        if self.keep_log {
            self.rec = Some(StepRec {
                host: h,
                op: step.op.clone(),
                executed: false,
                real_ok: false,
                model_ok: false,
                region_tainted: false,
                last: Last::default(),
                handle_ino: None,
                handle_path: None,
                data: Vec::new(),
            });
        }
        if trace_on() {
            eprintln!("  #{idx} host {h} {}", describe(&step.op));
        }
        let ctx = format!("op #{idx} host {h} {:?}", step.op);
        let opn = step.op.name();

        // handle ops address the k-th *usable* handle (usable = its path still
        // names the inode it was opened on: the sound-first restriction)
        let handle_slot = step
            .op
            .handle_slot()
            .map(|raw| resolve_slot(&self.hosts[h].model, &self.hosts[h].mh, raw));
        self.cur_slot = handle_slot;
        if let Some(s) = handle_slot {
            let hs = &self.hosts[h];
            let Some(mh) = &hs.mh[s] else {
                self.out.count("skipped: empty handle slot", 1);
                return false;
            };
            if hs.model.lookup(&mh.path) != Some(mh.ino) {
                self.out.count("skipped: handle outlived its path (not asserted)", 1);
                self.out.label("handle-outlived-path");
                return false;
            }
        }

        // paths the op touches (for region taint)
        let touched: Vec<String> = match &step.op {
            Op::Open { path, .. }
            | Op::SyncDir { path, .. }
            | Op::RemoveFile { path, .. }
            | Op::CreateDir { path, .. }
            | Op::RemoveDir { path, .. }
            | Op::RemoveDirAll { path, .. }
            | Op::ReadDir { path, .. }
            | Op::Metadata { path, .. }
            | Op::Exists { path, .. }
            | Op::ReadFile { path, .. }
            | Op::WriteFile { path, .. } => vec![pth(*path).to_string()],
            Op::CreateDirAll { path, .. } => {
                // the op may create every missing ancestor as well
                let p = pth(*path);
                let mut v = vec![p.to_string()];
                for q in PATHS.iter().filter(|q| **q != "/" && **q != p && is_prefix(q, p)) {
                    if self.hosts[h].model.lookup(q).is_none() {
                        v.push(q.to_string());
                    }
                }
                v
            }
            Op::Rename { from, to, .. } => vec![pth(*from).to_string(), pth(*to).to_string()],
            _ => match handle_slot {
                Some(s) => vec![self.hosts[h].mh[s].as_ref().unwrap().path.clone()],
                None => vec![],
            },
        };
        let mut region: Option<&'static str> = None;
        for p in &touched {
            let hs = &self.hosts[h];
            let t = match &step.op {
                // a listing / sync of a directory does not depend on what is
                // below tainted children (entries are filtered), only on the
                // directory itself
                Op::ReadDir { .. } | Op::SyncDir { .. } => hs
                    .region_taint
                    .iter()
                    .find(|(q, _)| is_prefix(q, p))
                    .map(|(_, id)| *id),
                // create_dir_all depends on every ancestor
                _ => hs.region_tainted(p),
            };
            if t.is_some() {
                region = t;
            }
        }

        // ------------------------------------------------------------------
        // avoidance rules (model state decides; op is not executed)
        if let Some(why) = self.avoid(h, &step.op) {
            self.skip(why.0, why.1);
            return false;
        }

        let before = if step.op.is_sync_or_clock() {
            Some(self.hosts[h].real.scan())
        } else {
            None
        };

        // ------------------------------------------------------------------
        // execute on both sides
        let (real, model) = self.exec(h, step);
        if let Some(r) = self.rec.as_mut() {
            r.real_ok = real.is_ok();
            r.model_ok = model.is_ok();
            r.region_tainted = region.is_some();
            r.last = self.last.clone();
            r.handle_ino = handle_slot.and_then(|s| self.hosts[h].mh[s].as_ref().map(|m| m.ino));
            r.handle_path = handle_slot.and_then(|s| self.hosts[h].mh[s].as_ref().map(|m| m.path.clone()));
            r.data = std::mem::take(&mut self.cur_data);
        }

        if let Some(id) = region {
            // nothing compared; everything the op touched is now unknown
            self.out.count("op results not compared (region taint)", 1);
            for p in &touched {
                if !matches!(
                    step.op,
                    Op::ReadDir { .. } | Op::Metadata { .. } | Op::Exists { .. } | Op::ReadFile { .. } | Op::SyncDir { .. }
                ) {
                    self.taint_region(h, p, id);
                }
            }
        } else {
            let data_tainted = handle_slot
                .map(|s| {
                    let ino = self.hosts[h].mh[s].as_ref().unwrap().ino;
                    self.hosts[h].data_taint.contains_key(&ino)
                })
                .unwrap_or(false)
                || match &step.op {
                    Op::ReadFile { path, .. } | Op::Metadata { path, .. } => self.hosts[h]
                        .model
                        .lookup(pth(*path))
                        .map(|i| self.hosts[h].data_taint.contains_key(&i))
                        .unwrap_or(false),
                    _ => false,
                };
            let append = handle_slot
                .map(|s| self.hosts[h].mh[s].as_ref().unwrap().append)
                .unwrap_or(false);
            // ops whose result depends on the (unknown) content / length
            let depends = match &step.op {
                Op::ReadAt { .. } | Op::Read { .. } | Op::HandleLen { .. } | Op::ReadFile { .. } | Op::Metadata { .. } => true,
                Op::Seek { whence, .. } => *whence == Whence::End,
                Op::Write { .. } => append,
                _ => false,
            };
            if data_tainted && depends {
                self.out.count("op results not compared (data taint)", 1);
                // Ok/Err agreement is still required, except for an
                // end-relative seek (its Ok/Err depends on the length)
                if !matches!(step.op, Op::Seek { .. }) && real.is_ok() != model.is_ok() {
                    self.compare(idx, step, &real, &model);
                }
                // a cursor that depended on the unknown length is unknown too:
                // re-synchronise both cursors to a known absolute position
                if let Some(s) = handle_slot {
                    if matches!(step.op, Op::Seek { .. } | Op::Write { .. } | Op::Read { .. }) {
                        self.resync_cursor(h, s);
                    }
                }
            } else {
                self.compare(idx, step, &real, &model);
            }
        }
        if self.out.failure.is_some() {
            return true;
        }

        // ------------------------------------------------------------------
        // post rules: history facts, taints triggered by this op, NT
        self.post(h, step, &real, &model);

        if let Some(b) = before {
            if real.is_ok() {
                self.view_unchanged(h, &b, opn, &ctx);
            }
        }
        true
    }

    fn resync_cursor(&mut self, h: usize, s: usize) {
        let hs = &mut self.hosts[h];
        if let Some(mh) = hs.mh[s].as_mut() {
            let pos = mh.cursor.min(64);
            mh.cursor = pos;
            hs.real.seek_slot(s, pos);
        }
    }

    /// Avoidance rules for known findings. Returns (finding id, description).
    fn avoid(&mut self, h: usize, op: &Op) -> Option<(&'static str, &'static str)> {
        let hs = &self.hosts[h];
        let m = &hs.model;
        let is_dir = |p: &str| m.lookup(p).map(|i| m.is_dir(i)).unwrap_or(false);
        let is_file = |p: &str| m.lookup(p).map(|i| !m.is_dir(i)).unwrap_or(false);
        match op {
            Op::Open { path, fl, .. } => {
                let p = pth(*path);
                if !Tree::flags_valid(mflags(*fl)) && self.on(K_OPEN_FLAGS) {
                    return Some(("F-C10-6", "open with an option combination std rejects (InvalidInput)"));
                }
                if is_dir(p) && !fl.write && !fl.append && !fl.create && !fl.create_new {
                    // unspecified for the shim (handles are regular files only)
                    return Some(("unspecified", "read-only open of a directory"));
                }
                if is_dir(p) && (fl.create || fl.create_new) && self.on(K_TYPE_CONFUSION) {
                    return Some(("F-C10-7", "open(create) on an existing directory"));
                }
            }
            Op::WriteFile { path, .. } => {
                if is_dir(pth(*path)) && self.on(K_TYPE_CONFUSION) {
                    return Some(("F-C10-7", "fs::write on an existing directory"));
                }
            }
            Op::CreateDirAll { path, .. } => {
                if is_file(pth(*path)) && self.on(K_TYPE_CONFUSION) {
                    return Some(("F-C10-7", "create_dir_all on an existing file"));
                }
            }
            Op::Rename { from, to, .. } => {
                let (f, t) = (pth(*from), pth(*to));
                if f == "/" || t == "/" {
                    return Some(("unspecified", "rename involving the root"));
                }
                if f == t && m.lookup(f).is_some() && self.on(K_RENAME_SELF) {
                    return Some(("F-C10-8", "rename(p, p)"));
                }
                if is_dir(f) {
                    if f != t && is_prefix(f, t) {
                        // a POSIX tree refuses this (EINVAL) and changes nothing, so
                        // it can be executed and compared whatever F-C10-4's status
                        if self.on(K_DIR_INTO_SELF) {
                            return Some(("F-C10-14", "rename of a directory into its own subtree"));
                        }
                    } else if self.on(K_DIR_RENAME) {
                        return Some(("F-C10-4", "rename of a directory"));
                    }
                }
            }
            Op::RemoveDir { path, .. } | Op::RemoveDirAll { path, .. } => {
                let p = pth(*path);
                if p == "/" {
                    return Some(("unspecified", "remove_dir of the root"));
                }
                if let (Op::RemoveDir { .. }, Ok(kids)) = (op, m.readdir(p)) {
                    // F-C10-12: children that arrived by a rename that is not
                    // yet durable are not counted by the emptiness check
                    let renamed_in = |q: &String| {
                        m.lookup(q)
                            .and_then(|i| hs.facts.get(&i))
                            .map(|f| f.renamed.is_some())
                            .unwrap_or(false)
                    };
                    if !kids.is_empty() && kids.iter().all(renamed_in) && self.on(K_RMDIR_RENAMED_IN) {
                        return Some(("F-C10-12", "remove_dir of a directory whose only children arrived by rename"));
                    }
                }
            }
            Op::WriteAt { fe, .. } => {
                let mh = hs.mh[self.cur_slot.unwrap()].as_ref().unwrap();
                if mh.append && self.crash_oracle_on_top() {
                    // Linux pwrite() on O_APPEND ignores the offset, POSIX says it
                    // must not: where the bytes land is platform-dependent.  The
                    // lock-step oracle follows the real side within that set (see
                    // `pwrite_on_append`); a durable-image oracle on top cannot
                    return Some(("unspecified", "write_at on an append-mode handle"));
                }
                if *fe == Fe::Uring && !mh.writable && self.on(K_URING_MODE) {
                    return Some(("F-C10-9", "io_uring write through a handle not opened for writing"));
                }
            }
            Op::Write { len: 0, .. } => {
                let mh = hs.mh[self.cur_slot.unwrap()].as_ref().unwrap();
                if mh.append && mh.writable && self.on(K_APPEND_ZERO) {
                    return Some(("F-C10-13", "zero-length write on an append-mode handle"));
                }
            }
            Op::ReadAt { fe, .. } => {
                let mh = hs.mh[self.cur_slot.unwrap()].as_ref().unwrap();
                if *fe == Fe::Uring && !mh.readable && self.on(K_URING_MODE) {
                    return Some(("F-C10-9", "io_uring read through a handle not opened for reading"));
                }
            }
            _ => {}
        }
        None
    }

    /// Execute one op on the real crate and on the model.
    fn exec(&mut self, h: usize, step: &Step) -> (io::Result<Res>, Result<Res, MErr>) {
        self.last = Last::default();
        let cur = self.cur_slot.unwrap_or(0);
        self.pre_existing.clear();
        self.pre_dirs.clear();
        self.pre_missing.clear();
        self.pre_inos.clear();
        self.pre_ino = match &step.op {
            Op::RemoveFile { path, .. } => self.hosts[h].model.lookup(pth(*path)),
            _ => None,
        };
        if let Op::RemoveDirAll { .. } | Op::CreateDirAll { .. } = &step.op {
            for q in PATHS.iter() {
                match self.hosts[h].model.lookup(q) {
                    Some(i) => {
                        self.pre_inos.insert(q.to_string(), i);
                        self.pre_existing.push(q.to_string());
                        if self.hosts[h].model.is_dir(i) {
                            self.pre_dirs.push(q.to_string());
                        }
                    }
                    None => {
                        if let Op::CreateDirAll { path, .. } = &step.op {
                            if is_prefix(q, pth(*path)) {
                                self.pre_missing.push(q.to_string());
                            }
                        }
                    }
                }
            }
        }
        // a data op the known-finding rules are about to taint (see
        // `on_len_changed`): its effect on the content is not asserted
        let rule_taints = {
            let (k1, k3) = (self.on(K_RENAME_DATA), self.on(K_SETLEN_ORDER));
            let hs = &self.hosts[h];
            hs.mh[cur]
                .as_ref()
                .and_then(|m| hs.facts.get(&m.ino))
                .map(|f| (f.renamed.is_some() && k1) || (f.shrunk && k3))
                .unwrap_or(false)
        };
        let hs = &mut self.hosts[h];
        let data = match step.op.write_len() {
            Some(n) => {
                hs.writes += 1;
                payload(hs.writes, n)
            }
            None => Vec::new(),
        };
        self.cur_data = if self.keep_log { data.clone() } else { Vec::new() };
        let real = hs.real.exec(&step.op, cur, &data);
        let on_append = match &step.op {
            Op::WriteAt { off, .. } => hs.mh[cur].as_ref().filter(|m| m.append && m.writable).map(|_| *off as u64),
            _ => None,
        };
        let mut landing: Option<Result<&'static str, String>> = None;
        let (model, last) = match on_append {
            Some(off) => {
                let (m, l, where_) = pwrite_on_append(hs, cur, off, &data, real.is_ok() && !rule_taints);
                landing = where_;
                (m, l)
            }
            None => exec_model(&mut hs.model, &mut hs.mh, &step.op, cur, &data),
        };
        self.last = last;
        if on_append.is_some() {
            let fe = step.op.fe().map(|f| f.name()).unwrap_or("-");
            self.out.label(format!("write_at-on-append-handle:{fe}"));
            match landing {
                Some(Ok(l)) => self.out.label(format!("write_at-on-append-handle:{l}")),
                Some(Err(d)) => {
                    let ctx = format!("host {h} {:?}", step.op);
                    self.fail("write_at-on-append-handle:content-neither-at-offset-nor-at-end".to_string(), format!("{ctx}: {d}"));
                }
                None => {}
            }
        }
        let hs = &mut self.hosts[h];
        if let Op::Open { slot, .. } = &step.op {
            reconcile_open_backend(hs.real.as_mut(), &mut hs.mh, *slot);
        }
        // directory entries that are tainted themselves are not compared
        let filt = |r: Res, hs: &HostState| match r {
            Res::Names(v) if matches!(step.op, Op::ReadDir { .. }) => {
                Res::Names(v.into_iter().filter(|q| !hs.self_tainted(q)).collect())
            }
            other => other,
        };
        (real.map(|r| filt(r, hs)), model.map(|r| filt(r, hs)))
    }

    /// After a compared (or tainted) op: update history facts, apply taints
    /// for known findings, update the non-trivial rule.
    fn post(&mut self, h: usize, step: &Step, real: &io::Result<Res>, model: &Result<Res, MErr>) {
        if model.is_err() || real.is_err() {
            return;
        }
        let cur = self.cur_slot.unwrap_or(0);
        let last = self.last.clone();
        match &step.op {
            Op::Open { path, fl, .. } => {
                let p = pth(*path);
                let Some(ino) = last.ino else { return };
                if last.created {
                    self.on_file_created(h, p, ino, fl.truncate && fl.write);
                }
                // O_TRUNC counts as a data op even if the length was already 0
                if fl.truncate && fl.write {
                    self.on_len_changed(h, ino, &last, true, p);
                    if last.new_len < last.old_len {
                        self.note_mutation(h, ino);
                    }
                }
            }
            Op::WriteAt { len, .. } | Op::Write { len, .. } => {
                if *len > 0 {
                    let ino = last.ino.unwrap();
                    let through = self.hosts[h].mh[cur].as_ref().unwrap().path.clone();
                    self.on_len_changed(h, ino, &last, false, &through);
                    self.note_mutation(h, ino);
                }
            }
            Op::SetLen { .. } => {
                let ino = last.ino.unwrap();
                let through = self.hosts[h].mh[cur].as_ref().unwrap().path.clone();
                self.on_len_changed(h, ino, &last, true, &through);
                self.note_mutation(h, ino);
            }
            Op::SyncAll { .. } | Op::SyncData { .. } => {
                let (ino, through) = {
                    let mh = self.hosts[h].mh[cur].as_ref().unwrap();
                    (mh.ino, mh.path.clone())
                };
                self.note_sync(h, ino);
                self.on_file_synced(h, ino, &through);
                self.out.label("has-file-sync");
            }
            Op::SyncDir { path, .. } => {
                let p = pth(*path);
                if let Some(d) = self.hosts[h].model.lookup(p) {
                    self.note_sync(h, d);
                    let kids: Vec<Ino> = self.hosts[h].model.subtree(d).into_iter().skip(1).collect();
                    for k in kids {
                        self.note_sync(h, k);
                    }
                }
                self.on_dir_synced(h, p);
                self.out.label("has-sync_dir");
            }
            Op::Rename { from, to, .. } => {
                let (f, t) = (pth(*from), pth(*to));
                if f == t {
                    return;
                }
                let ino = self.hosts[h].model.lookup(t).unwrap();
                self.note_vacated(h, f);
                self.note_name_used(h, t);
                self.hosts[h].vacated_any.remove(t);
                for d in [parent_of(f), parent_of(t)] {
                    if let Some(di) = self.hosts[h].model.lookup(&d) {
                        self.note_mutation(h, di);
                    }
                }
                if self.hosts[h].model.is_dir(ino) {
                    self.out.label("rename-dir");
                    let empty = self.hosts[h].model.readdir(t).map(|k| k.is_empty()).unwrap_or(false);
                    let pending = self.name(h, f).entry_pending;
                    let to_clean = !self.name(h, t).entry_pending && !self.hosts[h].dir_removed.contains(t);
                    self.out.label(format!(
                        "rename-dir:{}:{}:{}",
                        if empty { "empty" } else { "non-empty" },
                        if pending { "creation-not-durable" } else { "creation-durable" },
                        if to_clean { "onto-clean-name" } else { "onto-name-with-pending-entry-op" }
                    ));
                    if self.on(K_DIR_RENAME) {
                        self.taint_region(h, f, "F-C10-4");
                        self.taint_region(h, t, "F-C10-4");
                    }
                } else {
                    self.out.label(if parent_of(f) == parent_of(t) {
                        "rename-file-same-dir"
                    } else {
                        "rename-file-across-dirs"
                    });
                    if last.replaced.is_some() {
                        self.out.label("rename-onto-existing");
                    }
                    self.on_file_renamed(h, f, t, ino, last.replaced);
                }
            }
            Op::RemoveFile { path, .. } => {
                let p = pth(*path);
                self.note_vacated(h, p);
                if let Some(gone) = self.pre_ino {
                    self.file_leaves(h, p, gone, true);
                }
                if let Some(di) = self.hosts[h].model.lookup(&parent_of(p)) {
                    self.note_mutation(h, di);
                }
            }
            Op::CreateDir { path, .. } => {
                let p = pth(*path);
                self.note_name_used(h, p);
                self.hosts[h].vacated_any.remove(p);
                if let Some(di) = self.hosts[h].model.lookup(&parent_of(p)) {
                    self.note_mutation(h, di);
                }
                if self.hosts[h].dir_removed.contains(p) || self.name(h, p).removal_pending {
                    self.hosts[h].dir_recreated.insert(p.to_string());
                }
                self.name(h, p).entry_pending = true;
            }
            Op::CreateDirAll { path, .. } => {
                let p = pth(*path);
                for q in self.pre_missing.clone() {
                    self.note_name_used(h, &q);
                    self.hosts[h].vacated_any.remove(&q);
                    if self.hosts[h].dir_removed.contains(&q) || self.name(h, &q).removal_pending {
                        self.hosts[h].dir_recreated.insert(q.clone());
                    }
                    self.name(h, &q).entry_pending = true;
                }
                let _ = p;
            }
            Op::RemoveDir { path, .. } => {
                let p = pth(*path);
                self.hosts[h].dir_removed.insert(p.to_string());
                self.note_vacated(h, p);
                if let Some(di) = self.hosts[h].model.lookup(&parent_of(p)) {
                    self.note_mutation(h, di);
                }
            }
            Op::RemoveDirAll { path, .. } => {
                let p = pth(*path);
                for q in self.pre_existing.clone() {
                    // everything below is gone as well
                    if !is_prefix(p, &q) {
                        continue;
                    }
                    self.note_vacated(h, &q);
                    if self.pre_dirs.contains(&q) {
                        self.hosts[h].dir_removed.insert(q.clone());
                    } else if let Some(gone) = self.pre_inos.get(&q).copied() {
                        self.file_leaves(h, &q, gone, true);
                    }
                }
                if let Some(di) = self.hosts[h].model.lookup(&parent_of(p)) {
                    self.note_mutation(h, di);
                }
            }
            Op::WriteFile { path, .. } => {
                let p = pth(*path);
                let ino = last.ino.unwrap();
                if last.created {
                    // fs::write = File::create (create + truncate) + write
                    self.on_file_created(h, p, ino, true);
                }
                self.on_len_changed(h, ino, &last, true, p);
                self.note_mutation(h, ino);
            }
            _ => {}
        }
    }

    // ---- known-finding triggers (history-level descriptions) ----------------

    fn name(&mut self, h: usize, p: &str) -> &mut NameFacts {
        self.hosts[h].names.entry(p.to_string()).or_default()
    }

    /// A file inode stops being reachable under `p` (unlink, renamed away,
    /// replaced by a rename onto `p`).
    fn file_leaves(&mut self, h: usize, p: &str, ino: Ino, persisted_matters: bool) {
        let f = self.hosts[h].facts.entry(ino).or_default().clone();
        let n = self.name(h, p);
        n.stale_pending |= f.dirty;
        if persisted_matters {
            n.stale_persisted |= f.ever_synced;
        }
        n.entry_pending = true;
        n.removal_pending = true;
    }

    /// A file inode was created at `p`.  `truncating`: the creating call also
    /// truncates (open flags contain truncate together with write; File::create;
    /// fs::write through either front end).
    fn on_file_created(&mut self, h: usize, p: &str, ino: Ino, truncating: bool) {
        self.note_name_used(h, p);
        self.hosts[h].vacated_any.remove(p);
        if let Some(di) = self.hosts[h].model.lookup(&parent_of(p)) {
            self.note_mutation(h, di);
        }
        self.hosts[h].mut_state.entry(ino).or_insert(0);
        self.note_mutation(h, ino);
        self.hosts[h].facts.insert(ino, Facts::default());
        // F-C10-2: a file created under a name whose former holder left data
        // behind (unsynced writes, or synced content whose removal is not yet
        // durable) shows the old incarnation's bytes -- unless the creating
        // call truncates (open flags truncate+write, File::create, fs::write):
        // then the new file is empty as it must be and behaves like any other
        // file, with one exception (see `born_over` in on_dir_synced).  The
        // same holds when the former holder left nothing behind (no unsynced
        // data op, never file-synced).
        let n = self.name(h, p).clone();
        let stale = n.stale_pending || n.stale_persisted;
        if stale || n.removal_pending {
            self.out.label("file-recreated-under-name-with-pending-removal-or-stale-data");
            // ... and unless a former holder had *arrived* under the name by a
            // rename that is still not durable: then the name keeps resolving
            // to that rename's source, whatever is created under it
            let rename_dest = self.hosts[h]
                .facts
                .values()
                .filter_map(|f| f.renamed.as_ref())
                .any(|r| r.names.iter().skip(1).any(|n| n == p));
            let shows_old_data = stale && !truncating;
            self.out.label(match (rename_dest, shows_old_data, truncating) {
                (true, _, _) => "recreate:name-is-destination-of-not-yet-durable-rename",
                (_, true, _) => "recreate:not-truncating-over-stale-data",
                (_, false, true) => "recreate:truncating (asserted)",
                (_, false, false) => "recreate:not-truncating-nothing-stale (asserted)",
            });
            // with a crash oracle layered on top the former holder's unsynced
            // data ops matter even behind a truncation: a crash tears them
            // into the durable image stored under the name
            let torn_into_image = n.stale_pending && self.crash_oracle_on_top();
            if torn_into_image && !shows_old_data && !rename_dest {
                self.out.label("recreate:truncating-over-unsynced-data (durable image not asserted)");
            }
            let shows_old_data = shows_old_data || rename_dest || torn_into_image;
            if n.removal_pending {
                let mut dirs: BTreeSet<String> = self.hosts[h]
                    .facts
                    .values()
                    .filter_map(|f| f.renamed.as_ref())
                    .filter(|r| r.names.iter().any(|n| n == p))
                    .flat_map(|r| r.parents())
                    .collect();
                dirs.insert(parent_of(p));
                self.hosts[h].facts.get_mut(&ino).unwrap().born_over = dirs;
            }
            if self.on(K_RECREATE) {
                if shows_old_data {
                    self.taint_data(h, ino, "F-C10-2");
                    self.out.count("F-C10-2 taint: created over stale data / rename destination", 1);
                }
                // (a file that was renamed away from this name and whose rename
                // is not yet durable sees every data op made under the name, the
                // truncation of the creating call included: on_len_changed)
            }
        } else if n.entry_pending {
            self.out.label("file-recreated-under-clean-vacated-name");
        }
        self.name(h, p).entry_pending = true;
        // F-C10-11 (kind confusion): a file created under the name of a
        // directory whose removal is not yet durable; after a rename of that
        // file the destination looks like a directory as well
        if self.hosts[h].dir_removed.contains(p) {
            // the file itself behaves; judged when it is renamed
            // (on_file_renamed).  With a crash oracle on top the name is given
            // up at once: a file sync stores a file image under a name that
            // still is a durable directory, and a crash leaves both
            self.out.label("file-created-under-name-of-removed-directory");
            if self.crash_oracle_on_top() && self.on(K_DIR_RECREATE_SYNC) {
                self.taint_region(h, p, "F-C10-11");
            }
        }
    }

    fn on_file_renamed(&mut self, h: usize, from: &str, to: &str, ino: Ino, replaced: Option<Ino>) {
        let (pre_from, pre_to) = (self.name(h, from).entry_pending, self.name(h, to).entry_pending);
        let to_removal_pending = self.name(h, to).removal_pending;
        if let Some(victim) = replaced {
            // the victim's synced content is overwritten when the rename
            // becomes durable; its unsynced data ops stay keyed on the name
            self.file_leaves(h, to, victim, false);
        }
        self.file_leaves(h, from, ino, true);
        // F-C10-2 (second form): a file renamed onto a name whose former
        // holder left unsynced data ops behind gets them applied later
        let stale_pending = self.name(h, to).stale_pending;
        if stale_pending || to_removal_pending {
            self.out.label("file-renamed-onto-name-with-pending-removal-or-stale-data");
            self.out.label(if stale_pending {
                "rename-onto:name-with-unsynced-data-of-former-holder"
            } else {
                "rename-onto:name-with-pending-removal-only (asserted)"
            });
            if self.on(K_RECREATE) {
                // the arriving file itself reads correctly for now; it is
                // judged when the rename becomes durable (on_dir_synced) --
                // unless a crash oracle is layered on top: a crash tears the
                // former holder's unsynced writes into the image under the name
                if stale_pending && self.crash_oracle_on_top() {
                    self.taint_data(h, ino, "F-C10-2");
                }
                // files renamed away from `to` earlier (not yet durable) get
                // this file's data attributed to them
                let others: Vec<Ino> = self.hosts[h]
                    .facts
                    .iter()
                    .filter(|(i, f)| **i != ino && f.renamed.as_ref().map(|r| r.names.iter().any(|n| n == to)).unwrap_or(false))
                    .map(|(i, _)| *i)
                    .collect();
                for o in others {
                    self.taint_data(h, o, "F-C10-2");
                    self.out.count("F-C10-2 taint: file renamed away from a name that is renamed onto", 1);
                }
            }
        }
        self.name(h, to).entry_pending = true;
        if self.hosts[h].dir_removed.contains(to) {
            // see on_file_created
            self.out.label("file-renamed-onto-name-of-removed-directory");
            if self.crash_oracle_on_top() && self.on(K_DIR_RECREATE_SYNC) {
                self.taint_region(h, to, "F-C10-11");
            }
        }
        if self.hosts[h].dir_removed.contains(from) {
            // F-C10-11 (kind confusion): a file that sat under the name of a
            // directory whose removal is not yet durable is renamed: the
            // destination looks like a directory as well
            self.out.label("file-renamed-away-from-name-of-removed-directory");
            if self.on(K_DIR_RECREATE_SYNC) {
                self.taint_region(h, from, "F-C10-11");
                self.taint_region(h, to, "F-C10-11");
            }
        }
        let f = self.hosts[h].facts.entry(ino).or_default();
        let ren = match f.renamed.take() {
            Some(mut r) => {
                r.dirty_at_rename |= f.dirty;
                r.names.push(to.to_string());
                r.pre.push(pre_to);
                r
            }
            None => Ren {
                dirty_at_rename: f.dirty,
                names: vec![from.to_string(), to.to_string()],
                pre: vec![pre_from, pre_to],
            },
        };
        if ren.names.len() > 2 {
            self.out.label("rename-chain");
        }
        // F-C10-2 (second form, immediate variant): data ops stay attached to
        // the name they were made under and travel along every not-yet-durable
        // rename made *from* that name, whichever file it moved.  A file that
        // is renamed back to the first name of its own not-yet-durable chain
        // closes such a path: whatever was (or will be) written under a name
        // from which a rename leads into the chain now reaches it
        let back_at_start = ren.names.len() > 2 && ren.names.first() == ren.names.last();
        self.hosts[h].facts.get_mut(&ino).unwrap().renamed = Some(ren);
        if back_at_start {
            self.out.label("rename-chain-returns-to-its-start");
            if self.on(K_RECREATE) {
                self.taint_data(h, ino, "F-C10-2");
                self.out.count("F-C10-2 taint: rename chain returns to its start", 1);
            }
        }
    }

    /// `through`: the name the op was made under (path of the call / of the handle).
    fn on_len_changed(&mut self, h: usize, ino: Ino, last: &Last, is_set_len: bool, through: &str) {
        // F-C10-2: a data op made under a name is also seen by a file that
        // was renamed away from that name as long as the rename is not durable
        let others: Vec<Ino> = self.hosts[h]
            .facts
            .iter()
            .filter(|(i, f)| **i != ino && f.renamed.as_ref().map(|r| r.names.iter().any(|n| n == through)).unwrap_or(false))
            .map(|(i, _)| *i)
            .collect();
        if !others.is_empty() {
            self.out.label("data-op-under-name-a-file-was-renamed-away-from");
            if self.on(K_RECREATE) {
                for o in others {
                    self.taint_data(h, o, "F-C10-2");
                    self.out.count("F-C10-2 taint: file renamed away from a name under which data ops are made", 1);
                }
            }
        }
        let f = self.hosts[h].facts.entry(ino).or_default().clone();
        // F-C10-1: writes / set_len through the new name of a renamed file
        if f.renamed.is_some() {
            self.out.label("write-after-rename");
            if self.on(K_RENAME_DATA) {
                self.taint_data(h, ino, "F-C10-1");
            }
        }
        // F-C10-3: bytes written before a shrink reappear when the file is
        // extended leaving a hole
        let grows_with_hole = if is_set_len {
            last.new_len > last.old_len
        } else {
            last.off > last.old_len
        };
        if f.shrunk && grows_with_hole {
            self.out.label("hole-after-shrink");
            if self.on(K_SETLEN_ORDER) {
                self.taint_data(h, ino, "F-C10-3");
            }
        }
        let bg = self.background_sync;
        let f = self.hosts[h].facts.entry(ino).or_default();
        f.dirty = true;
        if bg {
            f.ever_synced = true;
        }
        if last.new_len < last.old_len {
            f.shrunk = true;
        }
    }

    /// `through`: the name of the handle the sync was made through.
    fn on_file_synced(&mut self, h: usize, ino: Ino, through: &str) {
        // the synced image is stored under the name; a file that was renamed
        // away from that name (rename not yet durable) takes the image along
        // when its rename becomes durable: it counts as file-synced from now on
        for (i, f) in self.hosts[h].facts.iter_mut() {
            if *i != ino && f.renamed.as_ref().map(|r| r.names.iter().any(|n| n == through)).unwrap_or(false) {
                f.ever_synced = true;
            }
        }
        let f = self.hosts[h].facts.entry(ino).or_default();
        f.ever_synced = true;
        if f.renamed.is_none() {
            f.dirty = false;
            f.shrunk = false;
        }
    }

    fn on_dir_synced(&mut self, h: usize, p: &str) {
        // F-C10-11: sync_dir(d) of a directory that was removed and created
        // again (removal not yet durable) makes d vanish
        if self.hosts[h].dir_recreated.contains(p) {
            self.out.label("sync_dir-of-recreated-directory");
            if self.on(K_DIR_RECREATE_SYNC) {
                self.taint_region(h, p, "F-C10-11");
                // names linked to p by a not-yet-durable rename of the former
                // holder flip their kind as well
                let linked: Vec<String> = self.hosts[h]
                    .facts
                    .values()
                    .filter_map(|f| f.renamed.as_ref())
                    .filter(|r| r.names.iter().any(|n| n == p))
                    .flat_map(|r| r.names.clone())
                    .collect();
                for n in linked {
                    self.taint_region(h, &n, "F-C10-11");
                }
            }
        }
        // F-C10-2 (third form): a file created under a name whose former
        // holder's departure was not yet durable, then file-synced: the
        // sync_dir that makes the old departure durable throws the new file's
        // synced data away with it
        let born: Vec<Ino> = self.hosts[h]
            .facts
            .iter()
            .filter(|(_, f)| f.born_over.contains(p))
            .map(|(i, _)| *i)
            .collect();
        for ino in born {
            let f = self.hosts[h].facts.get_mut(&ino).unwrap();
            f.born_over.remove(p);
            if f.ever_synced {
                f.born_over.clear();
                self.out.label("sync_dir-after-file-sync-of-file-recreated-under-pending-removal");
                if self.on(K_RECREATE) {
                    self.taint_data(h, ino, "F-C10-2");
                    self.out.count("F-C10-2 taint: file-synced re-created file, old removal made durable", 1);
                }
            }
        }
        // removals / re-creations directly in p are durable now
        let in_p = |q: &String| parent_of(q) == p;
        self.hosts[h].dir_removed.retain(|q| !in_p(q));
        self.hosts[h].dir_recreated.retain(|q| !in_p(q));
        // names under which a synced image comes to rest although its file is
        // not (or no longer) there
        let mut landed: Vec<String> = Vec::new();
        let inos: Vec<Ino> = self.hosts[h].facts.keys().copied().collect();
        for ino in inos {
            let Some(r) = self.hosts[h].facts[&ino].renamed.clone() else { continue };
            let parents = r.parents();
            if !parents.contains(p) {
                continue;
            }
            // how many renames of the chain this sync_dir makes durable
            let hops = r.names.len() - 1;
            let in_order = r.flushed_in_order(p);
            if parents.len() > 1 {
                self.out.label("partial-sync_dir-after-cross-dir-rename");
                self.out.label(match in_order {
                    Some(m) if m == hops => "partial-sync_dir:whole-chain-in-history-order (asserted)",
                    Some(_) => "partial-sync_dir:prefix-of-chain-in-history-order (asserted)",
                    None => "partial-sync_dir:out-of-order",
                });
            }
            if in_order.is_none() {
                // F-C10-10: sync_dir of one of several directories involved in
                // not-yet-durable rename(s) of a file makes a rename durable
                // while an earlier create / remove / rename on one of its names
                // -- in another directory -- is still not durable: the entry
                // ops become durable out of order and the file vanishes /
                // reappears under an old name
                if self.on(K_XDIR_SYNC) {
                    for n in &r.names {
                        self.taint_region(h, n, "F-C10-10");
                    }
                }
            }
            let m = in_order.unwrap_or(hops);
            // F-C10-2 (second form): a rename that brought the file to a name
            // becomes durable while a former holder of that name still has
            // unsynced data ops: from now on they are applied to this file
            let cur = r.names.last().cloned().unwrap_or_default();
            let pos = r.names[m].clone();
            if self.hosts[h].model.lookup(&cur) == Some(ino) && self.name(h, &pos).stale_pending {
                self.out.label("sync_dir-after-rename-onto-name-with-unsynced-data-of-former-holder");
                if self.on(K_RECREATE) {
                    self.taint_data(h, ino, "F-C10-2");
                    self.out.count("F-C10-2 taint: renamed onto stale name, rename made durable", 1);
                }
            }
            if r.dirty_at_rename {
                // F-C10-1: data written under the old name and not synced
                // before the rename is dropped when the rename is flushed
                self.out.label("sync_dir-after-rename-of-dirty-file");
                if self.on(K_RENAME_DATA) {
                    self.taint_data(h, ino, "F-C10-1");
                }
            }
            // what is left of the chain may now start at the name the file is
            // back at (see on_file_renamed)
            if m < hops && hops - m > 1 && r.names[m] == cur {
                self.out.label("rename-chain-returns-to-its-start");
                if self.on(K_RECREATE) {
                    self.taint_data(h, ino, "F-C10-2");
                    self.out.count("F-C10-2 taint: rename chain returns to its start", 1);
                }
            }
            if self.hosts[h].facts[&ino].ever_synced && self.hosts[h].model.lookup(&pos) != Some(ino) && parent_of(&pos) != p {
                landed.push(pos.clone());
            }
            let f = self.hosts[h].facts.get_mut(&ino).unwrap();
            f.renamed = if m < hops {
                // the later renames of the chain are still not durable
                let mut pre = r.pre[m..].to_vec();
                pre[0] = false;
                Some(Ren {
                    dirty_at_rename: r.dirty_at_rename,
                    names: r.names[m..].to_vec(),
                    pre,
                })
            } else {
                None
            };
            // names of the chain outside p conservatively stay "entry
            // pending" until their own parent is synced
        }
        // entry ops and stale synced content directly in p are settled now
        for (q, nf) in self.hosts[h].names.iter_mut() {
            if parent_of(q) == p {
                nf.entry_pending = false;
                nf.stale_persisted = false;
                nf.removal_pending = false;
            }
        }
        for n in landed {
            self.name(h, &n).stale_persisted = true;
        }
    }
}

fn trace_on() -> bool {
    static ON: std::sync::OnceLock<bool> = std::sync::OnceLock::new();
    *ON.get_or_init(|| std::env::var("C10_TRACE").is_ok())
}

fn clone_err(e: &io::Error) -> io::Error {
    io::Error::new(e.kind(), e.to_string())
}

/// Model side of a successful-by-POSIX `write_at` (pwrite / io_uring Write
/// with an explicit offset) through a handle opened for appending.  A handle
/// opened with `append(true)` is open for writing (std: "append" implies write
/// access), so through every front end the call must succeed and return the
/// byte count.  Where the bytes land is platform-dependent: POSIX pwrite()
/// writes at the given offset, Linux appends whatever the offset is.  Both are
/// admissible; the model follows the one the real side shows (content of the
/// file read back through the std shim), anything else is a violation.  The
/// cursor of the handle does not move in either.  When the content of the inode
/// is not compared any more (taint) or the call failed on the real side the
/// POSIX variant is applied (Ok/Err and the count are still compared by the
/// caller).  Third value: which variant was seen, or the description of a
/// content that is neither.
fn pwrite_on_append(
    hs: &mut HostState,
    cur: usize,
    off: u64,
    data: &[u8],
    real_ok: bool,
) -> (Result<Res, MErr>, Last, Option<Result<&'static str, String>>) {
    let (ino, path) = {
        let mh = hs.mh[cur].as_ref().expect("model handle");
        (mh.ino, mh.path.clone())
    };
    let old = hs.model.file(ino).clone();
    let old_len = old.len() as u64;
    let at = |o: u64| -> Vec<u8> {
        let mut t = hs.model.clone();
        t.pwrite(ino, o, data);
        t.file(ino).clone()
    };
    let (posix, linux) = (at(off), at(old_len));
    let compared = real_ok && !hs.data_taint.contains_key(&ino) && hs.region_tainted(&path).is_none();
    let mut chosen = off;
    let mut seen = None;
    if posix == linux {
        seen = Some(Ok("offset-is-end-or-empty"));
    } else if compared {
        let idx = PATHS.iter().position(|q| *q == path);
        let real = idx.map(|i| hs.real.scan().swap_remove(i).1);
        seen = Some(match real {
            Some(Seen::File { content: Some(c), .. }) if c == posix => Ok("lands-at-offset"),
            Some(Seen::File { content: Some(c), .. }) if c == linux => {
                chosen = old_len;
                Ok("lands-at-end")
            }
            other => Err(format!(
                "path {path}: before {} payload {} offset {off}: at-offset gives {} at-end gives {} but the file reads {other:?}",
                hex(&old),
                hex(data),
                hex(&posix),
                hex(&linux)
            )),
        });
    }
    let n = hs.model.pwrite(ino, chosen, data);
    let last = Last {
        ino: Some(ino),
        old_len,
        new_len: hs.model.file(ino).len() as u64,
        off: chosen,
        ..Default::default()
    };
    (Ok(Res::Count(n)), last, seen)
}

fn seen_kind(s: &Seen) -> &'static str {
    match s {
        Seen::Absent => "absent",
        Seen::File { .. } => "file",
        Seen::Dir { .. } => "dir",
        Seen::Odd(_) => "inconsistent",
    }
}

fn show(r: &Res) -> String {
    match r {
        Res::Data(d) => format!("data[{}]={}", d.len(), hex(d)),
        other => format!("{other:?}"),
    }
}

pub fn run(sc: &Scenario) -> Outcome {
    run_on(sc, vec![HostState::new(1), HostState::new(2)])
}

/// Model self-test (development aid, never part of a verdict about turmoil):
/// the same interpreter and oracle with the *operating system's* filesystem in
/// place of turmoil-fs, every avoid/taint rule off.  Any failure here is a bug
/// in the reference model (or a platform dependency that must not be asserted).
pub fn run_os(sc: &Scenario) -> Outcome {
    let tid = format!("{:?}", std::thread::current().id());
    let tid: String = tid.chars().filter(|c| c.is_ascii_digit()).collect();
    let base = std::path::PathBuf::from(format!("/tmp/tvh-c10-os-{}/{tid}", std::process::id()));
    let sc = Scenario {
        strict: K_ALL,
        ..sc.clone()
    };
    let hosts = vec![
        HostState::with_host(Host::new_os(base.join("h0"))),
        HostState::with_host(Host::new_os(base.join("h1"))),
    ];
    let o = run_on(&sc, hosts);
    let _ = std::fs::remove_dir_all(&base);
    o
}

impl<'a> Run<'a> {
    pub(crate) fn new(sc: &'a Scenario, hosts: Vec<HostState>) -> Run<'a> {
        Run {
            sc,
            out: Outcome::ok(),
            hosts,
            ops_done: 0,
            nt_sync: false,
            nt_reuse: false,
            last: Last::default(),
            keep_log: false,
            log: Vec::new(),
            background_sync: false,
            cur_data: Vec::new(),
            rec: None,
            cur_slot: None,
            pre_existing: vec![],
            pre_dirs: vec![],
            pre_missing: vec![],
            pre_ino: None,
            pre_inos: BTreeMap::new(),
        }
    }
}

fn run_on(sc: &Scenario, hosts: Vec<HostState>) -> Outcome {
    let mut r = Run::new(sc, hosts);
    let every = sc.scan_every.max(1) as u32;
    let mut fes: BTreeSet<Fe> = BTreeSet::new();
    let mut hosts_used: BTreeSet<usize> = BTreeSet::new();
    for (idx, step) in sc.ops.iter().enumerate() {
        let h = (step.host as usize) % r.hosts.len();
        let executed = r.step(idx, step);
        if r.out.failure.is_some() {
            break;
        }
        if executed {
            r.ops_done += 1;
            hosts_used.insert(h);
            if let Some(fe) = step.op.fe() {
                fes.insert(fe);
            }
            r.out.count(format!("op {}", step.op.name()), 1);
            if r.ops_done % every == 0 {
                let ctx = format!("after op #{idx} {:?}", step.op);
                r.scan_all(h, step.op.name(), &ctx);
                if r.out.failure.is_some() {
                    break;
                }
            }
        }
    }
    if r.out.failure.is_none() {
        r.scan_all(0, "end", "final scan");
    }
    // close everything while entered
    for hs in r.hosts.iter_mut() {
        hs.real.shutdown();
    }
    if r.nt_sync {
        r.out.label("nt:sync-between-two-mutations-of-one-object");
    }
    if r.nt_reuse {
        r.out.label("nt:name-reused-after-rename-or-remove");
    }
    r.out.nontrivial = r.nt_sync || r.nt_reuse;
    if fes.len() == 3 {
        r.out.label("all-three-front-ends");
    }
    for fe in &fes {
        r.out.label(format!("fe:{}", fe.name()));
    }
    if hosts_used.len() == 2 {
        r.out.label("both-hosts");
    }
    let any_taint = r.hosts.iter().any(|h| !h.data_taint.is_empty() || !h.region_taint.is_empty());
    r.out.label(if any_taint { "ends-with-taint" } else { "ends-untainted" });
    r.out.count("ops executed", r.ops_done as u64);
    r.out
}

// ---------------------------------------------------------------------------
// generator

/// Histories start with a short prologue that builds the directory skeleton
/// on most cases (otherwise most ops die with NotFound).
pub fn strategy_with(strict: u32) -> BoxedStrategy<Scenario> {
    (
        any::<bool>(),
        any::<bool>(),
        proptest::collection::vec(step_strategy(), 1..40),
        prop_oneof![3 => Just(1u8), 1 => Just(3u8), 1 => Just(8u8)],
    )
        .prop_map(move |(pro0, pro1, mut ops, scan_every)| {
            let mut pre = Vec::new();
            for (host, on) in [(0u8, pro0), (1u8, pro1)] {
                if on || host == 0 {
                    pre.push(Step { host, op: Op::CreateDirAll { path: 3, fe: Fe::Std } });
                    pre.push(Step { host, op: Op::CreateDir { path: 2, fe: Fe::Tokio } });
                }
                if on {
                    pre.push(Step { host, op: Op::Open { slot: 0, path: 4, fe: Fe::Std, fl: RW_CREATE } });
                    pre.push(Step { host, op: Op::Open { slot: 1, path: 6, fe: Fe::Tokio, fl: RW_CREATE } });
                }
            }
            pre.append(&mut ops);
            Scenario { ops: pre, scan_every, strict, probe: None }
        })
        .boxed()
}

pub fn strategy() -> BoxedStrategy<Scenario> {
    strategy_with(0)
}

/// Clamp a byte-decoded scenario into the generator's domain (fuzz tier).
pub fn fuzz_sanitize(sc: &mut Scenario) -> bool {
    sc.strict = 0;
    sc.probe = None;
    sc.scan_every = [1u8, 3, 8][(sc.scan_every % 3) as usize];
    sc.ops.truncate(40);
    for st in sc.ops.iter_mut() {
        fshistory::sanitize_step(st);
    }
    // the generator's fixed prologue on host 0 (directories the op weights assume)
    let mut pre = vec![
        Step { host: 0, op: Op::CreateDirAll { path: 3, fe: Fe::Std } },
        Step { host: 0, op: Op::CreateDir { path: 2, fe: Fe::Tokio } },
    ];
    pre.append(&mut sc.ops);
    sc.ops = pre;
    sc.ops.len() > 2
}

// ---------------------------------------------------------------------------
// sub-check `fshandle`: host software that routes its I/O through
// `turmoil_fs::FsHandle` guards
//
// `FsHandle::current()` captures the Fs of the host that is entered,
// `FsHandle::enter()` makes it the filesystem context of the calling thread
// "while this guard is held" and "when the guard is dropped, the context is
// cleared" (rustdoc of FsHandle / FsHandleGuard).  The documented use is a
// worker OS thread; helper code on the simulation thread may use the same
// handle (the shims consult the guard's context first).  What C10 promises
// whatever the software does with such guards: operations on one host never
// affect another host's tree.  So a history is enriched with guard events and
// the unchanged per-host model + scans stay the oracle:
//
// * `Enter` / `Drop` on the harness thread (the "simulation thread"): up to
//   three guards alive at once, from a handle captured just now or earlier,
//   entered and dropped in any order (nested LIFO, overlapping and dropped in
//   start order, sequential), with ops of the same host before, between and
//   after them.  Software never keeps a guard over a point where another
//   host runs (a guard held across such a yield would, by its very contract,
//   route the other host's I/O to this host's Fs): before an item of another
//   host the guards still alive are dropped, in a generated order;
// * `Worker`: one path op executed on a freshly spawned OS thread that has
//   nothing but the handle (the rustdoc example), under one guard, two
//   nested guards, or a second guard after a first was dropped.
//
// While a guard of host h is alive only h acts, and every possible routing
// (guard context or the entered Fs) is h's Fs; once no guard is alive the
// handles must have no effect whatsoever.  Every op result is compared with
// the host's model as in `histories`, the acting host is scanned while guards
// are alive, both hosts are scanned whenever none is.

/// Guard slots of the `fshandle` sub-check.
pub const NGUARDS: usize = 3;

#[derive(Clone, Debug, Serialize, Deserialize)]
pub enum Item {
    Step(Step),
    /// the software of `host` enters a guard into guard slot `g`, from a
    /// handle captured now (`fresh`) or from the one it captured last
    Enter { host: u8, g: u8, fresh: bool },
    /// the `g`-th (modulo) of the guards that are alive, in slot order, is dropped
    Drop { g: u8 },
    /// a path op executed on a worker OS thread that only has an `FsHandle`;
    /// shape 0: one guard, 1: two nested guards, 2: a guard after another was dropped
    Worker { step: Step, shape: u8 },
}

#[derive(Clone, Debug, Serialize, Deserialize)]
pub struct HandleScenario {
    pub items: Vec<Item>,
    pub scan_every: u8,
    /// order in which the guards that are still alive are dropped when the
    /// software of their host stops running (an item of the other host, the
    /// end): 0 = LIFO, 1 = start order, 2 = slot order
    pub forced: u8,
}

const START: Duration = Duration::from_secs(1_000_000);

/// Ops a worker thread can execute with nothing but an `FsHandle`: path ops
/// through the std / tokio shim (no open handle, no ring, no clock).
fn is_path_op(op: &Op) -> bool {
    op.handle_slot().is_none() && !matches!(op, Op::Open { .. } | Op::Close { .. } | Op::Advance { .. })
}

/// Run `f` on a freshly spawned OS thread (fresh thread-locals) and wait for
/// it.  A panic over there is re-raised here with its message, so that the
/// engine's per-thread panic record sees it.
fn on_fresh_thread<R: Send>(f: impl FnOnce() -> R + Send) -> R {
    let joined = std::thread::scope(|s| {
        s.spawn(move || {
            crate::engine::take_last_panic();
            std::panic::catch_unwind(std::panic::AssertUnwindSafe(f))
                .map_err(|_| crate::engine::take_last_panic().unwrap_or_else(|| "<unknown panic>".into()))
        })
        .join()
    });
    match joined {
        Ok(Ok(r)) => r,
        Ok(Err(msg)) => panic!("{msg}"),
        Err(p) => std::panic::resume_unwind(p),
    }
}

/// [`RealHost`] that executes the next op on a worker OS thread under
/// `FsHandle` guards when asked to through `req`.
struct WorkerCapable {
    inner: RealHost,
    /// Some(shape): run the next (path) op on a worker thread
    req: Rc<Cell<Option<u8>>>,
}

impl WorkerCapable {
    fn on_worker(&mut self, op: &Op, data: &[u8], shape: u8) -> io::Result<Res> {
        // software on the host captures the handle ...
        let handle = {
            let _g = turmoil_fs::enter(&self.inner.host.fs, turmoil_fs::EnterCtx { now: self.inner.host.now, on_corruption: None });
            FsHandle::current()
        };
        // ... and hands it to a thread that has no other filesystem context
        let (op, data) = (op.clone(), data.to_vec());
        on_fresh_thread(move || {
            if shape == 2 {
                let _first = handle.enter();
            }
            let _outer = handle.enter();
            let _inner = if shape == 1 { Some(handle.enter()) } else { None };
            // nothing is entered here: the shims can only route through the guard
            let mut nowhere = Host::ambient();
            let mut no_handles: Vec<Option<crate::drivers::fsdirect::Handle>> = (0..NSLOTS).map(|_| None).collect();
            fshistory::exec_real(&mut nowhere, &mut no_handles, &op, 0, &data)
        })
    }
}

impl RealBackend for WorkerCapable {
    fn exec(&mut self, op: &Op, cur: usize, data: &[u8]) -> io::Result<Res> {
        match self.req.take() {
            Some(shape) if is_path_op(op) => self.on_worker(op, data, shape),
            _ => self.inner.exec(op, cur, data),
        }
    }
    fn scan(&mut self) -> Vec<(bool, Seen)> {
        self.inner.scan()
    }
    fn has_slot(&self, slot: usize) -> bool {
        RealBackend::has_slot(&self.inner, slot)
    }
    fn close_slot(&mut self, slot: usize) {
        RealBackend::close_slot(&mut self.inner, slot)
    }
    fn seek_slot(&mut self, slot: usize, pos: u64) {
        RealBackend::seek_slot(&mut self.inner, slot, pos)
    }
    fn crash(&mut self) {
        RealBackend::crash(&mut self.inner)
    }
    fn shutdown(&mut self) {
        RealBackend::shutdown(&mut self.inner)
    }
}

struct Alive {
    host: usize,
    /// entry order
    seq: u32,
    guard: FsHandleGuard,
}

/// The guards of the `fshandle` interpreter (harness thread).
struct Guards {
    alive: Vec<Option<Alive>>,
    /// the handle each host's software captured last
    cached: Vec<Option<FsHandle>>,
    seq: u32,
    forced: u8,
    /// hosts that dropped at least one guard
    dropped: BTreeSet<usize>,
}

impl Guards {
    fn any_alive(&self) -> bool {
        self.alive.iter().any(|a| a.is_some())
    }
    /// Drop one guard; labels the shape of the drop.
    fn drop_slot(&mut self, gi: usize, out: &mut Outcome) {
        let Some(a) = self.alive[gi].take() else { return };
        let others: Vec<u32> = self.alive.iter().flatten().map(|o| o.seq).collect();
        out.label(if others.is_empty() {
            "guard-drop:none-left"
        } else if others.iter().all(|s| *s < a.seq) {
            "guard-drop:innermost-first (LIFO)"
        } else {
            "guard-drop:older-guard-before-younger (non-LIFO)"
        });
        self.dropped.insert(a.host);
        drop(a.guard);
    }
    /// The software of every host other than `keep` stops running (all
    /// hosts if `keep` is None): its guards go, in the scenario's order.
    fn drop_others(&mut self, keep: Option<usize>, out: &mut Outcome) {
        let mut v: Vec<(usize, u32)> = self
            .alive
            .iter()
            .enumerate()
            .filter_map(|(i, a)| a.as_ref().filter(|a| Some(a.host) != keep).map(|a| (i, a.seq)))
            .collect();
        match self.forced % 3 {
            0 => v.sort_by_key(|(_, s)| std::cmp::Reverse(*s)),
            1 => v.sort_by_key(|(_, s)| *s),
            _ => {}
        }
        if v.len() > 1 {
            out.label(format!("guards-dropped-at-yield:{}", ["LIFO", "start-order", "slot-order"][(self.forced % 3) as usize]));
        }
        for (i, _) in v {
            self.drop_slot(i, out);
        }
    }
}

/// One case of the `fshandle` sub-check.  Runs on a thread of its own: the
/// guards work through a thread-local, and a case must neither inherit one
/// from nor leave one to the other cases of the engine's worker thread.
pub fn run_handles(sc: &HandleScenario) -> Outcome {
    on_fresh_thread(|| run_handles_here(sc))
}

fn run_handles_here(sc: &HandleScenario) -> Outcome {
    let base = Scenario {
        ops: Vec::new(),
        scan_every: sc.scan_every,
        strict: 0,
        probe: None,
    };
    let req: Rc<Cell<Option<u8>>> = Rc::new(Cell::new(None));
    let mut fss = Vec::new();
    let mut hosts = Vec::new();
    for seed in [1u64, 2] {
        let host = Host::new(seed, START);
        fss.push(host.fs.clone());
        hosts.push(HostState::with_backend(Box::new(WorkerCapable { inner: RealHost::new(host), req: req.clone() })));
    }
    let mut now = vec![START; 2];
    let mut r = Run::new(&base, hosts);
    let mut g = Guards {
        alive: (0..NGUARDS).map(|_| None).collect(),
        cached: vec![None, None],
        seq: 0,
        forced: sc.forced,
        dropped: BTreeSet::new(),
    };
    let every = sc.scan_every.max(1) as u32;
    let mut cross = false;
    let mut worker_ops = 0u32;
    for (idx, item) in sc.items.iter().enumerate() {
        match item {
            Item::Enter { host, g: slot, fresh } => {
                let (h, gi) = (*host as usize % 2, *slot as usize % NGUARDS);
                if g.alive[gi].is_some() {
                    r.out.count("skipped: guard slot occupied", 1);
                    continue;
                }
                g.drop_others(Some(h), &mut r.out);
                if *fresh || g.cached[h].is_none() {
                    // FsHandle::current() needs the host to be entered (its software runs)
                    let _e = turmoil_fs::enter(&fss[h], turmoil_fs::EnterCtx { now: now[h], on_corruption: None });
                    g.cached[h] = Some(FsHandle::current());
                } else {
                    r.out.label("guard-from-handle-captured-earlier");
                }
                let older = g.alive.iter().flatten().count();
                r.out.label(match older {
                    0 if g.dropped.contains(&h) => "guard-enter:after-earlier-guards-were-dropped (sequential)",
                    0 => "guard-enter:first",
                    1 => "guard-enter:while-one-guard-alive",
                    _ => "guard-enter:while-two-guards-alive",
                });
                g.seq += 1;
                let guard = g.cached[h].as_ref().unwrap().enter();
                g.alive[gi] = Some(Alive { host: h, seq: g.seq, guard });
                r.out.count("guard enter", 1);
            }
            Item::Drop { g: slot } => {
                // addresses the k-th guard that is alive (in slot order)
                let live: Vec<usize> = (0..NGUARDS).filter(|i| g.alive[*i].is_some()).collect();
                if live.is_empty() {
                    r.out.count("skipped: no guard alive", 1);
                    continue;
                }
                let gi = live[*slot as usize % live.len()];
                g.drop_slot(gi, &mut r.out);
                r.out.count("guard drop", 1);
            }
            Item::Step(step) | Item::Worker { step, .. } => {
                let h = (step.host as usize) % 2;
                g.drop_others(Some(h), &mut r.out);
                let under = g.alive.iter().flatten().count();
                if let Item::Worker { shape, .. } = item {
                    if is_path_op(&step.op) {
                        req.set(Some(*shape % 3));
                    }
                }
                let executed = r.step(idx, step);
                let on_worker = matches!(item, Item::Worker { .. }) && is_path_op(&step.op) && req.take().is_none();
                req.set(None);
                if r.out.failure.is_some() {
                    break;
                }
                if !executed {
                    continue;
                }
                r.ops_done += 1;
                if let Op::Advance { ms } = &step.op {
                    now[h] += Duration::from_millis(*ms as u64);
                }
                r.out.count(format!("op {}", step.op.name()), 1);
                if on_worker {
                    worker_ops += 1;
                    r.out.count("op on a worker thread under FsHandle guards", 1);
                    r.out.label(format!(
                        "worker-thread-op:{}",
                        match item {
                            Item::Worker { shape, .. } => ["one-guard", "two-nested-guards", "guard-after-dropped-guard"][(*shape % 3) as usize],
                            _ => "",
                        }
                    ));
                }
                if under > 0 {
                    r.out.label(format!("op-under-{under}-guard(s)"));
                } else if !g.dropped.is_empty() {
                    r.out.label("op-of-same-or-other-host-after-all-guards-dropped");
                }
                if g.dropped.iter().any(|d| *d != h) {
                    cross = true;
                }
                if r.ops_done % every == 0 {
                    let ctx = format!("after item #{idx} {:?}", step.op);
                    if g.any_alive() {
                        // the other host does not run while guards are held
                        r.scan_host(h, step.op.name(), &ctx);
                    } else {
                        r.scan_all(h, step.op.name(), &ctx);
                    }
                    if r.out.failure.is_some() {
                        break;
                    }
                }
            }
        }
    }
    // the software stops: whatever is alive goes, then nothing of it may be left
    g.drop_others(None, &mut r.out);
    if r.out.failure.is_none() {
        r.scan_all(0, "end", "final scan");
    }
    if r.out.failure.is_none() && !g.dropped.is_empty() {
        // "When dropped, clears the thread-local context": with no guard alive
        // a filesystem that is entered now is the one the shims see -- a
        // brand-new, empty one here
        let fresh = std::sync::Arc::new(std::sync::Mutex::new(turmoil_fs::Fs::new(turmoil_fs::FsConfig::default(), 3)));
        let _e = turmoil_fs::enter(&fresh, turmoil_fs::EnterCtx { now: START, on_corruption: None });
        let seen: Vec<&str> = PATHS.iter().skip(1).filter(|p| turmoil_fs::shim::std::fs::exists(p)).copied().collect();
        if !seen.is_empty() {
            r.out.fail(
                "fshandle:context-left-after-all-guards-dropped",
                format!("every FsHandle guard is dropped, a new empty Fs is entered, yet exists() is true for {seen:?}: the shims still route to the Fs of a dropped guard"),
            );
        }
    }
    for hs in r.hosts.iter_mut() {
        hs.real.shutdown();
    }
    drop(g);
    if cross {
        r.out.label("nt:op-of-a-host-after-guards-of-the-other-host");
    }
    if worker_ops > 0 {
        r.out.label("nt:op-on-worker-thread");
    }
    r.out.nontrivial = cross || worker_ops > 0;
    r.out.count("ops executed", r.ops_done as u64);
    r.out
}

fn worker_step_strategy() -> impl Strategy<Value = Step> {
    use fshistory::{any_path, dir_path, existing_file, fe_strategy, file_path, new_dir_path, rename_target};
    let op = prop_oneof![
        4 => (file_path(), 0u8..9, fe_strategy()).prop_map(|(path, len, fe)| Op::WriteFile { path, len, fe }),
        3 => (existing_file(), fe_strategy()).prop_map(|(path, fe)| Op::ReadFile { path, fe }),
        2 => (existing_file(), rename_target(), fe_strategy()).prop_map(|(from, to, fe)| Op::Rename { from, to, fe }),
        2 => (existing_file(), fe_strategy()).prop_map(|(path, fe)| Op::RemoveFile { path, fe }),
        2 => (new_dir_path(), fe_strategy()).prop_map(|(path, fe)| Op::CreateDir { path, fe }),
        1 => (new_dir_path(), fe_strategy()).prop_map(|(path, fe)| Op::CreateDirAll { path, fe }),
        1 => (dir_path(), fe_strategy()).prop_map(|(path, fe)| Op::RemoveDir { path, fe }),
        2 => (dir_path(), fe_strategy()).prop_map(|(path, fe)| Op::ReadDir { path, fe }),
        1 => (dir_path(), fe_strategy()).prop_map(|(path, fe)| Op::SyncDir { path, fe }),
        1 => (any_path(), fe_strategy()).prop_map(|(path, fe)| Op::Metadata { path, fe }),
        1 => (any_path(), fe_strategy()).prop_map(|(path, fe)| Op::Exists { path, fe }),
    ];
    (prop_oneof![3 => Just(0u8), 2 => Just(1u8)], op).prop_map(|(host, op)| Step { host, op })
}

pub fn handle_strategy() -> BoxedStrategy<HandleScenario> {
    let host = prop_oneof![3 => Just(0u8), 2 => Just(1u8)];
    let item = prop_oneof![
        12 => step_strategy().prop_map(Item::Step),
        // the other host gets its share of ops (step_strategy: 20 %)
        3 => step_strategy().prop_map(|mut s| {
            s.host = 1;
            Item::Step(s)
        }),
        5 => (host, 0u8..NGUARDS as u8, any::<bool>()).prop_map(|(host, g, fresh)| Item::Enter { host, g, fresh }),
        4 => (0u8..NGUARDS as u8).prop_map(|g| Item::Drop { g }),
        2 => (worker_step_strategy(), 0u8..3).prop_map(|(step, shape)| Item::Worker { step, shape }),
    ];
    (
        any::<bool>(),
        proptest::collection::vec(item, 4..36),
        prop_oneof![3 => Just(1u8), 1 => Just(3u8)],
        0u8..3,
    )
        .prop_map(|(pro1, mut items, scan_every, forced)| {
            let mut pre = Vec::new();
            for (host, on) in [(0u8, true), (1u8, pro1)] {
                if on {
                    pre.push(Step { host, op: Op::CreateDirAll { path: 3, fe: Fe::Std } });
                    pre.push(Step { host, op: Op::CreateDir { path: 2, fe: Fe::Tokio } });
                    pre.push(Step { host, op: Op::Open { slot: 0, path: 4, fe: Fe::Std, fl: RW_CREATE } });
                }
            }
            let mut all: Vec<Item> = pre.into_iter().map(Item::Step).collect();
            all.append(&mut items);
            HandleScenario { items: all, scan_every, forced }
        })
        .boxed()
}

// ---------------------------------------------------------------------------
// probes: fixed histories, everything strict, dedicated signatures

fn h0(op: Op) -> Step {
    Step { host: 0, op }
}
const RW_CREATE: OpenFlags = OpenFlags { read: true, write: true, append: false, truncate: false, create: true, create_new: false };
const RW: OpenFlags = OpenFlags { read: true, write: true, append: false, truncate: false, create: false, create_new: false };

const RO: OpenFlags = OpenFlags { read: true, write: false, append: false, truncate: false, create: false, create_new: false };
const WO: OpenFlags = OpenFlags { read: false, write: true, append: false, truncate: false, create: false, create_new: false };
const APPEND_CREATE: OpenFlags = OpenFlags { read: true, write: false, append: true, truncate: false, create: true, create_new: false };

// path indices: 0 "/", 1 /d0, 2 /d1, 3 /d0/s, 4 /f0, 5 /f1, 6 /d0/a, 7 /d0/b, 8 /d1/a, 9 /d1/b, 10 /d0/s/a, 11 /d0/s/b, 12 /d2

/// Fixed histories, one per known root cause / (op, situation). They run
/// with every avoid/taint rule off and must fail with their dedicated
/// signature `probe:<name>:<generic signature>`.
pub fn probes() -> Vec<Scenario> {
    let s = Fe::Std;
    let mk = |name: &str, ops: Vec<Op>| Scenario {
        ops: ops.into_iter().map(h0).collect(),
        scan_every: 1,
        strict: K_ALL,
        probe: Some(name.to_string()),
    };
    let open = |slot: u8, path: u8, fl: OpenFlags| Op::Open { slot, path, fe: s, fl };
    let mut v = vec![
        // ---- F-C10-1: data ops are keyed by path and do not follow renames
        mk(
            "F-C10-1-write-after-rename",
            vec![
                Op::WriteFile { path: 4, len: 5, fe: s },
                Op::Rename { from: 4, to: 5, fe: s },
                open(0, 5, RW),
                Op::WriteAt { slot: 0, off: 0, len: 1, fe: s },
            ],
        ),
        mk(
            "F-C10-1-sync_dir-after-rename-drops-unsynced-writes",
            vec![
                Op::WriteFile { path: 4, len: 3, fe: s },
                Op::Rename { from: 4, to: 5, fe: s },
                Op::SyncDir { path: 0, fe: s },
            ],
        ),
        // ---- F-C10-2: data keyed by name survives re-use of the name
        mk(
            "F-C10-2-recreate-after-remove-of-synced-file",
            vec![
                open(0, 4, RW_CREATE),
                Op::WriteAt { slot: 0, off: 0, len: 8, fe: s },
                Op::SyncAll { slot: 0, fe: s },
                Op::SyncDir { path: 0, fe: s },
                Op::Close { slot: 0 },
                Op::RemoveFile { path: 4, fe: s },
                open(0, 4, RW_CREATE),
            ],
        ),
        mk(
            "F-C10-2-recreate-after-remove-of-unsynced-file",
            vec![
                Op::WriteFile { path: 4, len: 3, fe: s },
                Op::RemoveFile { path: 4, fe: s },
                open(0, 4, RW_CREATE),
            ],
        ),
        mk(
            "F-C10-2-rename-onto-file-with-unsynced-data-then-sync_dir",
            vec![
                Op::CreateDir { path: 1, fe: s },
                open(0, 4, RW_CREATE),
                Op::SetLen { slot: 0, len: 1, fe: s },
                open(1, 6, RW_CREATE),
                Op::Rename { from: 6, to: 4, fe: s },
                Op::SyncDir { path: 1, fe: s },
            ],
        ),
        mk(
            "F-C10-2-recreate-then-sync_all-then-sync_dir-loses-data",
            vec![
                open(0, 4, RW_CREATE),
                Op::RemoveFile { path: 4, fe: s },
                open(0, 4, RW_CREATE),
                Op::WriteAt { slot: 0, off: 0, len: 1, fe: s },
                Op::SyncAll { slot: 0, fe: s },
                Op::SyncDir { path: 0, fe: s },
            ],
        ),
        mk(
            "F-C10-2-rename-onto-renamed-away-name-mixes-files",
            vec![
                open(0, 4, RW_CREATE),
                Op::WriteFile { path: 5, len: 1, fe: s },
                Op::Rename { from: 4, to: 12, fe: s },
                Op::Rename { from: 5, to: 4, fe: s },
            ],
        ),
        // ---- F-C10-3
        mk(
            "F-C10-3-shrink-then-grow",
            vec![
                open(0, 4, RW_CREATE),
                Op::WriteAt { slot: 0, off: 0, len: 6, fe: s },
                Op::SetLen { slot: 0, len: 2, fe: s },
                Op::SetLen { slot: 0, len: 5, fe: s },
            ],
        ),
        // ---- F-C10-4: directory renames
        mk(
            "F-C10-4-dir-rename-leaves-children-behind",
            vec![
                Op::CreateDir { path: 1, fe: s },
                Op::WriteFile { path: 6, len: 3, fe: s },
                Op::SyncDir { path: 0, fe: s },
                Op::Rename { from: 1, to: 12, fe: s },
            ],
        ),
        mk(
            "F-C10-4-rename-of-new-directory",
            vec![Op::CreateDir { path: 1, fe: s }, Op::Rename { from: 1, to: 12, fe: s }],
        ),
        mk(
            "F-C10-14-rename-directory-into-itself",
            vec![
                Op::CreateDirAll { path: 3, fe: s },
                Op::SyncDir { path: 0, fe: s },
                Op::Rename { from: 1, to: 10, fe: s },
            ],
        ),
        // ---- F-C10-6: OpenOptions combinations std rejects
        mk("F-C10-6-open-without-access-mode", vec![open(0, 4, OpenFlags::default())]),
        mk(
            "F-C10-6-open-create-without-write",
            vec![open(0, 4, OpenFlags { read: true, create: true, ..Default::default() })],
        ),
        mk(
            "F-C10-6-open-truncate-without-write",
            vec![
                Op::WriteFile { path: 4, len: 2, fe: s },
                open(0, 4, OpenFlags { read: true, truncate: true, ..Default::default() }),
            ],
        ),
        mk(
            "F-C10-6-open-append-truncate",
            vec![
                Op::WriteFile { path: 4, len: 2, fe: s },
                open(0, 4, OpenFlags { append: true, truncate: true, ..Default::default() }),
            ],
        ),
        // ---- F-C10-7: kind of an existing entry ignored
        mk(
            "F-C10-7-open-create-on-directory",
            vec![Op::CreateDir { path: 1, fe: s }, open(0, 1, RW_CREATE)],
        ),
        mk(
            "F-C10-7-fs-write-on-directory",
            vec![Op::CreateDir { path: 1, fe: s }, Op::WriteFile { path: 1, len: 2, fe: s }],
        ),
        mk(
            "F-C10-7-create_dir_all-on-file",
            vec![Op::WriteFile { path: 4, len: 2, fe: s }, Op::CreateDirAll { path: 4, fe: s }],
        ),
        // ---- F-C10-8
        mk(
            "F-C10-8-rename-onto-itself",
            vec![Op::WriteFile { path: 4, len: 2, fe: s }, Op::Rename { from: 4, to: 4, fe: s }],
        ),
        // ---- F-C10-9: io_uring ignores the access mode of the handle
        mk(
            "F-C10-9-uring-write-through-readonly-handle",
            vec![
                Op::WriteFile { path: 4, len: 2, fe: s },
                open(0, 4, RO),
                Op::WriteAt { slot: 0, off: 0, len: 1, fe: Fe::Uring },
            ],
        ),
        mk(
            "F-C10-9-uring-read-through-writeonly-handle",
            vec![
                Op::WriteFile { path: 4, len: 2, fe: s },
                open(0, 4, WO),
                Op::ReadAt { slot: 0, off: 0, len: 2, fe: Fe::Uring },
            ],
        ),
        // ---- F-C10-10: sync_dir makes renames durable out of order
        mk(
            "F-C10-10-sync_dir-of-destination-of-new-file",
            vec![
                Op::CreateDir { path: 2, fe: s },
                open(0, 9, RW_CREATE),
                Op::Rename { from: 9, to: 4, fe: s },
                Op::SyncDir { path: 0, fe: s },
            ],
        ),
        mk(
            "F-C10-10-sync_dir-of-last-directory-of-rename-chain",
            vec![
                Op::CreateDirAll { path: 3, fe: s },
                Op::CreateDir { path: 2, fe: s },
                open(0, 6, RW_CREATE),
                Op::SyncDir { path: 1, fe: s },
                Op::Rename { from: 6, to: 8, fe: s },
                Op::Rename { from: 8, to: 10, fe: s },
                Op::SyncDir { path: 3, fe: s },
            ],
        ),
        // ---- F-C10-11: directory names re-used while a removal is not durable
        mk(
            "F-C10-11-sync_dir-of-recreated-directory",
            vec![
                Op::CreateDir { path: 1, fe: s },
                Op::RemoveDir { path: 1, fe: s },
                Op::CreateDir { path: 1, fe: s },
                Op::SyncDir { path: 1, fe: s },
            ],
        ),
        mk(
            "F-C10-11-sync_dir-of-directory-created-over-renamed-away-file",
            vec![
                Op::CreateDir { path: 2, fe: s },
                open(0, 9, RW_CREATE),
                Op::Rename { from: 9, to: 4, fe: s },
                Op::CreateDir { path: 9, fe: s },
                Op::SyncDir { path: 9, fe: s },
            ],
        ),
        mk(
            "F-C10-11-file-over-removed-durable-directory-then-renamed",
            vec![
                Op::CreateDir { path: 1, fe: s },
                Op::SyncDir { path: 0, fe: s },
                Op::RemoveDir { path: 1, fe: s },
                open(0, 1, RW_CREATE),
                Op::Rename { from: 1, to: 4, fe: s },
                Op::ReadDir { path: 4, fe: s },
            ],
        ),
        // ---- F-C10-12
        mk(
            "F-C10-12-remove_dir-with-renamed-in-child",
            vec![
                Op::CreateDir { path: 1, fe: s },
                open(0, 4, RW_CREATE),
                Op::Rename { from: 4, to: 6, fe: s },
                Op::RemoveDir { path: 1, fe: s },
            ],
        ),
        // ---- F-C10-13
        mk(
            "F-C10-13-zero-length-append-write-moves-cursor",
            vec![
                open(0, 4, APPEND_CREATE),
                Op::SetLen { slot: 0, len: 1, fe: s },
                Op::Write { slot: 0, len: 0, fe: s },
                Op::Read { slot: 0, len: 1, fe: s },
            ],
        ),
    ];
    // ---- F-C10-5: one probe per (op, situation) of the error-kind table
    for (opn, situation, _got) in KNOWN_KINDS {
        // setups: /f0 is a file (paths below it have a file component), /d0 is
        // a non-empty directory, /d1 and /d2 are missing
        let mut ops = vec![
            Op::WriteFile { path: 4, len: 1, fe: s },
            Op::CreateDir { path: 1, fe: s },
            Op::WriteFile { path: 6, len: 1, fe: s },
        ];
        // a path with a file component: we need a file at /d1 -> create it as a file
        let file_comp = |ops: &mut Vec<Op>| {
            ops.push(Op::WriteFile { path: 2, len: 1, fe: s }); // /d1 is a file
            8u8 // /d1/a
        };
        let target: Option<Op> = match (*opn, *situation) {
            ("create_dir", "exists") => Some(Op::CreateDir { path: 1, fe: s }),
            ("create_dir", "parent-missing") => Some(Op::CreateDir { path: 8, fe: s }),
            ("create_dir", "path-component-is-a-file") => {
                let p = file_comp(&mut ops);
                Some(Op::CreateDir { path: p, fe: s })
            }
            ("create_dir_all", "path-component-is-a-file") => {
                let p = file_comp(&mut ops);
                Some(Op::CreateDirAll { path: p, fe: s })
            }
            ("remove_dir", "missing") => Some(Op::RemoveDir { path: 12, fe: s }),
            ("remove_dir", "parent-missing") => Some(Op::RemoveDir { path: 8, fe: s }),
            ("remove_dir", "path-component-is-a-file") => {
                let p = file_comp(&mut ops);
                Some(Op::RemoveDir { path: p, fe: s })
            }
            ("remove_dir", "not-a-directory") => Some(Op::RemoveDir { path: 4, fe: s }),
            ("remove_dir", "directory-not-empty") => Some(Op::RemoveDir { path: 1, fe: s }),
            ("rename", "source-missing") => Some(Op::Rename { from: 5, to: 12, fe: s }),
            ("rename", "parent-missing") => Some(Op::Rename { from: 8, to: 5, fe: s }),
            ("rename", "destination-parent-missing") => Some(Op::Rename { from: 4, to: 8, fe: s }),
            ("rename", "path-component-is-a-file") => {
                let p = file_comp(&mut ops);
                Some(Op::Rename { from: 4, to: p, fe: s })
            }
            ("rename", "file-onto-directory") => Some(Op::Rename { from: 4, to: 1, fe: s }),
            ("rename", "destination-is-ancestor-of-source") => Some(Op::Rename { from: 6, to: 1, fe: s }),
            ("rename", "directory-onto-file") => Some(Op::Rename { from: 1, to: 4, fe: s }),
            ("rename", "directory-onto-nonempty-directory") => {
                ops.push(Op::CreateDir { path: 12, fe: s });
                Some(Op::Rename { from: 12, to: 1, fe: s })
            }
            ("open", "path-component-is-a-file") => {
                let p = file_comp(&mut ops);
                Some(open(0, p, RW_CREATE))
            }
            ("open", "open-for-write-on-directory") => Some(open(0, 1, RW)),
            ("metadata", "path-component-is-a-file") => {
                let p = file_comp(&mut ops);
                Some(Op::Metadata { path: p, fe: s })
            }
            ("read", "path-component-is-a-file") => {
                let p = file_comp(&mut ops);
                Some(Op::ReadFile { path: p, fe: s })
            }
            ("fs_write", "path-component-is-a-file") => {
                let p = file_comp(&mut ops);
                Some(Op::WriteFile { path: p, len: 1, fe: s })
            }
            ("read_dir", "path-component-is-a-file") => {
                let p = file_comp(&mut ops);
                Some(Op::ReadDir { path: p, fe: s })
            }
            ("read_dir", "not-a-directory") => Some(Op::ReadDir { path: 4, fe: s }),
            ("remove_file", "path-component-is-a-file") => {
                let p = file_comp(&mut ops);
                Some(Op::RemoveFile { path: p, fe: s })
            }
            ("remove_dir_all", "path-component-is-a-file") => {
                let p = file_comp(&mut ops);
                Some(Op::RemoveDirAll { path: p, fe: s })
            }
            ("remove_dir_all", "not-a-directory") => Some(Op::RemoveDirAll { path: 4, fe: s }),
            _ => None,
        };
        if let Some(t) = target {
            ops.push(t);
            v.push(mk(&format!("F-C10-5-{opn}-{situation}"), ops));
        }
    }
    v
}

fn check(tier: Tier, seed: u64) -> i32 {
    let ctx = Ctx::new("C10", tier, seed, "exploration");
    ctx.replay_corpus(&replay);
    // development aid: C10_STRICT=<mask> switches known-finding rules off in the random tier
    let strict: u32 = std::env::var("C10_STRICT")
        .ok()
        .and_then(|s| {
            let s = s.trim();
            if let Some(h) = s.strip_prefix("0x") {
                u32::from_str_radix(h, 16).ok()
            } else {
                s.parse().ok()
            }
        })
        .unwrap_or(0);
    let ps = probes();
    let n = ps.len();
    if let Ok(dir) = std::env::var("C10_DUMP_PROBES") {
        // development aid: write one replay file per probe with its actual failure
        let _ = std::fs::create_dir_all(&dir);
        for sc in &ps {
            let o = run(sc);
            let name = sc.probe.clone().unwrap();
            let body = serde_json::json!({
                "property": "C10", "sub": "probe", "tier": "quick", "seed": 0,
                "failure": o.failure.as_ref().map(|f| serde_json::json!({"signature": f.signature, "detail": f.detail})),
                "scenario": sc,
            });
            std::fs::write(format!("{dir}/known-{name}.json"), serde_json::to_string_pretty(&body).unwrap()).unwrap();
            println!("{name}\t{}", o.failure.map(|f| format!("{} || {}", f.signature, f.detail)).unwrap_or_else(|| "PASSED".into()));
        }
        return 0;
    }
    ctx.exhaustive(
        "probe",
        &format!("{n} fixed probe histories, one per known root cause / (op, situation), all avoid/taint rules off"),
        Box::new(ps.into_iter()),
        &run,
    );
    if let Some(n) = std::env::var("C10_OS_SELFTEST").ok().and_then(|s| s.parse::<u32>().ok()) {
        // development aid: validate the reference model against the real OS
        ctx.random("model-vs-os", n, &|| strategy_with(K_ALL), &run_os);
        let code = ctx.finish("model self-test against the operating system's filesystem", &[]);
        let _ = std::fs::remove_dir_all(format!("/tmp/tvh-c10-os-{}", std::process::id()));
        return code;
    }
    if std::env::var("C10_SURVEY").is_ok() {
        // development aid: failures become labels (`survey-fail:<signature>`,
        // `survey-fail-with:<label of the failing case>`) so that one run gives
        // the failure rate per shape; exit code / SUMMARY are meaningless
        ctx.random("histories", tier.pick(48_000, 800_000), &move || strategy_with(strict), &run_survey);
        return ctx.finish("survey (development aid)", &[]);
    }
    ctx.random(
        "histories",
        tier.pick(48_000, 800_000),
        &move || strategy_with(strict),
        &run,
    );
    ctx.random("fshandle", tier.pick(16_000, 260_000), &|| handle_strategy(), &run_handles);
    ctx.finish(
        "random histories of <= 47 ops (13-path ancestor-closed universe /, /d0, /d1, /d2, /d0/s and 8 file names, any path may become a file or a directory; two hosts = two independent Fs instances with identical path names) mixing the std shim, the tokio shim and io_uring (one SQE per op) on the same tree, with sync_all/sync_data/sync_dir and clock advances at arbitrary positions; lock-step POSIX inode-tree model (validated against the Linux filesystem with the same interpreter); result of every op compared, full scan of both hosts every 1/3/8 ops and at the end, real-vs-real scan around every sync op and clock advance. Non-trivial = the history contains a sync (sync_all/sync_data of the file, sync_dir of the directory or of an ancestor) between two successful mutations of the same untainted object, or a name vacated by rename/remove that is used again (create / rename-to / mkdir) while untainted. Distinct by scenario hash. Plus fixed probe histories (sub `probe`), one per known root cause / (op, situation). Sub `fshandle`: histories of <= 41 items over the same op language in which the host software routes its I/O through turmoil_fs::FsHandle guards: Enter / Drop events of up to 3 guards per host on the harness (simulation) thread, from a handle captured just now or earlier, nested (dropped LIFO), overlapping and dropped in start order or any other order, sequential, with ops of the same host before, between, under and after them; guards still alive when the other host acts are dropped first, in a generated order (LIFO / start order / slot order); and path ops executed on a freshly spawned worker OS thread that has nothing but the handle (one guard | two nested guards | a guard after a dropped one). Same lock-step oracle per op, scan of the acting host while guards are alive and of both hosts whenever none is, plus at the end: with every guard dropped a brand-new empty Fs that is entered must be what the shims see. Non-trivial there = an op of a host executed after the other host dropped a guard, or an op executed on a worker thread.",
        &[
            "all fault probabilities 0, io_latency None, no capacity limit, no page cache, no crash",
            "a handle is only used while its path still names the inode it was opened on (POSIX handle-follows-inode after rename/unlink is not asserted)",
            "read-only open of a directory, rename/remove of / are not generated (platform-dependent)",
            "write_at (pwrite / io_uring Write with an explicit offset) through a handle opened with append(true), with or without write(true): the handle is open for writing, so through every front end the call must succeed and return the byte count; where the bytes land is platform-dependent (POSIX: at the offset, Linux: at the end) -- the file must then read as one of the two (checked by reading it back) and the model follows the one seen; the cursor moves in neither",
            "sub fshandle: software never holds an FsHandle guard while another host runs (a guard held across a yield would by its contract route the other host's I/O to this host's Fs): guards of a host are dropped before an item of the other host; worker threads execute path ops only (std / tokio shim; no open handles, no ring)",
            "error kinds are compared where std's errno mapping is unambiguous (NotFound, AlreadyExists, NotADirectory, IsADirectory, DirectoryNotEmpty, InvalidInput); EBADF/EPERM-like situations only require Ok/Err agreement",
            "timestamps, permission bits, symlinks, hard links are outside the property",
            "objects touched by findings F-C10-1..14 are avoided or tainted only while the finding has status \"known\" in known_findings.json (counted in excluded_by_known_finding); while F-C10-4 is known, directory renames other than into the own subtree are not executed in the random tier",
            "F-C10-2 (name re-used while its former holder's departure is not durable) excludes only: non-truncating re-creation over left-over unsynced data ops or a left-over synced image; re-creation under a name that is the destination of a not-yet-durable rename; a re-created file that was file-synced, from the sync_dir that makes the old departure durable; a file renamed onto a name with left-over unsynced data ops, from the sync_dir that makes the rename durable, or when its rename chain returns to its start; a file renamed away (not durable) from a name that is renamed onto or under which data ops are made. Truncating re-creation (create+truncate+write, create_new+truncate+write, File::create, fs::write, tokio fs::write) and non-truncating re-creation over nothing are asserted in full",
            "F-C10-10 excludes only sync_dir calls that make a rename durable while an earlier not-yet-durable create/remove/rename on one of its two names lies in another directory; F-C10-11 excludes sync_dir of a re-created directory and a file renamed away from the name of a removed directory",
            "the two hosts are two Fs + IoUringHostState instances driven directly (FsDirect), not hosts of a turmoil::Sim",
        ],
    )
}

fn run_survey(sc: &Scenario) -> Outcome {
    let mut o = run(sc);
    if let Some(f) = o.failure.take() {
        // C10_SURVEY=<prefix>: labels starting with the prefix are also paired with the signature
        let pfx = std::env::var("C10_SURVEY").unwrap_or_default();
        for l in o.labels.clone() {
            o.label(format!("survey-fail-with:{l}"));
            if pfx.len() > 1 && l.starts_with(&pfx) {
                o.label(format!("survey-pair:{l} => {}", f.signature));
            }
        }
        o.label(format!("survey-fail:{}", f.signature));
        o.label("survey-fail");
    }
    o
}

fn replay(sub: &str, v: &Value) -> Result<Outcome, String> {
    if sub == "fshandle" {
        return replay_as::<HandleScenario>(v, &run_handles);
    }
    replay_as::<Scenario>(v, &run)
}

//! C16 — turmoil-net never exceeds its buffer caps, the MSS or the peer's
//! window.  DESIGN.md §6 C16.  NetWire driver; monitors on the wire and on
//! netstat after every step.
//!
//! Clauses (every one is evaluated on every round of every case, whatever
//! else happens to the connection):
//!
//! * MSS      every TCP segment seen on the wire has payload <= mtu - ip_header - 20
//!            of the interface it left from;
//! * CAPS     after the task phase and after the deliveries of every round,
//!            every TCP socket (not a listener) has send_q <= send_buf_cap and
//!            recv_q <= recv_buf_cap, on both hosts, cross-host and loopback;
//! * WINDOW   per direction, with una = highest valid cumulative ACK already
//!            *delivered* to the sender and W = window field of the last
//!            ACK-bearing segment delivered to it (for the passive opener
//!            before that: the SYN's window), every emitted data segment has
//!            seq + len - una <= W (retransmissions included: they start at or
//!            after una);
//! * WRITE    try_write returns WouldBlock iff Send-Q == send_buf_cap just
//!            before the call, otherwise Ok(min(len, cap - Send-Q));
//! * UDP      send_to with payload > mtu(or loopback_mtu) - ip_header - 8 fails
//!            with raw OS error 90 and emits nothing; a payload <= limit
//!            returns Ok(len) and exactly that payload appears on the wire
//!            (cross-host) / is received intact (loopback).

use crate::drivers::netwire::{
    self as nw, Cfg, Ev, Fate, FatePlan, Kind, Limits, NetSnap, Op, PktRec, Script, TableWire, Tracker, Until, Wire,
};
use crate::engine::{replay_as, Ctx, Outcome, Tier};
use proptest::prelude::*;
use serde::{Deserialize, Serialize};
use serde_json::Value;
use turmoil_net::{Packet, Transport};

pub const PROP: super::Prop = super::Prop { id: "C16", level: "exploration", check, replay };

const PORT: u16 = 9100;
const UPORT: u16 = 9200;
const KEY_C2S: u8 = 0x42;
const KEY_S2C: u8 = 0x9C;
const KEY_UDP: u8 = 0x55;

#[derive(Clone, Debug, Serialize, Deserialize, PartialEq)]
pub enum WOp {
    Write(u32),
    TryWrite(u32),
    Sleep(u8),
}
#[derive(Clone, Debug, Serialize, Deserialize, PartialEq)]
pub enum ROp {
    /// read exactly n bytes with the side's buffers
    Read(u16),
    TryRead(u16),
    Sleep(u8),
}

#[derive(Clone, Debug, Serialize, Deserialize, PartialEq)]
pub struct Side {
    pub w: Vec<WOp>,
    pub r: Vec<ROp>,
    pub bufs: Vec<u16>,
}

#[derive(Clone, Debug, Serialize, Deserialize, PartialEq)]
pub struct UdpProbe {
    /// sending host
    pub from: usize,
    /// true: to the sender's own loopback socket; false: to the other host
    pub lo: bool,
    pub v6: bool,
    /// payload length = limit + delta (clamped at 0)
    pub delta: i32,
}

#[derive(Clone, Debug, Serialize, Deserialize, PartialEq)]
pub struct Scenario {
    pub cfg: Cfg,
    pub v6: bool,
    /// the TCP connection runs over host 0's loopback (only cap / write clauses observable)
    pub lo: bool,
    pub client: Side,
    pub server: Side,
    pub plan: FatePlan,
    pub udp: Vec<UdpProbe>,
}

fn udp_len(sc: &Scenario, p: &UdpProbe) -> usize {
    (sc.cfg.udp_limit(p.v6, p.lo) as i64 + p.delta as i64).max(0) as usize
}

/// Tasks: 0 server writer, 1 server reader, 2 client writer, 3 client reader, 4.. UDP.
pub fn build_scripts(sc: &Scenario) -> Vec<Script> {
    let (ch, sh, to) = if sc.lo { (0usize, 0usize, None) } else { (0usize, 1usize, Some(1usize)) };
    let (cslot, sslot) = if sc.lo { (1u8, 0u8) } else { (0u8, 0u8) };
    let wops = |side: &Side, slot: u8, key: u8, ops: &mut Vec<Op>| {
        for w in &side.w {
            match w {
                WOp::Write(n) if *n > 0 => ops.push(Op::Write { conn: slot, len: *n, key }),
                WOp::TryWrite(n) if *n > 0 => ops.push(Op::TryWrite { conn: slot, len: *n, key }),
                WOp::Sleep(k) if *k > 0 => ops.push(Op::Sleep { rounds: *k as u32 }),
                _ => {}
            }
        }
        ops.push(Op::Shutdown { conn: slot });
    };
    let rops = |side: &Side, slot: u8, key: u8, ops: &mut Vec<Op>| {
        for r in &side.r {
            match r {
                ROp::Read(n) if *n > 0 => ops.push(Op::Read { conn: slot, bufs: side.bufs.clone(), until: Until::Bytes(*n as u32), key }),
                ROp::TryRead(b) => ops.push(Op::TryRead { conn: slot, buf: (*b).max(1), key }),
                ROp::Sleep(k) if *k > 0 => ops.push(Op::Sleep { rounds: *k as u32 }),
                _ => {}
            }
        }
        ops.push(Op::Read { conn: slot, bufs: side.bufs.clone(), until: Until::Eof, key });
    };
    let mut s_w = vec![Op::Listen { lst: 0, port: PORT, v6: sc.v6 }, Op::Accept { lst: 0, conn: sslot }];
    wops(&sc.server, sslot, KEY_S2C, &mut s_w);
    let mut s_r = vec![Op::WaitConn { conn: sslot }];
    rops(&sc.server, sslot, KEY_C2S, &mut s_r);
    s_r.push(Op::WaitTask { task: 0 });
    s_r.push(Op::Drop { conn: sslot });
    let mut c_w = vec![Op::Connect { conn: cslot, to, port: PORT, v6: sc.v6 }];
    wops(&sc.client, cslot, KEY_C2S, &mut c_w);
    let mut c_r = vec![Op::WaitConn { conn: cslot }];
    rops(&sc.client, cslot, KEY_S2C, &mut c_r);
    c_r.push(Op::WaitTask { task: 2 });
    c_r.push(Op::Drop { conn: cslot });
    let mut v = vec![
        Script { host: sh, ops: s_w },
        Script { host: sh, ops: s_r },
        Script { host: ch, ops: c_w },
        Script { host: ch, ops: c_r },
    ];
    // UDP: every host binds four sockets (v4/v6 x external/loopback), then the probes run in order;
    // a receiver task per expected datagram
    let nhosts = 2;
    for h in 0..nhosts {
        let mut ops = Vec::new();
        for (i, (v6, lo)) in [(false, false), (true, false), (false, true), (true, true)].iter().enumerate() {
            ops.push(Op::UdpBind { sock: i as u8, port: UPORT + i as u16, v6: *v6, lo: *lo });
        }
        // senders wait one round so that every host has bound its sockets
        ops.push(Op::Sleep { rounds: 1 });
        for p in sc.udp.iter().filter(|p| p.from == h) {
            // send from the socket of the matching family bound to the matching interface
            let sock = (p.v6 as u8) + 2 * (p.lo as u8);
            let to = if p.lo { None } else { Some(1 - h) };
            ops.push(Op::UdpSendTo { sock, to, port: UPORT + sock as u16, v6: p.v6, len: udp_len(sc, p) as u32, key: KEY_UDP });
        }
        v.push(Script { host: h, ops });
    }
    // receivers: one task per (host, socket) that expects datagrams, receiving them in order
    for h in 0..nhosts {
        for sock in 0..4u8 {
            let (v6, lo) = (sock & 1 == 1, sock >= 2);
            let expected: Vec<&UdpProbe> = sc
                .udp
                .iter()
                .filter(|p| p.v6 == v6 && p.lo == lo && (if lo { p.from == h } else { p.from == 1 - h }) && p.delta <= 0)
                .collect();
            if expected.is_empty() {
                continue;
            }
            let mut ops = vec![Op::Sleep { rounds: 1 }];
            for _ in expected {
                ops.push(Op::UdpRecv { sock, buf: 70_000, key: KEY_UDP });
            }
            v.push(Script { host: h, ops });
        }
    }
    v
}

// ---------------------------------------------------------------- monitors

struct Mon<'a> {
    sc: &'a Scenario,
    tw: TableWire<'a>,
    fail: Option<(String, String)>,
    min_win: Option<u16>,
    data_segments: u64,
    max_payload: usize,
    full_sendq_seen: bool,
    full_recvq_seen: bool,
    udp_emitted: Vec<(usize, usize, bool)>, // (src host, payload len, pattern ok)
    snapshots: u64,
}

impl Mon<'_> {
    fn bad(&mut self, sig: &str, detail: String) {
        if self.fail.is_none() {
            self.fail = Some((sig.to_string(), detail));
        }
    }
    fn caps(&mut self, when: &str, round: u32, snap: &NetSnap) {
        self.snapshots += 1;
        for (h, rows) in snap.iter().enumerate() {
            for r in rows {
                if !r.tcp || r.state == Some("LISTEN") {
                    continue;
                }
                if r.send_q == self.sc.cfg.send_cap {
                    self.full_sendq_seen = true;
                }
                if r.recv_q == self.sc.cfg.recv_cap {
                    self.full_recvq_seen = true;
                }
                if r.send_q > self.sc.cfg.send_cap {
                    self.bad(
                        "caps:send-queue-exceeds-send_buf_cap",
                        format!("round {round} ({when}) host {h}: Send-Q {} > cap {} on {r:?}", r.send_q, self.sc.cfg.send_cap),
                    );
                }
                if r.recv_q > self.sc.cfg.recv_cap {
                    self.bad(
                        "caps:recv-queue-exceeds-recv_buf_cap",
                        format!("round {round} ({when}) host {h}: Recv-Q {} > cap {} on {r:?}", r.recv_q, self.sc.cfg.recv_cap),
                    );
                }
            }
        }
    }
}

impl Wire for Mon<'_> {
    fn fate(&mut self, rec: &PktRec, _tr: &Tracker) -> Fate {
        if rec.kind == Kind::Udp {
            return Fate::Now;
        }
        self.tw.decide(rec)
    }
    fn order(&mut self, _r: u32, ids: &mut Vec<usize>, _p: &[PktRec]) {
        self.tw.reorder(ids);
    }
    fn on_emit(&mut self, rec: &PktRec, p: &Packet, tr: &Tracker) {
        match &p.payload {
            Transport::Udp(d) => {
                let ok = d.payload.iter().enumerate().all(|(i, b)| *b == nw::pat(KEY_UDP, i as u64));
                self.udp_emitted.push((rec.src_host.unwrap_or(9), d.payload.len(), ok));
                let v6 = p.dst.is_ipv6();
                if d.payload.len() > self.sc.cfg.udp_limit(v6, false) {
                    self.bad(
                        "udp:datagram-on-the-wire-exceeds-mtu",
                        format!("payload {} > limit {} ({rec:?})", d.payload.len(), self.sc.cfg.udp_limit(v6, false)),
                    );
                }
            }
            Transport::Tcp(s) => {
                let v6 = p.src.is_ipv6();
                let mss = self.sc.cfg.mss(v6);
                self.max_payload = self.max_payload.max(s.payload.len());
                if s.payload.len() > mss {
                    self.bad(
                        "mss:segment-payload-exceeds-mtu-minus-headers",
                        format!("payload {} > MSS {} (mtu {}, v6 {v6}); {rec:?}", s.payload.len(), mss, self.sc.cfg.mtu),
                    );
                }
                if s.flags.ack && !s.flags.syn && !s.flags.rst {
                    self.min_win = Some(self.min_win.map_or(s.window, |w| w.min(s.window)));
                }
                if !s.payload.is_empty() {
                    self.data_segments += 1;
                    if let Some((c, e)) = tr.lookup(rec.src, rec.dst) {
                        let end = &tr.conns[c].ends[e];
                        if let (Some(isn), Some(w)) = (end.isn, end.win) {
                            let una = end.una.unwrap_or(isn.wrapping_add(1));
                            let beyond = s.seq.wrapping_add(s.payload.len() as u32).wrapping_sub(una) as i32;
                            if beyond > w as i32 {
                                self.bad(
                                    "window:bytes-in-flight-exceed-last-advertised-window",
                                    format!(
                                        "round {}: segment seq={} len={} reaches {} bytes past the highest ACK delivered to the sender ({}), but the last window delivered to it is {}; {rec:?}",
                                        rec.round,
                                        s.seq,
                                        s.payload.len(),
                                        beyond,
                                        una,
                                        w
                                    ),
                                );
                            }
                        }
                    }
                }
            }
        }
    }
    fn wants_snapshots(&self) -> bool {
        true
    }
    fn after_tasks(&mut self, round: u32, snap: &NetSnap) {
        self.caps("after the task phase", round, snap);
    }
    fn end_round(&mut self, round: u32, snap: &NetSnap, _tr: &Tracker) {
        self.caps("after deliveries", round, snap);
    }
}

pub fn valid(sc: &Scenario) -> Result<(), String> {
    if sc.cfg.mtu <= 60 && sc.v6 || sc.cfg.mtu <= 40 {
        return Err("MTU leaves no TCP payload room".into());
    }
    if sc.cfg.loopback_mtu <= 60 {
        return Err("loopback MTU leaves no TCP payload room".into());
    }
    if sc.cfg.send_cap == 0 || sc.cfg.recv_cap == 0 || sc.cfg.retx_threshold == 0 {
        return Err("caps and retx_threshold must be >= 1".into());
    }
    Ok(())
}

pub fn run(sc: &Scenario) -> Outcome {
    let mut out = Outcome::ok();
    if let Err(e) = valid(sc) {
        out.label(format!("invalid-scenario:{e}"));
        return out;
    }
    let scripts = build_scripts(sc);
    let mut mon = Mon {
        sc,
        tw: TableWire::new(&sc.plan),
        fail: None,
        min_win: None,
        data_segments: 0,
        max_payload: 0,
        full_sendq_seen: false,
        full_recvq_seen: false,
        udp_emitted: Vec::new(),
        snapshots: 0,
    };
    let lim = Limits { max_rounds: 600, quiet_rounds: sc.cfg.quiet_rounds() + sc.plan.max_hold, settle: 3 };
    let log = nw::run(&sc.cfg, 2, &scripts, &mut mon, &lim);
    if std::env::var("NETWIRE_TRACE").is_ok() {
        for o in &log.obs {
            println!("r{} h{} t{} op{} {:?}", o.round, o.host, o.task, o.op, o.ev);
        }
        for p in &log.pkts {
            println!("pkt {p:?}");
        }
    }
    if let Some((sig, detail)) = mon.fail.take() {
        out.fail(sig, detail);
    }

    // WRITE clause + payload integrity of what was read (cheap extra) + UDP clause
    let mut udp_ok_sent: Vec<(usize, usize, bool)> = Vec::new(); // (host, len, lo)
    let mut udp_recvd = 0usize;
    let mut wouldblock = 0u64;
    let mut try_ok = 0u64;
    let mut udp_rejected = 0u64;
    for o in &log.obs {
        match &o.ev {
            Ev::TryWrote { len, send_q: Some(q), res, .. } => {
                let cap = sc.cfg.send_cap;
                match res {
                    Err(e) if e.is("WouldBlock") => {
                        wouldblock += 1;
                        if *q != cap {
                            out.fail(
                                "write:WouldBlock-although-send-queue-below-cap",
                                format!("round {}: try_write({len}) returned WouldBlock with Send-Q {q} < cap {cap}", o.round),
                            );
                        }
                    }
                    Ok(n) => {
                        try_ok += 1;
                        if *q >= cap {
                            out.fail(
                                "write:accepted-bytes-although-send-queue-at-cap",
                                format!("round {}: try_write({len}) returned Ok({n}) with Send-Q {q} >= cap {cap}", o.round),
                            );
                        } else if *n != (*len).min(cap - *q) {
                            out.fail(
                                "write:accepted-count-is-not-min(len,free-space)",
                                format!("round {}: try_write({len}) returned Ok({n}) with Send-Q {q}, cap {cap}", o.round),
                            );
                        }
                    }
                    Err(_) => {}
                }
            }
            Ev::ReadN { bad: Some(b), .. } | Ev::TryReadRes { bad: Some(b), .. } => {
                out.fail("integrity:byte-read-differs-from-byte-written", format!("offset {b}: {o:?}"));
            }
            Ev::UdpSent { len, dst, res } => {
                let lo = dst.ip().is_loopback();
                let limit = sc.cfg.udp_limit(dst.is_ipv6(), lo);
                match res {
                    Ok(n) => {
                        if *len > limit {
                            out.fail(
                                "udp:oversized-payload-was-accepted",
                                format!("send_to of {len} bytes to {dst} returned Ok({n}); limit is {limit}"),
                            );
                        } else if *n != *len {
                            out.fail("udp:send_to-returned-wrong-length", format!("send_to of {len} bytes to {dst} returned Ok({n})"));
                        }
                        udp_ok_sent.push((o.host, *len, lo));
                    }
                    Err(e) => {
                        if *len <= limit {
                            out.fail(
                                "udp:payload-within-limit-was-rejected",
                                format!("send_to of {len} bytes to {dst} failed with {e:?}; limit is {limit}"),
                            );
                        } else if e.raw != Some(90) {
                            out.fail(
                                "udp:oversized-payload-rejected-with-wrong-error",
                                format!("send_to of {len} bytes to {dst} failed with {e:?}, expected raw OS error 90 (EMSGSIZE)"),
                            );
                        }
                        udp_rejected += 1;
                    }
                }
            }
            Ev::UdpRecvd { bad, .. } => {
                udp_recvd += 1;
                if let Some(b) = bad {
                    out.fail("udp:received-payload-differs", format!("offset {b}: {o:?}"));
                }
            }
            _ => {}
        }
    }
    // every accepted cross-host datagram appears exactly once on the wire with exactly its payload,
    // and nothing else does
    let mut want: Vec<(usize, usize)> = udp_ok_sent.iter().filter(|(_, _, lo)| !*lo).map(|(h, l, _)| (*h, *l)).collect();
    let mut got: Vec<(usize, usize)> = mon.udp_emitted.iter().map(|(h, l, _)| (*h, *l)).collect();
    want.sort();
    got.sort();
    if want != got {
        out.fail(
            "udp:datagrams-on-the-wire-differ-from-accepted-sends",
            format!("accepted cross-host sends (host, len) {want:?}, seen on the wire {got:?}"),
        );
    }
    if mon.udp_emitted.iter().any(|(_, _, ok)| !*ok) {
        out.fail("udp:payload-on-the-wire-differs", format!("{:?}", mon.udp_emitted));
    }
    // loopback / cross-host receivers: every accepted datagram must have been received
    // (UDP is never dropped or delayed by this check's wire), sizes are checked via the pattern
    let expect_recv = udp_ok_sent.len();
    if log.end != nw::End::Bound && udp_recvd != expect_recv {
        out.fail(
            "udp:accepted-datagram-not-received",
            format!("{expect_recv} datagrams were accepted by send_to but {udp_recvd} were received"),
        );
    }

    // classification
    let mss = if sc.lo { sc.cfg.lo_mss(sc.v6) } else { sc.cfg.mss(sc.v6) };
    let small_win = mon.min_win.map(|w| (w as usize) < mss).unwrap_or(false);
    let small_cap = sc.cfg.send_cap < mss || sc.cfg.recv_cap < mss;
    out.nontrivial = small_win || small_cap;
    if small_win {
        out.label("window<mss-advertised");
    }
    if mon.min_win == Some(0) {
        out.label("zero-window-advertised");
    }
    if small_cap {
        out.label("cap<mss");
    }
    if sc.cfg.send_cap != sc.cfg.recv_cap {
        out.label("asymmetric-caps");
    }
    if sc.lo {
        out.label("path:loopback");
    } else {
        out.label("path:cross-host");
    }
    out.label(if sc.v6 { "ipv6" } else { "ipv4" });
    if mss <= 4 {
        out.label("mtu-near-header-size(mss<=4)");
    }
    if mon.full_sendq_seen {
        out.label("send-queue-reached-cap");
    }
    if mon.full_recvq_seen {
        out.label("recv-queue-reached-cap");
    }
    if wouldblock > 0 {
        out.label("try_write:WouldBlock");
    }
    if try_ok > 0 {
        out.label("try_write:Ok");
    }
    if mon.max_payload == mss && !sc.lo {
        out.label("full-mss-segment-seen");
    }
    if udp_rejected > 0 {
        out.label("udp:oversized-rejected");
    }
    if !udp_ok_sent.is_empty() {
        out.label("udp:accepted");
    }
    if sc.udp.iter().any(|p| p.delta == 0) {
        out.label("udp:exactly-at-limit");
    }
    if sc.udp.iter().any(|p| p.delta == 1) {
        out.label("udp:one-over-limit");
    }
    for p in &log.pkts {
        if p.fate == Fate::Drop {
            out.label("wire:drops");
        }
        if p.overtaken_by > 0 {
            out.label("wire:reordering");
        }
    }
    match log.end {
        nw::End::Finished => out.label("end:finished"),
        nw::End::Stalled => out.label("end:stalled(liveness is C06's business)"),
        nw::End::Bound => out.label("end:round-bound"),
    }
    out.count("data-segments-checked", mon.data_segments);
    out.count("netstat-snapshots-checked", mon.snapshots);
    out.count("try_write-calls-checked", wouldblock + try_ok);
    out.count("udp-sends-checked", udp_rejected + udp_ok_sent.len() as u64);
    out
}

// ---------------------------------------------------------------- generators

fn cfg_strategy() -> BoxedStrategy<(Cfg, bool)> {
    let cap = || {
        prop_oneof![
            2 => Just(1usize),
            3 => 2usize..=6,
            3 => 7usize..=40,
            2 => 41usize..=200,
            1 => Just(65536usize),
        ]
    };
    (
        any::<bool>(),
        // TCP payload room of the external interface: emphasis near the header size
        prop_oneof![3 => Just(1u32), 3 => 2u32..=4, 3 => 5u32..=20, 2 => 21u32..=100, 1 => Just(1460u32)],
        // loopback payload room (v6 headers always fit)
        prop_oneof![2 => 1u32..=8, 2 => 9u32..=64, 1 => 65u32..=2000, 1 => Just(65476u32)],
        cap(),
        cap(),
        1u32..=4,
        2u32..=5,
    )
        .prop_map(|(v6, mss, lomss, send_cap, recv_cap, t, m)| {
            let hdr = if v6 { 60 } else { 40 };
            (Cfg { mtu: hdr + mss, loopback_mtu: 60 + lomss, send_cap, recv_cap, retx_threshold: t, retx_max: m }, v6)
        })
        .boxed()
}

fn side_strategy() -> BoxedStrategy<Side> {
    let w = prop_oneof![
        4 => (1u32..=60).prop_map(WOp::Write),
        1 => (100u32..=400).prop_map(WOp::Write),
        4 => (1u32..=80).prop_map(WOp::TryWrite),
        2 => (1u8..=3).prop_map(WOp::Sleep),
    ];
    let r = prop_oneof![
        3 => (1u16..=30).prop_map(ROp::Read),
        2 => (1u16..=40).prop_map(ROp::TryRead),
        3 => (1u8..=4).prop_map(ROp::Sleep),
    ];
    (
        proptest::collection::vec(w, 0..7),
        proptest::collection::vec(r, 0..6),
        proptest::collection::vec(prop_oneof![2 => Just(1u16), 3 => 2u16..=8, 2 => 9u16..=64, 2 => Just(2048u16)], 1..3),
    )
        .prop_map(|(w, r, bufs)| Side { w, r, bufs })
        .boxed()
}

fn plan_strategy() -> BoxedStrategy<FatePlan> {
    let fate = prop_oneof![6 => Just(Fate::Now), 4 => (1u32..=5).prop_map(Fate::Hold), 1 => Just(Fate::Drop)];
    (
        proptest::collection::vec(fate, 0..60),
        prop_oneof![1 => Just(Vec::new()), 2 => proptest::collection::vec(0u8..4, 0..60)],
        0u32..=2,
        0u32..=5,
    )
        .prop_map(|(by_id, prio, max_drops, max_hold)| FatePlan { by_id, by_kind: vec![], prio, max_drops, max_hold, blackhole: None })
        .boxed()
}

fn udp_strategy() -> BoxedStrategy<Vec<UdpProbe>> {
    proptest::collection::vec(
        (
            0usize..2,
            prop_oneof![2 => Just(false), 1 => Just(true)],
            any::<bool>(),
            prop_oneof![3 => Just(0i32), 3 => Just(1i32), 2 => -3i32..=-1, 2 => 2i32..=40, 1 => -200i32..=-4, 1 => Just(70_000i32)],
        )
            .prop_map(|(from, lo, v6, delta)| UdpProbe { from, lo, v6, delta }),
        0..5,
    )
    .boxed()
}

pub fn strategy() -> BoxedStrategy<Scenario> {
    (cfg_strategy(), prop_oneof![4 => Just(false), 1 => Just(true)], side_strategy(), side_strategy(), plan_strategy(), udp_strategy())
        .prop_map(|((mut cfg, v6), lo, client, server, plan, mut udp)| {
            // keep oversized UDP payload buffers small unless the loopback MTU is the default
            for p in udp.iter_mut() {
                if p.delta > 1000 && (p.lo && cfg.loopback_mtu > 10_000) {
                    p.delta = 1;
                }
            }
            if cfg.loopback_mtu > 65_536 {
                cfg.loopback_mtu = 65_536;
            }
            Scenario { cfg, v6, lo, client, server, plan, udp }
        })
        .boxed()
}

fn check(tier: Tier, seed: u64) -> i32 {
    let ctx = Ctx::new("C16", tier, seed, "exploration");
    ctx.replay_corpus(&replay);
    ctx.random("monitors", tier.pick(6_000, 80_000), &|| strategy(), &run);
    ctx.finish(
        "random scenarios: KernelConfig (mtu = headers + 1..1460 with emphasis on 1-4 bytes of payload room, loopback_mtu likewise, send/recv caps 1..64K chosen independently, v4/v6) x one TCP connection cross-host (80%) or over loopback (20%), both directions, writers mixing write_all, try_write bursts and pauses, readers mixing exact reads, try_read and pauses (so windows shrink, close and re-open) x fate plan (holds 1-5 rounds, delivery priorities, <= 2 drops) x 0-4 UDP sends of limit-200..limit+40 (and 70 000) bytes cross-host and to loopback, v4 and v6. Non-trivial = a window smaller than one MSS was advertised at least once or a cap is smaller than one MSS; distinct by scenario hash.",
        &[
            "loopback segments are folded back inside Kernel::egress and never reach the harness: on the loopback path only the cap and try_write clauses are checked, not MSS or window",
            "una/W of the window clause are computed from segments already *delivered* to the sender (the harness is the wire); a FIN is not counted as a byte in flight",
            "the try_write clause is evaluated only when the connection is visible in netstat just before the call (an aborted/closed socket is hidden) and the call did not fail for another reason",
            "UDP datagrams are never dropped or delayed by this check; MTU payload room >= 1 byte, caps >= 1",
            "liveness is not judged here (C06); a stalled or aborted connection still has all monitors applied on every round",
        ],
    )
}

fn replay(_sub: &str, v: &Value) -> Result<Outcome, String> {
    replay_as::<Scenario>(v, &run)
}

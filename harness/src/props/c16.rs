//! C16 — turmoil-net never exceeds its buffer caps, the MSS or the peer's
//! window.  DESIGN.md §6 C16.  NetWire driver; monitors on the wire and on
//! netstat after every step.
//!
//! Clauses (every one is evaluated on every round of every case, whatever
//! else happens to the connection):
//!
//! * MSS      every TCP segment seen on the wire has payload <= mtu - ip_header - 20
//!            of the interface it left from, with the IP header of THAT segment's
//!            family — whatever other sockets (other family, loopback, own
//!            address: other MSS) are busy on the same host at the same time;
//! * CAPS     after the task phase and after the deliveries of every round,
//!            every TCP socket (not a listener) has send_q <= send_buf_cap and
//!            recv_q <= recv_buf_cap, on both hosts, cross-host and loopback;
//! * WINDOW   per direction, with una = highest valid cumulative ACK already
//!            *delivered* to the sender and W = window field of the last
//!            ACK-bearing segment delivered to it (for the passive opener
//!            before that: the SYN's window), every emitted data segment has
//!            seq + len - una <= W (retransmissions included: they start at or
//!            after una);
//! * WRITE    with Send-Q = unsent + unacknowledged bytes of the socket just before the call:
//!            safety (exact) -- try_write never returns Ok while Send-Q >= send_buf_cap and never
//!            accepts more than min(len, send_buf_cap - Send-Q) bytes ("writes beyond the cap
//!            block or return WouldBlock");
//!            progress (only what no admission policy can excuse) -- the property promises that a
//!            refused write is taken "until acknowledgements free space", NOT that a write is
//!            taken as soon as ANY byte is free, nor how much of the free space one call uses
//!            (low-water marks, all-or-nothing writes and short writes are all admissible).  So
//!            WouldBlock (or Ok(0)) is a violation only when no acknowledgement can ever free
//!            more space: Send-Q == 0 (nothing unsent, nothing unacknowledged), the write is
//!            non-empty and the connection is open for writing (then try_write does not fail
//!            with another error).  WouldBlock at 0 < Send-Q < cap is counted as a class, not
//!            judged;
//! * UDP      send_to with payload > mtu(or loopback_mtu) - ip_header - 8 fails
//!            with raw OS error 90 and emits nothing; a payload <= limit
//!            returns Ok(len) and exactly that payload appears on the wire
//!            (cross-host) / is received intact (loopback).
//! * UDP-LIMITS  (second phase of every case, controller-style `World` with its own MTU pair
//!            loopback_mtu <, = or > mtu) the limit that applies to a datagram is the one of the
//!            interface it leaves from — KernelConfig: `loopback_mtu` = "MTU for loopback",
//!            `mtu` = "MTU for non-loopback traffic" — whatever address the SENDING socket is
//!            bound to (wildcard, loopback, the host's own address) and whether it is connected
//!            (`send`) or not (`send_to`): a datagram to 127.0.0.1 / ::1 is held to
//!            loopback_mtu - ip_header - 8, one to another host to mtu - ip_header - 8; within
//!            the limit it is accepted, returns its length and is received intact exactly once,
//!            beyond it it fails with raw OS error 90 (EMSGSIZE, kernel/mod.rs rustdoc) and
//!            nothing is delivered; no UDP packet on the wire exceeds the external limit.  For a
//!            datagram to the sender's OWN routable address the docs do not say which of the
//!            two MTUs applies: at most the smaller limit must be accepted, beyond the larger
//!            limit must be rejected, in between is not asserted.

use crate::drivers::netwire::{
    self as nw, Cfg, Ev, Fate, FatePlan, Kind, Limits, NetSnap, Op, PktRec, Script, TableWire, Tracker, Until, Wire,
};
use crate::drivers::netwire_ext::{now_or_never, AllNow, Held, World};
use crate::engine::{replay_as, Ctx, Outcome, Tier};
use proptest::prelude::*;
use serde::{Deserialize, Serialize};
use serde_json::Value;
use std::collections::BTreeMap;
use std::net::{IpAddr, Ipv4Addr, Ipv6Addr, SocketAddr};
use turmoil_net::shim::tokio::net::UdpSocket;
use turmoil_net::{Packet, Transport};

pub const PROP: super::Prop = super::Prop { id: "C16", level: "exploration", check, replay };

const PORT: u16 = 9100;
const UPORT: u16 = 9200;
const KEY_C2S: u8 = 0x42;
const KEY_S2C: u8 = 0x9C;
const KEY_UDP: u8 = 0x55;
const MAX_EXTRA: usize = 3;
/// port of the receivers of the UDP-LIMITS phase
const URPORT: u16 = 9300;
const KEY_UDP2: u8 = 0xA7;
const MAX_USHAPES: usize = 6;
/// smallest MTU of the UDP-LIMITS phase: IPv6 header + UDP header (payload room 0 on v6, 20 on v4)
const UMTU_MIN: u32 = 48;

#[derive(Clone, Debug, Serialize, Deserialize, PartialEq)]
pub enum WOp {
    Write(u32),
    TryWrite(u32),
    Sleep(u8),
}
#[derive(Clone, Debug, Serialize, Deserialize, PartialEq)]
pub enum ROp {
    /// read exactly n bytes with the side's buffers
    Read(u16),
    TryRead(u16),
    Sleep(u8),
}

#[derive(Clone, Debug, Serialize, Deserialize, PartialEq)]
pub struct Side {
    pub w: Vec<WOp>,
    pub r: Vec<ROp>,
    pub bufs: Vec<u16>,
}

#[derive(Clone, Debug, Serialize, Deserialize, PartialEq)]
pub struct UdpProbe {
    /// sending host
    pub from: usize,
    /// true: to the sender's own loopback socket; false: to the other host
    pub lo: bool,
    pub v6: bool,
    /// payload length = limit + delta (clamped at 0)
    pub delta: i32,
}

/// An additional TCP connection that runs concurrently with the primary one, so that sockets
/// whose paths imply different MSS values (v4 / v6, external / loopback) coexist on one host.
#[derive(Clone, Debug, Serialize, Deserialize, PartialEq)]
pub struct XConn {
    /// host of the active opener
    pub ch: usize,
    /// 0 = cross-host (listener on the other host), 1 = over the opener's loopback,
    /// 2 = to the opener's own routable address (folded back locally, external MTU)
    pub scope: u8,
    pub v6: bool,
    /// rounds the opener waits before it connects (creation order of the sockets)
    pub delay: u8,
    /// the tasks of this connection come before those of the primary connection
    /// (they are polled first in every round, so their sockets are created first)
    pub first: bool,
    pub client: Side,
    pub server: Side,
}

/// MTU pair of the UDP-LIMITS phase (independent of the TCP phase's `cfg`).
#[derive(Clone, Debug, Serialize, Deserialize, PartialEq)]
pub struct UCfg {
    pub mtu: u32,
    pub loopback_mtu: u32,
}
impl Default for UCfg {
    fn default() -> Self {
        UCfg { mtu: 1500, loopback_mtu: 65_536 }
    }
}

/// One datagram of the UDP-LIMITS phase: who sends it, from what kind of socket, where to, and how
/// its size relates to the two limits.
#[derive(Clone, Debug, Serialize, Deserialize, PartialEq)]
pub struct UShape {
    /// sending host
    pub host: usize,
    pub v6: bool,
    /// the sender is bound to: 0 = the wildcard address, 1 = loopback, 2 = the host's own address
    /// (always port 0; sockets are reused by later datagrams of the same shape)
    pub bind: u8,
    /// `connect(dst)` + `send` instead of `send_to(dst)`
    pub connected: bool,
    /// 0 = loopback, 1 = the sender's own routable address, 2 = the other host
    /// (a loopback-bound sender always sends to loopback)
    pub dst: u8,
    /// the payload length is `delta` away from the limit of: false = the loopback MTU, true = the
    /// external MTU (of the datagram's family)
    pub ext_anchor: bool,
    pub delta: i32,
}

#[derive(Clone, Debug, Serialize, Deserialize, PartialEq)]
pub struct Scenario {
    pub cfg: Cfg,
    pub v6: bool,
    /// the TCP connection runs over host 0's loopback (only cap / write clauses observable)
    pub lo: bool,
    pub client: Side,
    pub server: Side,
    pub plan: FatePlan,
    pub udp: Vec<UdpProbe>,
    /// further concurrent TCP connections (absent in replay files older than this field)
    #[serde(default)]
    pub extra: Vec<XConn>,
    /// UDP-LIMITS phase (absent in replay files older than these fields: no second phase)
    #[serde(default)]
    pub ucfg: UCfg,
    #[serde(default)]
    pub ushapes: Vec<UShape>,
}

/// One TCP connection of a scenario, resolved to hosts, slots, ports and keys.
struct ConnSpec<'a> {
    ch: usize,
    sh: usize,
    to: Option<usize>,
    v6: bool,
    /// 0 cross-host, 1 loopback, 2 own address
    scope: u8,
    port: u16,
    lst: u8,
    cslot: u8,
    sslot: u8,
    delay: u8,
    client: &'a Side,
    server: &'a Side,
    key_c2s: u8,
    key_s2c: u8,
}

fn xspec(i: usize, x: &XConn) -> ConnSpec<'_> {
    let ch = x.ch % 2;
    let (sh, to) = match x.scope % 3 {
        0 => (1 - ch, Some(1 - ch)),
        1 => (ch, None),
        _ => (ch, Some(ch)),
    };
    ConnSpec {
        ch,
        sh,
        to,
        v6: x.v6,
        scope: x.scope % 3,
        port: PORT + 1 + i as u16,
        lst: 1 + i as u8,
        // slots are per host; keep them distinct from the primary's (0, 1) and from each other
        sslot: 2 + 2 * i as u8,
        cslot: 3 + 2 * i as u8,
        delay: x.delay,
        client: &x.client,
        server: &x.server,
        key_c2s: KEY_C2S.wrapping_add(7 * (i as u8 + 1)),
        key_s2c: KEY_S2C.wrapping_add(11 * (i as u8 + 1)),
    }
}

/// The connections in task order (each owns four consecutive tasks: server writer, server reader,
/// client writer, client reader).  Without `extra` this is exactly the primary connection.
fn conn_specs(sc: &Scenario) -> Vec<ConnSpec<'_>> {
    let primary = ConnSpec {
        ch: 0,
        sh: if sc.lo { 0 } else { 1 },
        to: if sc.lo { None } else { Some(1) },
        v6: sc.v6,
        scope: sc.lo as u8,
        port: PORT,
        lst: 0,
        cslot: if sc.lo { 1 } else { 0 },
        sslot: 0,
        delay: 0,
        client: &sc.client,
        server: &sc.server,
        key_c2s: KEY_C2S,
        key_s2c: KEY_S2C,
    };
    let mut v: Vec<ConnSpec> = Vec::new();
    let xs: Vec<(usize, &XConn)> = sc.extra.iter().take(MAX_EXTRA).enumerate().collect();
    for (i, x) in xs.iter().filter(|(_, x)| x.first) {
        v.push(xspec(*i, x));
    }
    v.push(primary);
    for (i, x) in xs.iter().filter(|(_, x)| !x.first) {
        v.push(xspec(*i, x));
    }
    v
}

/// MSS the property promises for a segment of this connection leaving host-side `scope`.
fn path_mss(cfg: &Cfg, scope: u8, v6: bool) -> usize {
    if scope == 1 {
        cfg.lo_mss(v6)
    } else {
        cfg.mss(v6)
    }
}

/// Per host: the MSS of every TCP endpoint the scenario places on it.
fn host_endpoint_mss(sc: &Scenario) -> [Vec<usize>; 2] {
    let mut m: [Vec<usize>; 2] = [Vec::new(), Vec::new()];
    for c in conn_specs(sc) {
        let mss = path_mss(&sc.cfg, c.scope, c.v6);
        m[c.ch].push(mss);
        m[c.sh].push(mss);
    }
    m
}

fn udp_len(sc: &Scenario, p: &UdpProbe) -> usize {
    (sc.cfg.udp_limit(p.v6, p.lo) as i64 + p.delta as i64).max(0) as usize
}

/// Tasks: per connection (in `conn_specs` order) server writer, server reader, client writer,
/// client reader; then the UDP tasks.  With no extra connection: 0 server writer, 1 server
/// reader, 2 client writer, 3 client reader, 4.. UDP.
pub fn build_scripts(sc: &Scenario) -> Vec<Script> {
    let wops = |side: &Side, slot: u8, key: u8, ops: &mut Vec<Op>| {
        for w in &side.w {
            match w {
                WOp::Write(n) if *n > 0 => ops.push(Op::Write { conn: slot, len: *n, key }),
                WOp::TryWrite(n) if *n > 0 => ops.push(Op::TryWrite { conn: slot, len: *n, key }),
                WOp::Sleep(k) if *k > 0 => ops.push(Op::Sleep { rounds: *k as u32 }),
                _ => {}
            }
        }
        ops.push(Op::Shutdown { conn: slot });
    };
    let rops = |side: &Side, slot: u8, key: u8, ops: &mut Vec<Op>| {
        for r in &side.r {
            match r {
                ROp::Read(n) if *n > 0 => ops.push(Op::Read { conn: slot, bufs: side.bufs.clone(), until: Until::Bytes(*n as u32), key }),
                ROp::TryRead(b) => ops.push(Op::TryRead { conn: slot, buf: (*b).max(1), key }),
                ROp::Sleep(k) if *k > 0 => ops.push(Op::Sleep { rounds: *k as u32 }),
                _ => {}
            }
        }
        ops.push(Op::Read { conn: slot, bufs: side.bufs.clone(), until: Until::Eof, key });
    };
    let mut v: Vec<Script> = Vec::new();
    for (pos, c) in conn_specs(sc).iter().enumerate() {
        let base = (4 * pos) as u8;
        let mut s_w = vec![Op::Listen { lst: c.lst, port: c.port, v6: c.v6 }, Op::Accept { lst: c.lst, conn: c.sslot }];
        wops(c.server, c.sslot, c.key_s2c, &mut s_w);
        let mut s_r = vec![Op::WaitConn { conn: c.sslot }];
        rops(c.server, c.sslot, c.key_c2s, &mut s_r);
        s_r.push(Op::WaitTask { task: base });
        s_r.push(Op::Drop { conn: c.sslot });
        let mut c_w = Vec::new();
        if c.delay > 0 {
            c_w.push(Op::Sleep { rounds: c.delay as u32 });
        }
        c_w.push(Op::Connect { conn: c.cslot, to: c.to, port: c.port, v6: c.v6 });
        wops(c.client, c.cslot, c.key_c2s, &mut c_w);
        let mut c_r = vec![Op::WaitConn { conn: c.cslot }];
        rops(c.client, c.cslot, c.key_s2c, &mut c_r);
        c_r.push(Op::WaitTask { task: base + 2 });
        c_r.push(Op::Drop { conn: c.cslot });
        v.push(Script { host: c.sh, ops: s_w });
        v.push(Script { host: c.sh, ops: s_r });
        v.push(Script { host: c.ch, ops: c_w });
        v.push(Script { host: c.ch, ops: c_r });
    }
    // UDP: every host binds four sockets (v4/v6 x external/loopback), then the probes run in order;
    // a receiver task per expected datagram
    let nhosts = 2;
    for h in 0..nhosts {
        let mut ops = Vec::new();
        for (i, (v6, lo)) in [(false, false), (true, false), (false, true), (true, true)].iter().enumerate() {
            ops.push(Op::UdpBind { sock: i as u8, port: UPORT + i as u16, v6: *v6, lo: *lo });
        }
        // senders wait one round so that every host has bound its sockets
        ops.push(Op::Sleep { rounds: 1 });
        for p in sc.udp.iter().filter(|p| p.from == h) {
            // send from the socket of the matching family bound to the matching interface
            let sock = (p.v6 as u8) + 2 * (p.lo as u8);
            let to = if p.lo { None } else { Some(1 - h) };
            ops.push(Op::UdpSendTo { sock, to, port: UPORT + sock as u16, v6: p.v6, len: udp_len(sc, p) as u32, key: KEY_UDP });
        }
        v.push(Script { host: h, ops });
    }
    // receivers: one task per (host, socket) that expects datagrams, receiving them in order
    for h in 0..nhosts {
        for sock in 0..4u8 {
            let (v6, lo) = (sock & 1 == 1, sock >= 2);
            let expected: Vec<&UdpProbe> = sc
                .udp
                .iter()
                .filter(|p| p.v6 == v6 && p.lo == lo && (if lo { p.from == h } else { p.from == 1 - h }) && p.delta <= 0)
                .collect();
            if expected.is_empty() {
                continue;
            }
            let mut ops = vec![Op::Sleep { rounds: 1 }];
            for _ in expected {
                ops.push(Op::UdpRecv { sock, buf: 70_000, key: KEY_UDP });
            }
            v.push(Script { host: h, ops });
        }
    }
    v
}

// ---------------------------------------------------------------- monitors

struct Mon<'a> {
    sc: &'a Scenario,
    tw: TableWire<'a>,
    fail: Option<(String, String)>,
    min_win: Option<u16>,
    /// a window smaller than the MSS of the path it was advertised on was seen on the wire
    small_win: bool,
    data_segments: u64,
    max_payload: usize,
    /// MSS of every TCP endpoint per host (static, from the scenario)
    ends_mss: [Vec<usize>; 2],
    /// wire connections (tracker index) that carried payload, per source host
    wire_senders: std::collections::BTreeSet<(usize, SocketAddr)>,
    /// a segment of exactly its path's MSS left a host that also has an endpoint with a larger MSS
    full_beside_larger: u64,
    /// a wire segment carried exactly the MSS of its path
    full_mss_seen: bool,
    full_sendq_seen: bool,
    full_recvq_seen: bool,
    udp_emitted: Vec<(usize, usize, bool)>, // (src host, payload len, pattern ok)
    snapshots: u64,
}

impl Mon<'_> {
    fn bad(&mut self, sig: &str, detail: String) {
        if self.fail.is_none() {
            self.fail = Some((sig.to_string(), detail));
        }
    }
    fn caps(&mut self, when: &str, round: u32, snap: &NetSnap) {
        self.snapshots += 1;
        for (h, rows) in snap.iter().enumerate() {
            for r in rows {
                if !r.tcp || r.state == Some("LISTEN") {
                    continue;
                }
                if r.send_q == self.sc.cfg.send_cap {
                    self.full_sendq_seen = true;
                }
                if r.recv_q == self.sc.cfg.recv_cap {
                    self.full_recvq_seen = true;
                }
                if r.send_q > self.sc.cfg.send_cap {
                    self.bad(
                        "caps:send-queue-exceeds-send_buf_cap",
                        format!("round {round} ({when}) host {h}: Send-Q {} > cap {} on {r:?}", r.send_q, self.sc.cfg.send_cap),
                    );
                }
                if r.recv_q > self.sc.cfg.recv_cap {
                    self.bad(
                        "caps:recv-queue-exceeds-recv_buf_cap",
                        format!("round {round} ({when}) host {h}: Recv-Q {} > cap {} on {r:?}", r.recv_q, self.sc.cfg.recv_cap),
                    );
                }
            }
        }
    }
}

impl Wire for Mon<'_> {
    fn fate(&mut self, rec: &PktRec, _tr: &Tracker) -> Fate {
        if rec.kind == Kind::Udp {
            return Fate::Now;
        }
        self.tw.decide(rec)
    }
    fn order(&mut self, _r: u32, ids: &mut Vec<usize>, _p: &[PktRec]) {
        self.tw.reorder(ids);
    }
    fn on_emit(&mut self, rec: &PktRec, p: &Packet, tr: &Tracker) {
        match &p.payload {
            Transport::Udp(d) => {
                let ok = d.payload.iter().enumerate().all(|(i, b)| *b == nw::pat(KEY_UDP, i as u64));
                self.udp_emitted.push((rec.src_host.unwrap_or(9), d.payload.len(), ok));
                let v6 = p.dst.is_ipv6();
                if d.payload.len() > self.sc.cfg.udp_limit(v6, false) {
                    self.bad(
                        "udp:datagram-on-the-wire-exceeds-mtu",
                        format!("payload {} > limit {} ({rec:?})", d.payload.len(), self.sc.cfg.udp_limit(v6, false)),
                    );
                }
            }
            Transport::Tcp(s) => {
                let v6 = p.src.is_ipv6();
                let mss = self.sc.cfg.mss(v6);
                self.max_payload = self.max_payload.max(s.payload.len());
                if s.payload.len() > mss {
                    self.bad(
                        "mss:segment-payload-exceeds-mtu-minus-headers",
                        format!("payload {} > MSS {} (mtu {}, v6 {v6}); {rec:?}", s.payload.len(), mss, self.sc.cfg.mtu),
                    );
                }
                if s.flags.ack && !s.flags.syn && !s.flags.rst {
                    self.min_win = Some(self.min_win.map_or(s.window, |w| w.min(s.window)));
                    // the peer answers over the same interface and family
                    if (s.window as usize) < mss {
                        self.small_win = true;
                    }
                }
                if !s.payload.is_empty() {
                    self.data_segments += 1;
                    if s.payload.len() == mss {
                        self.full_mss_seen = true;
                    }
                    if let Some(h) = rec.src_host.filter(|h| *h < 2) {
                        self.wire_senders.insert((h, rec.src));
                        if s.payload.len() == mss && self.ends_mss[h].iter().any(|m| *m > mss) {
                            self.full_beside_larger += 1;
                        }
                    }
                    if let Some((c, e)) = tr.lookup(rec.src, rec.dst) {
                        let end = &tr.conns[c].ends[e];
                        if let (Some(isn), Some(w)) = (end.isn, end.win) {
                            let una = end.una.unwrap_or(isn.wrapping_add(1));
                            let beyond = s.seq.wrapping_add(s.payload.len() as u32).wrapping_sub(una) as i32;
                            if beyond > w as i32 {
                                self.bad(
                                    "window:bytes-in-flight-exceed-last-advertised-window",
                                    format!(
                                        "round {}: segment seq={} len={} reaches {} bytes past the highest ACK delivered to the sender ({}), but the last window delivered to it is {}; {rec:?}",
                                        rec.round,
                                        s.seq,
                                        s.payload.len(),
                                        beyond,
                                        una,
                                        w
                                    ),
                                );
                            }
                        }
                    }
                }
            }
        }
    }
    fn wants_snapshots(&self) -> bool {
        true
    }
    fn after_tasks(&mut self, round: u32, snap: &NetSnap) {
        self.caps("after the task phase", round, snap);
    }
    fn end_round(&mut self, round: u32, snap: &NetSnap, _tr: &Tracker) {
        self.caps("after deliveries", round, snap);
    }
}

pub fn valid(sc: &Scenario) -> Result<(), String> {
    if sc.cfg.mtu <= 60 && sc.v6 || sc.cfg.mtu <= 40 {
        return Err("MTU leaves no TCP payload room".into());
    }
    if sc.cfg.mtu <= 60 && sc.extra.iter().any(|x| x.v6 && x.scope % 3 != 1) {
        return Err("MTU leaves no TCP payload room for an extra IPv6 connection".into());
    }
    if sc.extra.len() > MAX_EXTRA {
        return Err("too many extra connections".into());
    }
    if sc.cfg.loopback_mtu <= 60 {
        return Err("loopback MTU leaves no TCP payload room".into());
    }
    if sc.cfg.send_cap == 0 || sc.cfg.recv_cap == 0 || sc.cfg.retx_threshold == 0 {
        return Err("caps and retx_threshold must be >= 1".into());
    }
    if !sc.ushapes.is_empty() && (sc.ucfg.mtu < UMTU_MIN || sc.ucfg.loopback_mtu < UMTU_MIN) {
        return Err("UDP-LIMITS MTUs must leave room for the IPv6 + UDP headers".into());
    }
    if sc.ushapes.len() > MAX_USHAPES {
        return Err("too many UDP-LIMITS shapes".into());
    }
    Ok(())
}

pub fn run(sc: &Scenario) -> Outcome {
    let mut out = Outcome::ok();
    if let Err(e) = valid(sc) {
        out.label(format!("invalid-scenario:{e}"));
        return out;
    }
    let scripts = build_scripts(sc);
    let mut mon = Mon {
        sc,
        tw: TableWire::new(&sc.plan),
        fail: None,
        min_win: None,
        small_win: false,
        data_segments: 0,
        max_payload: 0,
        ends_mss: host_endpoint_mss(sc),
        wire_senders: Default::default(),
        full_beside_larger: 0,
        full_mss_seen: false,
        full_sendq_seen: false,
        full_recvq_seen: false,
        udp_emitted: Vec::new(),
        snapshots: 0,
    };
    let lim = Limits { max_rounds: 600, quiet_rounds: sc.cfg.quiet_rounds() + sc.plan.max_hold, settle: 3 };
    let log = nw::run(&sc.cfg, 2, &scripts, &mut mon, &lim);
    if std::env::var("NETWIRE_TRACE").is_ok() {
        for o in &log.obs {
            println!("r{} h{} t{} op{} {:?}", o.round, o.host, o.task, o.op, o.ev);
        }
        for p in &log.pkts {
            println!("pkt {p:?}");
        }
    }
    if let Some((sig, detail)) = mon.fail.take() {
        out.fail(sig, detail);
    }

    // WRITE clause + payload integrity of what was read (cheap extra) + UDP clause
    let mut udp_ok_sent: Vec<(usize, usize, bool)> = Vec::new(); // (host, len, lo)
    let mut udp_recvd = 0usize;
    let mut wouldblock = 0u64;
    let mut wouldblock_below_cap = 0u64;
    let mut short_writes = 0u64;
    let mut try_ok = 0u64;
    let mut udp_rejected = 0u64;
    for o in &log.obs {
        match &o.ev {
            Ev::TryWrote { len, send_q: Some(q), res, .. } => {
                let cap = sc.cfg.send_cap;
                match res {
                    Err(e) if e.is("WouldBlock") => {
                        wouldblock += 1;
                        if *q < cap {
                            wouldblock_below_cap += 1;
                        }
                        // progress: with an EMPTY send queue (nothing unsent, nothing unacknowledged)
                        // no acknowledgement will ever free more space, so a non-empty write on a
                        // connection that is open for writing must be taken (caps are >= 1)
                        if *q == 0 && *len > 0 && cap > 0 {
                            out.fail(
                                "write:WouldBlock-although-send-queue-empty",
                                format!("round {}: try_write({len}) returned WouldBlock with Send-Q 0 (nothing unsent, nothing unacknowledged: no ACK can free more space), cap {cap}", o.round),
                            );
                        }
                    }
                    Ok(n) => {
                        try_ok += 1;
                        if *q >= cap {
                            out.fail(
                                "write:accepted-bytes-although-send-queue-at-cap",
                                format!("round {}: try_write({len}) returned Ok({n}) with Send-Q {q} >= cap {cap}", o.round),
                            );
                        } else if *n > (*len).min(cap - *q) {
                            out.fail(
                                "write:accepted-count-exceeds-min(len,free-space)",
                                format!("round {}: try_write({len}) returned Ok({n}) with Send-Q {q}, cap {cap}", o.round),
                            );
                        } else if *n == 0 && *q == 0 && *len > 0 {
                            out.fail(
                                "write:Ok(0)-although-send-queue-empty",
                                format!("round {}: try_write({len}) returned Ok(0) with Send-Q 0, cap {cap}", o.round),
                            );
                        } else if *n < (*len).min(cap - *q) {
                            short_writes += 1;
                        }
                    }
                    Err(_) => {}
                }
            }
            Ev::ReadN { bad: Some(b), .. } | Ev::TryReadRes { bad: Some(b), .. } => {
                out.fail("integrity:byte-read-differs-from-byte-written", format!("offset {b}: {o:?}"));
            }
            Ev::UdpSent { len, dst, res } => {
                let lo = dst.ip().is_loopback();
                let limit = sc.cfg.udp_limit(dst.is_ipv6(), lo);
                match res {
                    Ok(n) => {
                        if *len > limit {
                            out.fail(
                                "udp:oversized-payload-was-accepted",
                                format!("send_to of {len} bytes to {dst} returned Ok({n}); limit is {limit}"),
                            );
                        } else if *n != *len {
                            out.fail("udp:send_to-returned-wrong-length", format!("send_to of {len} bytes to {dst} returned Ok({n})"));
                        }
                        udp_ok_sent.push((o.host, *len, lo));
                    }
                    Err(e) => {
                        if *len <= limit {
                            out.fail(
                                "udp:payload-within-limit-was-rejected",
                                format!("send_to of {len} bytes to {dst} failed with {e:?}; limit is {limit}"),
                            );
                        } else if e.raw != Some(90) {
                            out.fail(
                                "udp:oversized-payload-rejected-with-wrong-error",
                                format!("send_to of {len} bytes to {dst} failed with {e:?}, expected raw OS error 90 (EMSGSIZE)"),
                            );
                        }
                        udp_rejected += 1;
                    }
                }
            }
            Ev::UdpRecvd { bad, .. } => {
                udp_recvd += 1;
                if let Some(b) = bad {
                    out.fail("udp:received-payload-differs", format!("offset {b}: {o:?}"));
                }
            }
            _ => {}
        }
    }
    // every accepted cross-host datagram appears exactly once on the wire with exactly its payload,
    // and nothing else does
    let mut want: Vec<(usize, usize)> = udp_ok_sent.iter().filter(|(_, _, lo)| !*lo).map(|(h, l, _)| (*h, *l)).collect();
    let mut got: Vec<(usize, usize)> = mon.udp_emitted.iter().map(|(h, l, _)| (*h, *l)).collect();
    want.sort();
    got.sort();
    if want != got {
        out.fail(
            "udp:datagrams-on-the-wire-differ-from-accepted-sends",
            format!("accepted cross-host sends (host, len) {want:?}, seen on the wire {got:?}"),
        );
    }
    if mon.udp_emitted.iter().any(|(_, _, ok)| !*ok) {
        out.fail("udp:payload-on-the-wire-differs", format!("{:?}", mon.udp_emitted));
    }
    // loopback / cross-host receivers: every accepted datagram must have been received
    // (UDP is never dropped or delayed by this check's wire), sizes are checked via the pattern
    let expect_recv = udp_ok_sent.len();
    if log.end != nw::End::Bound && udp_recvd != expect_recv {
        out.fail(
            "udp:accepted-datagram-not-received",
            format!("{expect_recv} datagrams were accepted by send_to but {udp_recvd} were received"),
        );
    }

    // classification
    let mss = if sc.lo { sc.cfg.lo_mss(sc.v6) } else { sc.cfg.mss(sc.v6) };
    let specs = conn_specs(sc);
    let small_win = mon.small_win;
    let small_cap = specs.iter().any(|c| {
        let m = path_mss(&sc.cfg, c.scope, c.v6);
        sc.cfg.send_cap < m || sc.cfg.recv_cap < m
    });
    out.nontrivial = small_win || small_cap;
    if small_win {
        out.label("window<mss-advertised");
    }
    if mon.min_win == Some(0) {
        out.label("zero-window-advertised");
    }
    if small_cap {
        out.label("cap<mss");
    }
    if sc.cfg.send_cap != sc.cfg.recv_cap {
        out.label("asymmetric-caps");
    }
    if sc.lo {
        out.label("path:loopback");
    } else {
        out.label("path:cross-host");
    }
    out.label(if sc.v6 { "ipv6" } else { "ipv4" });
    out.label(format!("tcp-connections:{}", specs.len()));
    if specs.len() > 1 {
        let (mut v4, mut v6) = (false, false);
        for c in &specs {
            if c.v6 {
                v6 = true;
            } else {
                v4 = true;
            }
        }
        if v4 && v6 {
            out.label("conns:v4-and-v6-mixed");
        }
        let scopes: std::collections::BTreeSet<u8> = specs.iter().map(|c| c.scope).collect();
        if scopes.len() > 1 {
            out.label("conns:scopes-mixed(cross-host/loopback/own-address)");
        }
        if scopes.contains(&2) {
            out.label("conns:own-address");
        }
        if specs[0].port != PORT {
            out.label("conns:extra-created-before-primary");
        }
        if sc.extra.iter().any(|x| x.delay > 0) {
            out.label("conns:delayed-opener");
        }
    }
    for h in 0..2 {
        let mut m = mon.ends_mss[h].clone();
        m.sort();
        m.dedup();
        if m.len() > 1 {
            out.label("host-with-sockets-of-different-mss");
            // a wire-visible sender on this host whose own MSS is not the largest one there
            if mon.wire_senders.iter().any(|(sh, a)| *sh == h && sc.cfg.mss(a.is_ipv6()) < *m.last().unwrap()) {
                out.label("wire-sender-beside-larger-mss-socket");
            }
        }
    }
    if mon.full_beside_larger > 0 {
        out.label("full-mss-segment-beside-larger-mss-socket");
    }
    if mss <= 4 {
        out.label("mtu-near-header-size(mss<=4)");
    }
    if mon.full_sendq_seen {
        out.label("send-queue-reached-cap");
    }
    if mon.full_recvq_seen {
        out.label("recv-queue-reached-cap");
    }
    if wouldblock > 0 {
        out.label("try_write:WouldBlock");
    }
    if wouldblock_below_cap > 0 {
        out.label("try_write:WouldBlock-with-send-queue-below-cap(not-judged)");
    }
    if short_writes > 0 {
        out.label("try_write:Ok-with-less-than-the-free-space(not-judged)");
    }
    if try_ok > 0 {
        out.label("try_write:Ok");
    }
    if mon.full_mss_seen {
        out.label("full-mss-segment-seen");
    }
    if udp_rejected > 0 {
        out.label("udp:oversized-rejected");
    }
    if !udp_ok_sent.is_empty() {
        out.label("udp:accepted");
    }
    if sc.udp.iter().any(|p| p.delta == 0) {
        out.label("udp:exactly-at-limit");
    }
    if sc.udp.iter().any(|p| p.delta == 1) {
        out.label("udp:one-over-limit");
    }
    for p in &log.pkts {
        if p.fate == Fate::Drop {
            out.label("wire:drops");
        }
        if p.overtaken_by > 0 {
            out.label("wire:reordering");
        }
    }
    match log.end {
        nw::End::Finished => out.label("end:finished"),
        nw::End::Stalled => out.label("end:stalled(liveness is C06's business)"),
        nw::End::Bound => out.label("end:round-bound"),
    }
    if !sc.ushapes.is_empty() {
        udp_limits(sc, &mut out);
    }
    out.count("data-segments-checked", mon.data_segments);
    out.count("netstat-snapshots-checked", mon.snapshots);
    out.count("try_write-calls-checked", wouldblock + try_ok);
    out.count("udp-sends-checked", udp_rejected + udp_ok_sent.len() as u64);
    out
}

// ---------------------------------------------------------------- UDP-LIMITS phase

fn any_ip(v6: bool) -> IpAddr {
    if v6 {
        IpAddr::V6(Ipv6Addr::UNSPECIFIED)
    } else {
        IpAddr::V4(Ipv4Addr::UNSPECIFIED)
    }
}

fn ushape_len(u: &UCfg, p: &UShape) -> usize {
    let c = Cfg { mtu: u.mtu, loopback_mtu: u.loopback_mtu, ..Cfg::default() };
    let anchor = c.udp_limit(p.v6, !p.ext_anchor) as i64;
    (anchor + p.delta as i64).clamp(0, 70_000) as usize
}

/// Destination class of a shape after the loopback-bound rule: 0 loopback, 1 own address, 2 remote.
fn ushape_dst(p: &UShape) -> u8 {
    if p.bind % 3 == 1 {
        0
    } else {
        p.dst % 3
    }
}

/// Second phase: a fresh two-host `Net` with the MTU pair `sc.ucfg`; per host and family one
/// wildcard-bound receiver; the shapes are executed one after the other (bind / connect if the
/// socket of that shape does not exist yet, send, two wire rounds, receive).
fn udp_limits(sc: &Scenario, out: &mut Outcome) {
    let u = &sc.ucfg;
    if u.mtu < UMTU_MIN || u.loopback_mtu < UMTU_MIN {
        out.label("udp-limits:invalid-mtu");
        return;
    }
    let cfg = Cfg { mtu: u.mtu, loopback_mtu: u.loopback_mtu, ..Cfg::default() };
    let hosts: Vec<Vec<IpAddr>> = (0..2).map(|h| vec![nw::host_ip(h, false), nw::host_ip(h, true)]).collect();
    let mut world = World::new(cfg.kernel(), &hosts);
    out.label(match u.loopback_mtu.cmp(&u.mtu) {
        std::cmp::Ordering::Less => "udp-limits:loopback_mtu<mtu",
        std::cmp::Ordering::Equal => "udp-limits:loopback_mtu=mtu",
        std::cmp::Ordering::Greater => "udp-limits:loopback_mtu>mtu",
    });
    // receivers: index 2 * host + v6
    let mut rx: Vec<Held<UdpSocket>> = Vec::new();
    for h in 0..2 {
        for v6 in [false, true] {
            world.pin(h);
            match now_or_never(UdpSocket::bind(SocketAddr::new(any_ip(v6), URPORT))) {
                Some(Ok(s)) => rx.push(world.hold(h, s)),
                other => {
                    out.fail("udp-limits:harness:receiver-bind-failed", format!("host {h} v6 {v6}: {:?}", other.map(|r| r.map(|_| ()))));
                    return;
                }
            }
        }
    }
    // senders, by (host, v6, bind, connected destination)
    let mut tx: BTreeMap<(usize, bool, u8, Option<u8>), Held<UdpSocket>> = BTreeMap::new();
    let mut checked = 0u64;
    for (idx, p) in sc.ushapes.iter().take(MAX_USHAPES).enumerate() {
        let h = p.host % 2;
        let bind = p.bind % 3;
        let dstc = ushape_dst(p);
        let (dst_ip, dst_host) = match dstc {
            0 => (nw::lo_ip(p.v6), h),
            1 => (nw::host_ip(h, p.v6), h),
            _ => (nw::host_ip(1 - h, p.v6), 1 - h),
        };
        let dst = SocketAddr::new(dst_ip, URPORT);
        let key = (h, p.v6, bind, p.connected.then_some(dstc));
        if !tx.contains_key(&key) {
            let ip = match bind {
                0 => any_ip(p.v6),
                1 => nw::lo_ip(p.v6),
                _ => nw::host_ip(h, p.v6),
            };
            world.pin(h);
            let s = match now_or_never(UdpSocket::bind(SocketAddr::new(ip, 0))) {
                Some(Ok(s)) => world.hold(h, s),
                other => {
                    out.fail("udp-limits:harness:sender-bind-failed", format!("host {h} bind {ip}: {:?}", other.map(|r| r.map(|_| ()))));
                    return;
                }
            };
            if p.connected {
                match now_or_never(s.get().connect(dst)) {
                    Some(Ok(())) => {}
                    other => {
                        out.fail("udp-limits:harness:connect-failed", format!("host {h} socket bound to {ip} connect({dst}): {other:?}"));
                        return;
                    }
                }
            }
            tx.insert(key, s);
        } else {
            out.label("udp-limits:socket-reused");
        }
        let s = tx.get(&key).unwrap();
        let sport = s.get().local_addr().map(|a| a.port()).unwrap_or(0);
        let len = ushape_len(u, p);
        let off = 7919 * (idx as u64 + 1);
        let data: Vec<u8> = (0..len).map(|i| nw::pat(KEY_UDP2, off + i as u64)).collect();
        let res = if p.connected { now_or_never(s.get().send(&data)) } else { now_or_never(s.get().send_to(&data, dst)) };
        let Some(res) = res else {
            out.fail("udp-limits:send-did-not-complete-at-once", format!("shape {idx} {p:?}"));
            return;
        };
        let first_pkt = world.pkts.len();
        world.step(&mut AllNow);
        world.step(&mut AllNow);

        // the oracle
        let lim_lo = cfg.udp_limit(p.v6, true);
        let lim_ext = cfg.udp_limit(p.v6, false);
        let (must_accept_upto, must_reject_above) = match dstc {
            0 => (lim_lo, lim_lo),
            2 => (lim_ext, lim_ext),
            _ => (lim_lo.min(lim_ext), lim_lo.max(lim_ext)),
        };
        let bind_s = ["wildcard", "loopback", "own-address"][bind as usize];
        let dst_s = ["loopback", "own-address", "remote"][dstc as usize];
        let what = format!(
            "shape {idx}: host {h} socket bound to {bind_s} ({}) {} {len} bytes to {dst}; mtu {} loopback_mtu {}: loopback limit {lim_lo}, external limit {lim_ext}",
            if p.v6 { "v6" } else { "v4" },
            if p.connected { "connected, send of" } else { "send_to of" },
            u.mtu,
            u.loopback_mtu
        );
        out.label(format!("udp-limits:{bind_s}-bound->{dst_s}"));
        if p.connected {
            out.label("udp-limits:connected-send");
        }
        let between = len > lim_lo.min(lim_ext) && len <= lim_lo.max(lim_ext);
        if between {
            out.label("udp-limits:payload-between-the-two-limits");
            // the MTU implied by the bound address differs from the one the datagram leaves through
            if dstc == 0 && bind != 1 {
                out.label("udp-limits:between-limits+non-loopback-bound-sender->loopback");
            }
            if dstc == 1 {
                out.label("udp-limits:between-limits->own-address(unasserted)");
            }
        }
        if len == must_accept_upto {
            out.label("udp-limits:exactly-at-limit");
        }
        if len == must_reject_above + 1 {
            out.label("udp-limits:one-over-limit");
        }
        checked += 1;
        let accepted = match &res {
            Ok(n) => {
                if len > must_reject_above {
                    out.fail("udp-limits:oversized-payload-was-accepted", format!("{what}: returned Ok({n})"));
                    return;
                }
                if *n != len {
                    out.fail("udp-limits:send-returned-wrong-length", format!("{what}: returned Ok({n})"));
                    return;
                }
                out.label("udp-limits:accepted");
                true
            }
            Err(e) => {
                if len <= must_accept_upto {
                    out.fail("udp-limits:payload-within-limit-was-rejected", format!("{what}: failed with {e:?}"));
                    return;
                }
                if e.raw_os_error() != Some(90) {
                    out.fail("udp-limits:oversized-payload-rejected-with-wrong-error", format!("{what}: failed with {e:?}, expected raw OS error 90 (EMSGSIZE)"));
                    return;
                }
                out.label("udp-limits:rejected");
                false
            }
        };
        // the wire: nothing larger than the external limit of its family, and a cross-host
        // datagram appears exactly once iff it was accepted
        let wire: Vec<&PktRec> = world.pkts[first_pkt..].iter().filter(|r| r.kind == Kind::Udp).collect();
        for r in &wire {
            let l = cfg.udp_limit(r.dst.is_ipv6(), false);
            if r.len > l {
                out.fail("udp-limits:datagram-on-the-wire-exceeds-mtu", format!("{what}: wire packet {r:?} carries {} > {l} bytes", r.len));
                return;
            }
        }
        if dstc == 2 {
            let lens: Vec<usize> = wire.iter().map(|r| r.len).collect();
            let want: Vec<usize> = if accepted { vec![len] } else { vec![] };
            if lens != want {
                out.fail("udp-limits:datagrams-on-the-wire-differ-from-accepted-sends", format!("{what}: accepted {accepted}, wire payload lengths {lens:?}"));
                return;
            }
        }
        // the receiver
        let r = &rx[2 * dst_host + p.v6 as usize];
        let mut buf = vec![0u8; len + 64];
        let got = r.get().try_recv_from(&mut buf);
        match (accepted, got) {
            (true, Ok((n, from))) => {
                if n != len || buf[..n] != data[..] {
                    out.fail("udp-limits:received-payload-differs", format!("{what}: received {n} bytes from {from}"));
                    return;
                }
                if from.port() != sport {
                    out.fail("udp-limits:received-from-unexpected-port", format!("{what}: sender port {sport}, received from {from}"));
                    return;
                }
                if let Ok((n2, from2)) = r.get().try_recv_from(&mut buf) {
                    out.fail("udp-limits:datagram-delivered-twice", format!("{what}: a second datagram of {n2} bytes from {from2} was queued"));
                    return;
                }
            }
            (true, Err(e)) => {
                out.fail("udp-limits:accepted-datagram-not-received", format!("{what}: try_recv_from on host {dst_host}: {e:?}"));
                return;
            }
            (false, Ok((n, from))) => {
                out.fail("udp-limits:rejected-datagram-was-delivered", format!("{what}: {n} bytes from {from} were received"));
                return;
            }
            (false, Err(_)) => {}
        }
    }
    out.count("udp-limits-sends-checked", checked);
    drop(tx);
    drop(rx);
}

// ---------------------------------------------------------------- generators

fn cfg_strategy() -> BoxedStrategy<(Cfg, bool)> {
    let cap = || {
        prop_oneof![
            2 => Just(1usize),
            3 => 2usize..=6,
            3 => 7usize..=40,
            2 => 41usize..=200,
            1 => Just(65536usize),
        ]
    };
    (
        any::<bool>(),
        // TCP payload room of the external interface: emphasis near the header size
        prop_oneof![3 => Just(1u32), 3 => 2u32..=4, 3 => 5u32..=20, 2 => 21u32..=100, 1 => Just(1460u32)],
        // loopback payload room (v6 headers always fit)
        prop_oneof![2 => 1u32..=8, 2 => 9u32..=64, 1 => 65u32..=2000, 1 => Just(65476u32)],
        cap(),
        cap(),
        1u32..=4,
        2u32..=5,
    )
        .prop_map(|(v6, mss, lomss, send_cap, recv_cap, t, m)| {
            let hdr = if v6 { 60 } else { 40 };
            (Cfg { mtu: hdr + mss, loopback_mtu: 60 + lomss, send_cap, recv_cap, retx_threshold: t, retx_max: m }, v6)
        })
        .boxed()
}

fn side_strategy() -> BoxedStrategy<Side> {
    let w = prop_oneof![
        4 => (1u32..=60).prop_map(WOp::Write),
        1 => (100u32..=400).prop_map(WOp::Write),
        4 => (1u32..=80).prop_map(WOp::TryWrite),
        2 => (1u8..=3).prop_map(WOp::Sleep),
    ];
    let r = prop_oneof![
        3 => (1u16..=30).prop_map(ROp::Read),
        2 => (1u16..=40).prop_map(ROp::TryRead),
        3 => (1u8..=4).prop_map(ROp::Sleep),
    ];
    (
        proptest::collection::vec(w, 0..7),
        proptest::collection::vec(r, 0..6),
        proptest::collection::vec(prop_oneof![2 => Just(1u16), 3 => 2u16..=8, 2 => 9u16..=64, 2 => Just(2048u16)], 1..3),
    )
        .prop_map(|(w, r, bufs)| Side { w, r, bufs })
        .boxed()
}

fn plan_strategy() -> BoxedStrategy<FatePlan> {
    let fate = prop_oneof![6 => Just(Fate::Now), 4 => (1u32..=5).prop_map(Fate::Hold), 1 => Just(Fate::Drop)];
    (
        proptest::collection::vec(fate, 0..60),
        prop_oneof![1 => Just(Vec::new()), 2 => proptest::collection::vec(0u8..4, 0..60)],
        0u32..=2,
        0u32..=5,
    )
        .prop_map(|(by_id, prio, max_drops, max_hold)| FatePlan { by_id, by_kind: vec![], prio, max_drops, max_hold, blackhole: None })
        .boxed()
}

fn udp_strategy() -> BoxedStrategy<Vec<UdpProbe>> {
    proptest::collection::vec(
        (
            0usize..2,
            prop_oneof![2 => Just(false), 1 => Just(true)],
            any::<bool>(),
            prop_oneof![3 => Just(0i32), 3 => Just(1i32), 2 => -3i32..=-1, 2 => 2i32..=40, 1 => -200i32..=-4, 1 => Just(70_000i32)],
        )
            .prop_map(|(from, lo, v6, delta)| UdpProbe { from, lo, v6, delta }),
        0..5,
    )
    .boxed()
}

/// MTU pair of the UDP-LIMITS phase: external MTU 48..=1500 (emphasis near the header size), the
/// loopback MTU smaller (4/10), equal (2/10), up to 200 bytes larger (3/10) or the default 65536.
fn ucfg_strategy() -> BoxedStrategy<UCfg> {
    (
        prop_oneof![2 => UMTU_MIN..=56, 3 => 57u32..=200, 1 => 201u32..=1499, 1 => Just(1500u32)],
        prop_oneof![4 => Just(0u8), 2 => Just(1u8), 3 => Just(2u8), 1 => Just(3u8)],
        any::<u32>(),
    )
        .prop_map(|(mtu, rel, r)| UCfg { mtu, loopback_mtu: ucfg_lo(mtu, rel, r) })
        .boxed()
}

/// Loopback MTU from the external one (shared with `fuzz_sanitize`).
fn ucfg_lo(mtu: u32, rel: u8, r: u32) -> u32 {
    match rel % 4 {
        0 if mtu > UMTU_MIN => UMTU_MIN + r % (mtu - UMTU_MIN),
        0 | 1 => mtu,
        2 => mtu + 1 + r % 200,
        _ => 65_536,
    }
}

fn ushape_delta_strategy() -> BoxedStrategy<i32> {
    prop_oneof![3 => Just(0i32), 3 => Just(1i32), 2 => Just(-1i32), 1 => -3i32..=-2, 1 => 2i32..=40, 1 => -200i32..=-4].boxed()
}

fn ushapes_strategy() -> BoxedStrategy<Vec<UShape>> {
    proptest::collection::vec(
        (
            0usize..2,
            any::<bool>(),
            prop_oneof![3 => Just(0u8), 1 => Just(1u8), 2 => Just(2u8)],
            prop_oneof![2 => Just(false), 1 => Just(true)],
            prop_oneof![3 => Just(0u8), 1 => Just(1u8), 2 => Just(2u8)],
            any::<bool>(),
            ushape_delta_strategy(),
        )
            .prop_map(|(host, v6, bind, connected, dst, ext_anchor, delta)| UShape { host, v6, bind, connected, dst: if bind == 1 { 0 } else { dst }, ext_anchor, delta }),
        0..=MAX_USHAPES,
    )
    .boxed()
}

fn xconn_strategy() -> BoxedStrategy<XConn> {
    (
        0usize..2,
        prop_oneof![3 => Just(0u8), 2 => Just(1u8), 1 => Just(2u8)],
        any::<bool>(),
        prop_oneof![3 => Just(0u8), 2 => 1u8..=3],
        any::<bool>(),
        side_strategy(),
        side_strategy(),
    )
        .prop_map(|(ch, scope, v6, delay, first, client, server)| XConn { ch, scope, v6, delay, first, client, server })
        .boxed()
}

fn extra_strategy() -> BoxedStrategy<Vec<XConn>> {
    prop_oneof![
        2 => Just(Vec::new()),
        3 => proptest::collection::vec(xconn_strategy(), 1),
        3 => proptest::collection::vec(xconn_strategy(), 2),
        1 => proptest::collection::vec(xconn_strategy(), MAX_EXTRA),
    ]
    .boxed()
}

/// Make the configuration admissible for the connections (shared with `fuzz_sanitize`): an
/// IPv6 connection through the external interface needs more than 60 bytes of MTU.
fn fit_mtu(sc: &mut Scenario) {
    let v6_external = sc.v6 || sc.extra.iter().any(|x| x.v6 && x.scope % 3 != 1);
    if v6_external && sc.cfg.mtu <= 60 {
        // v6 keeps the payload room that was drawn for v4, v4 gets 20 bytes more
        sc.cfg.mtu += 20;
    }
}

pub fn strategy() -> BoxedStrategy<Scenario> {
    (
        cfg_strategy(),
        prop_oneof![4 => Just(false), 1 => Just(true)],
        side_strategy(),
        side_strategy(),
        plan_strategy(),
        udp_strategy(),
        extra_strategy(),
        ucfg_strategy(),
        ushapes_strategy(),
    )
        .prop_map(|((mut cfg, v6), lo, client, server, plan, mut udp, extra, ucfg, ushapes)| {
            // keep oversized UDP payload buffers small unless the loopback MTU is the default
            for p in udp.iter_mut() {
                if p.delta > 1000 && (p.lo && cfg.loopback_mtu > 10_000) {
                    p.delta = 1;
                }
            }
            if cfg.loopback_mtu > 65_536 {
                cfg.loopback_mtu = 65_536;
            }
            let mut sc = Scenario { cfg, v6, lo, client, server, plan, udp, extra, ucfg, ushapes };
            fit_mtu(&mut sc);
            sc
        })
        .boxed()
}

/// Bounded family: every pair of path kinds side by side on host 0, in both creation orders.
/// The primary connection (opened by host 0: cross-host or loopback, v4 or v6) runs next to one
/// extra connection (cross-host opened by host 0 or by host 1, loopback or own address of host 0,
/// v4 or v6), the extra one created before or after the primary, under three MTU settings
/// (defaults; external < loopback; external > loopback).  Both ends of both connections write
/// three bursts of several MSS, one round apart, into buffers that take it all, so that sockets
/// of both connections have more than one MSS unsent in the same egress pass.
fn pair_space() -> Vec<Scenario> {
    let mut v = Vec::new();
    for (mtu, lomtu) in [(1500u32, 65_536u32), (100, 300), (300, 100)] {
        let cfg = Cfg { mtu, loopback_mtu: lomtu, send_cap: 65_536, recv_cap: 65_536, retx_threshold: 3, retx_max: 5 };
        let n = 3 * cfg.mss(false).max(cfg.lo_mss(false)).min(3000) as u32 + 7;
        // three bursts one round apart: a loopback connection is established (and flushes every
        // burst) inside one egress pass, a cross-host one two rounds later, so bursts overlap
        let side = || Side { w: vec![WOp::Write(n), WOp::Sleep(1), WOp::Write(n), WOp::Sleep(1), WOp::Write(n)], r: vec![], bufs: vec![2048] };
        for plo in [false, true] {
            for pv6 in [false, true] {
                // (opener host, scope)
                for (xch, xscope) in [(0usize, 0u8), (1, 0), (0, 1), (0, 2)] {
                    for xv6 in [false, true] {
                        for first in [false, true] {
                            v.push(Scenario {
                                cfg: cfg.clone(),
                                v6: pv6,
                                lo: plo,
                                client: side(),
                                server: side(),
                                plan: FatePlan::default(),
                                udp: vec![],
                                extra: vec![XConn { ch: xch, scope: xscope, v6: xv6, delay: 0, first, client: side(), server: side() }],
                                ucfg: UCfg::default(),
                                ushapes: vec![],
                            });
                        }
                    }
                }
            }
        }
    }
    v
}

/// Bounded family of the UDP-LIMITS phase: MTU pair (loopback smaller / equal / larger / defaults)
/// x family x sender binding (wildcard | loopback | own address) x (send_to | connect + send) x
/// destination (loopback | own address | other host) x sending host; each scenario sends, from one
/// socket, the six payload sizes limit-1, limit, limit+1 around the loopback limit and around the
/// external limit.  The TCP phase is an idle connection.
fn udp_limit_space() -> Vec<Scenario> {
    let mut v = Vec::new();
    let idle = || Side { w: vec![], r: vec![], bufs: vec![2048] };
    for (mtu, lomtu) in [(300u32, 100u32), (100, 100), (100, 300), (49, 48), (1500, 65_536)] {
        for v6 in [false, true] {
            for bind in 0..3u8 {
                for connected in [false, true] {
                    for dst in 0..3u8 {
                        if bind == 1 && dst != 0 {
                            continue;
                        }
                        for host in 0..2usize {
                            let mut ushapes = Vec::new();
                            for ext_anchor in [false, true] {
                                for delta in [-1i32, 0, 1] {
                                    ushapes.push(UShape { host, v6, bind, connected, dst, ext_anchor, delta });
                                }
                            }
                            v.push(Scenario {
                                cfg: Cfg::default(),
                                v6: false,
                                lo: false,
                                client: idle(),
                                server: idle(),
                                plan: FatePlan::default(),
                                udp: vec![],
                                extra: vec![],
                                ucfg: UCfg { mtu, loopback_mtu: lomtu },
                                ushapes,
                            });
                        }
                    }
                }
            }
        }
    }
    v
}

/// Clamp a structurally decoded scenario (engine::bytesde) into exactly the domain of
/// `strategy()` (sub `monitors`): the configuration ranges of `cfg_strategy` (mtu = header of the
/// primary connection's family + 1..=100 | 1460 bytes of payload room, loopback_mtu = 60 + 1..=2000
/// | 65476, caps 1..=200 | 65536, retx 1..=4 / 2..=5), the program ranges of `side_strategy`
/// (write_all of 1..=60 | 100..=400 bytes, reader buffers 1..=64 | 2048), `plan_strategy` (no
/// by_kind table, no black-holing), `udp_strategy` (limit-200..=limit+40 | limit+70000),
/// `extra_strategy` (0..=MAX_EXTRA connections), `ucfg_strategy` / `ushapes_strategy` (the
/// UDP-LIMITS phase: mtu 48..=1500, loopback_mtu 48..=mtu | mtu+1..=mtu+200 | 65536, 0..=6 shapes,
/// payload limit-200..=limit+40) and the adjustments of `strategy()`'s own `prop_map` (UDP
/// guard, `fit_mtu`).
pub fn fuzz_sanitize(sc: &mut Scenario) -> bool {
    let hdr = if sc.v6 { 60 } else { 40 };
    let mss = match sc.cfg.mtu % 108 {
        x @ 0..=99 => x + 1,
        _ => 1460,
    };
    let lomss = match sc.cfg.loopback_mtu % 2008 {
        x @ 0..=1999 => x + 1,
        _ => 65_476,
    };
    let cap = |c: usize| match c % 210 {
        x @ 0..=199 => x + 1,
        _ => 65_536,
    };
    sc.cfg = Cfg {
        mtu: hdr + mss,
        loopback_mtu: (60 + lomss).min(65_536),
        send_cap: cap(sc.cfg.send_cap),
        recv_cap: cap(sc.cfg.recv_cap),
        retx_threshold: 1 + sc.cfg.retx_threshold % 4,
        retx_max: 2 + sc.cfg.retx_max % 4,
    };
    fn fix_side(s: &mut Side) {
        s.w.truncate(6);
        for w in s.w.iter_mut() {
            match w {
                // the generator draws 1..=60 (4/5) or 100..=400 (1/5)
                WOp::Write(n) => *n = if *n % 8 == 7 { 100 + (*n / 8) % 301 } else { 1 + (*n / 8) % 60 },
                WOp::TryWrite(n) => *n = 1 + *n % 80,
                WOp::Sleep(k) => *k = 1 + *k % 3,
            }
        }
        s.r.truncate(5);
        for r in s.r.iter_mut() {
            match r {
                ROp::Read(n) => *n = 1 + *n % 30,
                ROp::TryRead(n) => *n = 1 + *n % 40,
                ROp::Sleep(k) => *k = 1 + *k % 4,
            }
        }
        s.bufs.truncate(2);
        if s.bufs.is_empty() {
            s.bufs.push(2048);
        }
        for b in s.bufs.iter_mut() {
            *b = match *b % 72 {
                x @ 0..=63 => x + 1,
                _ => 2048,
            };
        }
    }
    fix_side(&mut sc.client);
    fix_side(&mut sc.server);
    sc.extra.truncate(MAX_EXTRA);
    for x in sc.extra.iter_mut() {
        x.ch %= 2;
        x.scope %= 3;
        x.delay %= 4;
        fix_side(&mut x.client);
        fix_side(&mut x.server);
    }
    sc.plan.by_id.truncate(59);
    for f in sc.plan.by_id.iter_mut() {
        if let Fate::Hold(k) = f {
            *k = 1 + *k % 5;
        }
    }
    sc.plan.by_kind.clear();
    sc.plan.prio.truncate(59);
    for p in sc.plan.prio.iter_mut() {
        *p %= 4;
    }
    sc.plan.max_drops %= 3;
    sc.plan.max_hold %= 6;
    sc.plan.blackhole = None;
    sc.udp.truncate(4);
    for p in sc.udp.iter_mut() {
        p.from %= 2;
        // 0 | 1 | -3..=-1 | 2..=40 | -200..=-4 | 70000, roughly with the generator's weights
        let x = p.delta as u32;
        let y = (x / 16) as i32;
        p.delta = match x % 16 {
            0..=3 => 0,
            4..=7 => 1,
            8 | 9 => -(1 + y % 3),
            10 | 11 => 2 + y % 39,
            12..=14 => -(4 + y % 197),
            _ => 70_000,
        };
        // same guard as the generator: no 130 KB buffers on a default-sized loopback
        if p.delta > 1000 && p.lo && sc.cfg.loopback_mtu > 10_000 {
            p.delta = 1;
        }
    }
    // UDP-LIMITS phase: `ucfg_strategy` (mtu 48..=1500; loopback_mtu below / equal / 1..=200 above /
    // 65536, selected by the two low bits of the decoded value) and `ushapes_strategy`
    let mtu = UMTU_MIN + sc.ucfg.mtu % (1500 - UMTU_MIN + 1);
    let lo = sc.ucfg.loopback_mtu;
    // relation weights 4 : 2 : 3 : 1 like the generator
    let rel = match lo % 10 {
        0..=3 => 0,
        4 | 5 => 1,
        6..=8 => 2,
        _ => 3,
    };
    sc.ucfg = UCfg { mtu, loopback_mtu: ucfg_lo(mtu, rel, lo / 10) };
    sc.ushapes.truncate(MAX_USHAPES);
    for p in sc.ushapes.iter_mut() {
        p.host %= 2;
        p.bind %= 3;
        p.dst = if p.bind == 1 { 0 } else { p.dst % 3 };
        // 0 | 1 | -1 | -3..=-2 | 2..=40 | -200..=-4, roughly with the generator's weights
        let x = p.delta as u32;
        let y = (x / 16) as i32;
        p.delta = match x % 16 {
            0..=3 => 0,
            4..=7 => 1,
            8..=10 => -1,
            11 | 12 => -(2 + y % 2),
            13 | 14 => 2 + y % 39,
            _ => -(4 + y % 197),
        };
    }
    fit_mtu(sc);
    valid(sc).is_ok()
}

fn check(tier: Tier, seed: u64) -> i32 {
    let ctx = Ctx::new("C16", tier, seed, "exploration");
    ctx.replay_corpus(&replay);
    ctx.random("monitors", tier.pick(12_000, 80_000), &|| strategy(), &run);
    let space = pair_space();
    let desc = format!(
        "{} scenarios: primary connection (cross-host | loopback) x (v4 | v6) beside one extra connection (cross-host opened by either host | loopback | own address) x (v4 | v6), extra created before | after the primary, x 3 MTU settings (1500/65536, 100/300, 300/100); all four writers queue three bursts of > 3 MSS, one round apart",
        space.len()
    );
    ctx.exhaustive("mss-pairs", &desc, Box::new(space.into_iter()), &run);
    let uspace = udp_limit_space();
    let udesc = format!(
        "{} scenarios: (mtu/loopback_mtu 300/100 | 100/100 | 100/300 | 49/48 | 1500/65536) x (v4 | v6) x sender bound to (wildcard | loopback | own address) x (send_to | connect + send) x destination (loopback | own address | other host; loopback-bound senders: loopback only) x sending host; six datagrams per scenario from one socket: limit-1, limit, limit+1 around the loopback limit and around the external limit",
        uspace.len()
    );
    ctx.exhaustive("udp-limits", &udesc, Box::new(uspace.into_iter()), &run);
    ctx.finish(
        "random scenarios: KernelConfig (mtu = headers + 1..1460 with emphasis on 1-4 bytes of payload room, loopback_mtu likewise, send/recv caps 1..64K chosen independently, v4/v6) x one primary TCP connection cross-host (80%) or over loopback (20%) plus 0-3 further concurrent TCP connections (each opened by either host, cross-host / over the opener's loopback / to the opener's own address, v4 or v6 independently of the primary, connect delayed 0-3 rounds, tasks placed before or after the primary's so that sockets with different MSS — v4 vs v6, external vs loopback — coexist on one host in every creation order), every connection in both directions, writers mixing write_all, try_write bursts and pauses, readers mixing exact reads, try_read and pauses (so windows shrink, close and re-open) x fate plan (holds 1-5 rounds, delivery priorities, <= 2 drops) x 0-4 UDP sends of limit-200..limit+40 (and 70 000) bytes cross-host and to loopback, v4 and v6, from sockets bound to the address of the interface they send through; then a second phase on a fresh Net with its own MTU pair (mtu 48..1500; loopback_mtu smaller 40% / equal 20% / up to 200 larger 30% / 65536 10%): 0-6 UDP datagrams, each from host 0 or 1, v4 or v6, from a socket bound to the wildcard address / loopback / the host's own address (port 0, sockets reused by equal shapes), unconnected (send_to) or connected (send), to loopback / the sender's own address / the other host, payload = (loopback limit | external limit) + (-200..+40, emphasis on -1, 0, +1); plus the bounded families 'mss-pairs' (all pairs of path kinds side by side on one host, both creation orders, 3 MTU settings, bulk writes) and 'udp-limits' (every sender binding x destination x family x connectedness x 5 MTU pairs, sizes limit-1/limit/limit+1 around both limits). Non-trivial = a window smaller than the MSS of its path was advertised at least once or a cap is smaller than the MSS of one of the connections; distinct by scenario hash.",
        &[
            "loopback and own-address segments are folded back inside Kernel::egress and never reach the harness: on those paths only the cap and try_write clauses are checked, not MSS or window; such connections still share the host's socket table with the wire-visible ones",
            "the expected MSS of a wire segment is mtu - 20 (IPv4 source) or - 40 (IPv6 source) - 20, from the segment's own source address; if an extra IPv6 connection uses the external interface the generator raises an MTU <= 60 by 20 so that every connection has >= 1 byte of payload room",
            "una/W of the window clause are computed from segments already *delivered* to the sender (the harness is the wire); a FIN is not counted as a byte in flight",
            "the try_write clause is evaluated only when the connection is visible in netstat just before the call (an aborted/closed socket is hidden) and the call did not fail for another reason (so the connection is open for writing). Safety is exact: no Ok while Send-Q >= send_buf_cap, never more than min(len, cap - Send-Q) bytes accepted. Progress is asserted only where no admission policy can excuse a refusal: WouldBlock (or Ok(0)) for a non-empty write while Send-Q is 0 -- nothing unsent and nothing unacknowledged, so no acknowledgement can ever free more space. The property says writes beyond the cap wait 'until acknowledgements free space'; it does not promise that a write is taken as soon as any byte is free, nor that one call fills all the free space, so WouldBlock at 0 < Send-Q < cap (write low-water mark) and short writes are counted as classes but not judged",
            "UDP datagrams are never dropped or delayed by this check; MTU payload room >= 1 byte, caps >= 1",
            "UDP-LIMITS phase: the limit of a datagram is that of the interface it leaves through, decided by its DESTINATION (127.0.0.0/8, ::1: loopback_mtu - ip header - 8; another host: mtu - ip header - 8), never by the address the sending socket happens to be bound to; for a datagram to the sender's own routable address the docs name neither MTU (turmoil uses mtu, Linux would route it over lo), so only 'accepted up to the smaller limit, rejected beyond the larger' is asserted there; both MTUs >= 48 so that the limit is >= 0 for both families; a loopback-bound sender only sends to loopback; source addresses are not judged here (C17), only the source port",
            "liveness is not judged here (C06); a stalled or aborted connection still has all monitors applied on every round",
        ],
    )
}

fn replay(_sub: &str, v: &Value) -> Result<Outcome, String> {
    replay_as::<Scenario>(v, &run)
}

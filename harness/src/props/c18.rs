//! C18 — every io_uring submission completes exactly once with the right
//! result.  DESIGN.md §6 C18.
//!
//! Two drivers live in this file (nothing else in the harness is needed):
//!
//! * **direct** (primary): the harness owns `now`.  One `Fs` + one
//!   `IoUringHostState` are entered through `turmoil_fs::enter{now}` /
//!   `turmoil_io_uring::host::enter{now}` for every single action; advancing
//!   the clock is "enter again with a larger `now`".  A *twin* `Fs` with the
//!   same configuration receives every completed read/write/fsync through the
//!   synchronous std shim (`read_at` / `write_at` / `sync_all`) at the moment
//!   the CQE is yielded, i.e. in CQE completion order (the crate documents
//!   that side effects run at `next()` time, in completion order).
//! * **sim** (secondary): the same kind of workload inside a `turmoil::Sim`
//!   host through `turmoil::io_uring` with `AsyncFd::readable` loops and
//!   `Sim::crash` / `Sim::bounce`; visibility is quantised to steps.
//!
//! What the oracle takes from the crate's own documentation (and nothing
//! more):
//!   * unsupported SQE flags complete with `-EINVAL` and have no effect;
//!   * `AsyncCancel` of an entry that is submitted and not yet yielded (either
//!     still maturing or matured-but-undrained): the target completes once
//!     with `-ECANCELED` without executing, the cancel with `0`; otherwise the
//!     cancel completes with `-ENOENT` (sim.rs rustdoc of `cancel`);
//!   * an op whose file was closed before its CQE is yielded completes with
//!     `-EBADF` (sim.rs "Divergence from real Linux: fd lifetime");
//!   * latency: `0` without `io_latency`, else within `[min, max]`; ~100 ns
//!     for a read that hits the page cache, which is only possible for a page
//!     touched by an earlier submitted read/write;
//!   * a dropped ring takes its unfinished entries with it (nothing can be
//!     observed any more; they must not surface anywhere else);
//!   * the ring only sees a raw fd: whatever access mode the handle was opened
//!     with (read / write / append in any combination `OpenOptions` accepts,
//!     O_DIRECT, any legal creation flags, directly or through `try_clone`),
//!     the ring op does what `read_at` / `write_at` at the same offset does
//!     on an identically opened handle of the twin — same byte count and file
//!     effect when the synchronous call succeeds, `-EBADF` and no effect when
//!     it is refused for the access mode.

use crate::engine::{pick, replay_as, Ctx, Outcome, Tier};
use proptest::prelude::*;
use serde::{Deserialize, Serialize};
use serde_json::Value;
use std::collections::{BTreeMap, BTreeSet};
use std::os::fd::{AsRawFd, RawFd};
use std::os::unix::fs::FileExt;
use std::sync::{Arc, Mutex};
use std::time::Duration;
use turmoil_fs::shim::std::fs as sfs;
use turmoil_fs::{Fs, FsConfig};
use turmoil_io_uring::host::IoUringHostState;
use turmoil_io_uring::{opcode, squeue, types, IoUring};

pub const PROP: super::Prop = super::Prop {
    id: "C18",
    level: "exploration",
    check,
    replay,
};

const EINVAL: i32 = -22;
const ECANCELED: i32 = -125;
const ENOENT: i32 = -2;
const EBADF: i32 = -9;
const ENOSPC: i32 = -28;
const SENTINEL: u8 = 0xA5;
const HIT_NS: u64 = 100;
const BASE_NS: u64 = 1_000_000_000;
const MODE_DIRECT: u8 = 4;
const MODE_APPEND: u8 = 8;
const MODE_CREATION_SHIFT: u8 = 4;
const MODE_CLONE: u8 = 64;

// ───────────────────────── scenario ─────────────────────────

#[derive(Clone, Debug, Serialize, Deserialize, PartialEq)]
pub enum Lat {
    None,
    Fixed(u64),
    /// (min ns, span ns, lambda*10)
    Range(u64, u64, u8),
}

impl Lat {
    fn min(&self) -> u64 {
        match self {
            Lat::None => 0,
            Lat::Fixed(v) => *v,
            Lat::Range(a, _, _) => *a,
        }
    }
    fn max(&self) -> u64 {
        match self {
            Lat::None => 0,
            Lat::Fixed(v) => *v,
            Lat::Range(a, s, _) => a + s,
        }
    }
}

#[derive(Clone, Debug, Serialize, Deserialize)]
pub struct Cache {
    pub page_size: u64,
    pub max_pages: usize,
    pub evict_pct: u8,
}

/// A clock advance, resolved against the latency configuration so that the
/// exact boundaries (`min-1`, `min`, `max`, 99/100 ns) are hit often.
#[derive(Clone, Debug, Serialize, Deserialize)]
pub enum Dt {
    Zero,
    Ns(u32),
    MinM1,
    Min,
    Max,
    MaxP1,
    HitM1,
    Hit,
}

#[derive(Clone, Debug, Serialize, Deserialize)]
pub enum Target {
    /// one of the entries of this ring that is queued or submitted and not yet yielded
    Pending(u16),
    /// any user_data ever issued on this ring (possibly long completed)
    Any(u16),
    /// a user_data living on another ring
    OtherRing(u16),
    /// the cancel's own user_data
    SelfRef,
    /// a user_data nobody ever used
    Bogus,
}

#[derive(Clone, Debug, Serialize, Deserialize)]
pub enum Act {
    Read { ring: u8, file: u8, off: u16, len: u8, flag: u8 },
    Write { ring: u8, file: u8, off: u16, len: u8, fill: u8, flag: u8 },
    Fsync { ring: u8, file: u8, flag: u8 },
    Cancel { ring: u8, target: Target, flag: u8 },
    Submit { ring: u8, how: u8 },
    Advance(Dt),
    /// `sync` (optional) then `next()` up to k times (k = 0: until `None`)
    Drain { ring: u8, k: u8, sync: bool },
    /// sync, take k1, advance the clock, take k2 more from the same handle
    DrainSplit { ring: u8, k1: u8, dt: Dt, k2: u8 },
    ShimWrite { file: u8, off: u16, len: u8, fill: u8 },
    /// `std::io::Write::write` through the handle: appends on an append-mode
    /// handle, writes at the handle's cursor otherwise (same call on the twin)
    ShimAppend { file: u8, len: u8, fill: u8 },
    ShimSync { file: u8 },
    Close { file: u8 },
    Reopen { file: u8 },
    DropRing { ring: u8 },
    /// create a ring in slot `ring` or, if that one is occupied, in the next empty slot
    NewRing { ring: u8, entries: u8 },
    /// ring churn: drop the ring in slot `ring` (if any), then create `n` rings
    /// in empty slots, one after the other
    Churn { ring: u8, n: u8, entries: u8 },
    Crash,
}

#[derive(Clone, Debug, Serialize, Deserialize)]
pub struct Scenario {
    pub seed: u64,
    pub lat: Lat,
    pub cache: Option<Cache>,
    pub capacity: Option<u64>,
    /// requested `entries` (1..=8) of the rings that exist from the start (1-4)
    pub rings: Vec<u8>,
    /// additional ring slots that start empty and are filled by `NewRing` /
    /// `Churn` (rings + spare slots <= 4)
    #[serde(default)]
    pub spare_slots: u8,
    /// per file: (initial content length, fill, made durable before the run)
    pub files: Vec<(u8, u8, bool)>,
    pub acts: Vec<Act>,
    /// per file, the kind of handle used for ring ops (see `open_mode`): bits
    /// 0-1 read/write access (0 read+write, 1 read, 2 write, 3 neither: only
    /// together with append), bit 2 O_DIRECT, bit 3 append, bits 4-5 creation
    /// variant (0 `create` where the access mode allows it, 1 open an existing
    /// file without `create`, 2 `create` + `truncate`, 3 `create_new` on a free
    /// name), bit 6 the handle is a `try_clone` of the opened one
    #[serde(default)]
    pub modes: Vec<u8>,
}

// ───────────────────────── direct driver ─────────────────────────

#[derive(Clone, Debug)]
enum Kind {
    Read { slot: usize, gen: u32, off: u64, buf: usize },
    Write { slot: usize, gen: u32, off: u64, buf: usize },
    Fsync { slot: usize, gen: u32 },
    Cancel { target: u64 },
}

#[derive(Clone, Debug)]
struct Pushed {
    ud: u64,
    kind: Kind,
    bad_flag: bool,
}

#[derive(Clone, Debug)]
enum Expect {
    /// execute against the twin at yield time and compare
    Exec,
    Fixed(i32),
}

#[derive(Clone, Debug)]
struct Outst {
    kind: Kind,
    expect: Expect,
    submit_ns: u64,
    lmin: u64,
    /// upper bound of the op's latency (for the "surely matured" label only)
    lmax: u64,
    seq: u64,
    cancelled: bool,
}

struct RingM {
    ring: Option<IoUring>,
    /// creation number of the ring currently in this slot
    born: u64,
    depth: usize,
    requested: u8,
    sq: Vec<Pushed>,
    outstanding: BTreeMap<u64, Outst>,
    issued: Vec<u64>,
    seq: u64,
}

struct FileM {
    path: String,
    /// access mode used by `open_file` (see `open_mode`)
    mode: u8,
    real: Option<sfs::File>,
    twin: Option<sfs::File>,
    gen: u32,
    last_fd: RawFd,
}

struct World {
    fs: Arc<Mutex<Fs>>,
    iou: Arc<Mutex<IoUringHostState>>,
    twin: Arc<Mutex<Fs>>,
    now_ns: u64,
}

impl World {
    fn now(&self) -> Duration {
        Duration::from_nanos(self.now_ns)
    }
    /// Run `f` with the real Fs and the ring registry entered at the current `now`.
    fn real<R>(&self, f: impl FnOnce() -> R) -> R {
        let _g = turmoil_fs::enter(
            &self.fs,
            turmoil_fs::EnterCtx { now: self.now(), on_corruption: None },
        );
        let _h = turmoil_io_uring::host::enter(
            &self.iou,
            turmoil_io_uring::host::EnterCtx { now: self.now() },
        );
        f()
    }
    /// Run `f` with the twin Fs entered (nests inside `real`).
    fn twin<R>(&self, f: impl FnOnce() -> R) -> R {
        let _g = turmoil_fs::enter(
            &self.twin,
            turmoil_fs::EnterCtx { now: self.now(), on_corruption: None },
        );
        f()
    }
}

fn fs_config(sc: &Scenario) -> FsConfig {
    fs_config_of(&sc.lat, &sc.cache, sc.capacity)
}

fn fs_config_of(lat: &Lat, cache: &Option<Cache>, capacity: Option<u64>) -> FsConfig {
    let mut c = FsConfig::default();
    c.direct_io_alignment(1);
    match lat {
        Lat::None => {}
        Lat::Fixed(v) => {
            c.io_latency()
                .min_latency(Duration::from_nanos(*v))
                .max_latency(Duration::from_nanos(*v));
        }
        Lat::Range(a, s, l) => {
            c.io_latency()
                .min_latency(Duration::from_nanos(*a))
                .max_latency(Duration::from_nanos(a + s))
                .distribution((*l).max(1) as f64 / 10.0);
        }
    }
    if let Some(pc) = cache {
        c.page_cache()
            .page_size(pc.page_size.max(1))
            .max_pages(pc.max_pages.max(1))
            .random_eviction_probability((pc.evict_pct.min(100) as f64) / 100.0);
    }
    if let Some(cap) = capacity {
        c.capacity(cap);
    }
    c
}

fn open_rw(path: &str) -> std::io::Result<sfs::File> {
    sfs::OpenOptions::new().read(true).write(true).create(true).open(path)
}

/// (read, write, append) of a mode byte.  Every combination std's
/// `OpenOptions` accepts is reachable: read+write, read, write, and each of
/// them (and "neither") together with append.
fn access_of(mode: u8) -> (bool, bool, bool) {
    let append = mode & MODE_APPEND != 0;
    match (mode & 3, append) {
        (1, _) => (true, false, append),
        (2, _) => (false, true, append),
        (3, true) => (false, false, true),
        // "neither" without append is not an access mode: read+write
        _ => (true, true, append),
    }
}

fn mode_name(mode: u8) -> &'static str {
    match access_of(mode) {
        (true, true, false) => "read+write",
        (true, false, false) => "read-only",
        (false, true, false) => "write-only",
        (false, false, true) => "append-only",
        (true, false, true) => "read+append",
        (false, true, true) => "write+append",
        (true, true, true) => "read+write+append",
        (false, false, false) => unreachable!("access_of never yields no access"),
    }
}

/// Open `path` the way the mode byte says (see `Scenario::modes`).  The
/// configured O_DIRECT alignment is 1, so nothing is misaligned.  The options
/// are always a combination std accepts (creation flags need write or append,
/// truncate needs write without append unless `create_new` is set); where the
/// requested creation variant is not legal for the access mode the file is
/// created beforehand through a read+write handle and opened without flags.
fn open_mode(path: &str, mode: u8) -> std::io::Result<sfs::File> {
    let direct = mode & MODE_DIRECT != 0;
    let (read, write, append) = access_of(mode);
    let mut o = sfs::OpenOptions::new();
    o.read(read).write(write).append(append).direct_io(direct);
    let precreate = |path: &str| open_rw(path).map(drop);
    match ((mode >> MODE_CREATION_SHIFT) & 3, write || append) {
        (1, _) | (_, false) => precreate(path)?,
        (2, true) if write && !append => {
            o.create(true).truncate(true);
        }
        (3, true) => {
            // create_new needs a free name
            match sfs::remove_file(path) {
                Ok(()) => {}
                Err(e) if e.kind() == std::io::ErrorKind::NotFound => {}
                Err(e) => return Err(e),
            }
            o.create_new(true).truncate(true);
        }
        _ => {
            o.create(true);
        }
    }
    let f = o.open(path)?;
    if mode & MODE_CLONE != 0 {
        // the ring gets the fd of a duplicate; the original is closed first
        let c = f.try_clone()?;
        drop(f);
        return Ok(c);
    }
    Ok(f)
}

fn pattern(fill: u8, len: usize) -> Vec<u8> {
    (0..len).map(|i| fill.wrapping_add(i as u8)).collect()
}

fn flag_of(code: u8) -> (squeue::Flags, bool) {
    match code {
        0 => (squeue::Flags::empty(), false),
        1 => (squeue::Flags::ASYNC, false),
        2 => (squeue::Flags::IO_LINK, true),
        3 => (squeue::Flags::IO_DRAIN, true),
        4 => (squeue::Flags::FIXED_FILE, true),
        5 => (squeue::Flags::IO_HARDLINK, true),
        6 => (squeue::Flags::BUFFER_SELECT, true),
        _ => (squeue::Flags::ASYNC | squeue::Flags::IO_LINK, true),
    }
}

struct Interp<'a> {
    sc: &'a Scenario,
    w: World,
    out: Outcome,
    rings: Vec<RingM>,
    files: Vec<FileM>,
    /// buffers handed to the rings; never freed or moved before the end
    arena: Vec<Box<[u8]>>,
    next_ud: u64,
    /// user_data of pushes refused with PushError
    rejected: BTreeSet<u64>,
    /// user_data of entries that died with a crashed host
    dead_crash: BTreeSet<u64>,
    /// user_data of entries that died with a dropped ring
    dead_drop: BTreeSet<u64>,
    /// read buffers of cancelled reads (must stay sentinel-filled)
    cancelled_reads: Vec<(u64, usize)>,
    zombies: Vec<IoUring>,
    ring_births: u64,
    /// Some(n): an older ring was dropped while the ring born as `.0` was live
    /// with entries in flight, and `.1` rings have been created since
    churn_watch: Option<(u64, u32)>,
    /// (file slot, page index) touched by a submitted read/write
    touched_pages: BTreeSet<(usize, u64)>,
    crashed_with_inflight: bool,
    cancels: u32,
    ooo: bool,
    max_inflight: usize,
    cqes: u64,
}

impl<'a> Interp<'a> {
    fn dt(&self, d: &Dt) -> u64 {
        let (mn, mx) = (self.sc.lat.min(), self.sc.lat.max());
        match d {
            Dt::Zero => 0,
            Dt::Ns(v) => *v as u64,
            Dt::MinM1 => mn.saturating_sub(1),
            Dt::Min => mn,
            Dt::Max => mx,
            Dt::MaxP1 => mx + 1,
            Dt::HitM1 => HIT_NS - 1,
            Dt::Hit => HIT_NS,
        }
    }

    fn ring_idx(&self, r: u8) -> usize {
        (r as usize) % self.rings.len()
    }
    fn file_idx(&self, f: u8) -> usize {
        (f as usize) % self.files.len()
    }

    fn new_ring(&mut self, idx: usize, entries: u8) {
        let entries = entries.clamp(1, 8);
        let w = &self.w;
        let ring = w.real(|| IoUring::new(entries as u32));
        match ring {
            Ok(r) => {
                let depth = r.params().sq_entries() as usize;
                if depth < entries as usize {
                    self.out.fail(
                        "ring-depth: sq_entries smaller than requested",
                        format!("requested {entries}, params say {depth}"),
                    );
                }
                // ring fds identify rings (AsyncFd, the registry): the fds of
                // simultaneously live rings must be pairwise distinct
                let fd = r.as_raw_fd();
                if let Some((j, _)) = self
                    .rings
                    .iter()
                    .enumerate()
                    .find(|(_, o)| o.ring.as_ref().map(|x| x.as_raw_fd()) == Some(fd))
                {
                    self.out.fail(
                        "ring-fd: a new ring got the fd of a ring that is still alive",
                        format!("new ring for slot {idx} has fd {fd}, which is the fd of the live ring in slot {j}"),
                    );
                }
                self.ring_births += 1;
                if let Some((b, n)) = self.churn_watch {
                    let still = self.rings.iter().any(|o| o.ring.is_some() && o.born == b && !o.outstanding.is_empty());
                    if still {
                        self.churn_watch = Some((b, n + 1));
                        if n + 1 >= 2 {
                            self.out.label("two-rings-created-after-dropping-older-while-newer-inflight");
                        }
                    } else {
                        self.churn_watch = None;
                    }
                }
                let m = &mut self.rings[idx];
                m.born = self.ring_births;
                m.ring = Some(r);
                m.depth = depth;
                m.requested = entries;
                m.sq.clear();
                m.outstanding.clear();
            }
            Err(e) => self.out.fail("ring-new: IoUring::new failed", format!("{e}")),
        }
    }

    fn open_file(&mut self, slot: usize) {
        let path = self.files[slot].path.clone();
        let w = &self.w;
        let mode = self.files[slot].mode;
        let real = w.real(|| open_mode(&path, mode));
        let twin = w.twin(|| open_mode(&path, mode));
        match (real, twin) {
            (Ok(r), Ok(t)) => {
                let f = &mut self.files[slot];
                f.gen += 1;
                f.last_fd = r.as_raw_fd();
                f.real = Some(r);
                f.twin = Some(t);
            }
            (r, t) => self.out.fail(
                "harness: open failed",
                format!("real={:?} twin={:?}", r.err(), t.err()),
            ),
        }
    }

    fn alloc_buf(&mut self, data: Vec<u8>) -> usize {
        self.arena.push(data.into_boxed_slice());
        self.arena.len() - 1
    }

    /// Push one entry; the model decides whether the queue is full.
    fn push(&mut self, ridx: usize, kind: Kind, flag: u8, self_ref: bool) {
        if self.rings[ridx].ring.is_none() {
            return;
        }
        let ud = self.next_ud;
        self.next_ud += 1;
        let kind = match (kind, self_ref) {
            (Kind::Cancel { .. }, true) => Kind::Cancel { target: ud },
            (k, _) => k,
        };
        let (flags, bad) = flag_of(flag);
        let entry = match &kind {
            Kind::Read { slot, off, buf, .. } => {
                let fd = types::Fd(self.files[*slot].last_fd);
                let b = &mut self.arena[*buf];
                opcode::Read::new(fd, b.as_mut_ptr(), b.len() as u32).offset(*off).build()
            }
            Kind::Write { slot, off, buf, .. } => {
                let fd = types::Fd(self.files[*slot].last_fd);
                let b = &self.arena[*buf];
                opcode::Write::new(fd, b.as_ptr(), b.len() as u32).offset(*off).build()
            }
            Kind::Fsync { slot, .. } => {
                opcode::Fsync::new(types::Fd(self.files[*slot].last_fd)).build()
            }
            Kind::Cancel { target } => opcode::AsyncCancel::new(*target).build(),
        }
        .user_data(ud)
        .flags(flags);
        let w = &self.w;
        let m = &mut self.rings[ridx];
        let ring = m.ring.as_mut().unwrap();
        let (res, len_after, full_after) = w.real(|| {
            let mut sq = ring.submission();
            // SAFETY: single writer; every buffer lives in the arena until the end of the case.
            let r = unsafe { sq.push(&entry) };
            (r.is_ok(), sq.len(), sq.is_full())
        });
        let expect_ok = m.sq.len() < m.depth;
        if res != expect_ok {
            self.out.fail(
                if expect_ok {
                    "push: refused although the queue is not full"
                } else {
                    "push: accepted on a full queue"
                },
                format!("ring {ridx} depth {} queued {} ud {ud}", m.depth, m.sq.len()),
            );
            return;
        }
        if res {
            m.sq.push(Pushed { ud, kind, bad_flag: bad });
            m.issued.push(ud);
            self.out.count("pushes-accepted", 1);
        } else {
            self.rejected.insert(ud);
            self.out.label("push-on-full-queue");
        }
        if len_after != m.sq.len() || full_after != (m.sq.len() >= m.depth) {
            self.out.fail(
                "sq-len: SubmissionQueue::len/is_full disagree with accepted pushes",
                format!("ring {ridx}: len {len_after} full {full_after}, model {} / depth {}", m.sq.len(), m.depth),
            );
        }
    }

    fn page_of(&self, off: u64) -> Option<u64> {
        self.sc.cache.as_ref().map(|c| off / c.page_size.max(1))
    }

    fn submit(&mut self, ridx: usize, how: u8) {
        if self.rings[ridx].ring.is_none() {
            return;
        }
        let w = &self.w;
        let m = &mut self.rings[ridx];
        let ring = m.ring.as_ref().unwrap();
        let res = w.real(|| match how % 3 {
            0 => ring.submit(),
            1 => ring.submit_and_wait(1),
            _ => ring
                .submitter()
                .submit_with_args(0, &types::SubmitArgs::new()),
        });
        let queued: Vec<Pushed> = m.sq.drain(..).collect();
        match res {
            Ok(n) if n == queued.len() => {}
            other => {
                self.out.fail(
                    "submit: return value differs from the number of queued entries",
                    format!("ring {ridx}: queued {} got {other:?}", queued.len()),
                );
                return;
            }
        }
        let now = self.w.now_ns;
        let (lmin_cfg, lmax_cfg) = (self.sc.lat.min(), self.sc.lat.max());
        for p in queued {
            let seq = self.rings[ridx].seq;
            self.rings[ridx].seq += 1;
            let mut o = Outst {
                kind: p.kind.clone(),
                expect: Expect::Exec,
                submit_ns: now,
                lmin: lmin_cfg,
                lmax: lmax_cfg.max(HIT_NS),
                seq,
                cancelled: false,
            };
            if p.bad_flag {
                o.expect = Expect::Fixed(EINVAL);
                o.lmin = 0;
                self.out.label("unsupported-flag");
                self.rings[ridx].outstanding.insert(p.ud, o);
                continue;
            }
            match &p.kind {
                // O_DIRECT handles bypass the page cache (documented): full
                // latency, and they do not populate the cache either.  The
                // crate decides this from the fd at submit time.
                Kind::Read { slot, gen, off, .. } => {
                    let direct = self.files[*slot].mode & MODE_DIRECT != 0
                        && self.files[*slot].real.is_some()
                        && self.files[*slot].gen == *gen;
                    if direct {
                        self.out.label("direct-io-read");
                    } else if let Some(pg) = self.page_of(*off) {
                        if self.touched_pages.contains(&(*slot, pg)) {
                            o.lmin = lmin_cfg.min(HIT_NS);
                        }
                        self.touched_pages.insert((*slot, pg));
                    }
                }
                Kind::Write { slot, gen, off, .. } => {
                    let direct = self.files[*slot].mode & MODE_DIRECT != 0
                        && self.files[*slot].real.is_some()
                        && self.files[*slot].gen == *gen;
                    if let (Some(pg), false) = (self.page_of(*off), direct) {
                        self.touched_pages.insert((*slot, pg));
                    }
                }
                Kind::Fsync { .. } => {}
                Kind::Cancel { target } => {
                    self.cancels += 1;
                    o.lmin = 0;
                    let m = &mut self.rings[ridx];
                    if let Some(t) = m.outstanding.get_mut(target) {
                        if t.submit_ns + t.lmax <= now {
                            self.out.label("cancel-of-matured-undrained");
                        }
                        if t.cancelled {
                            self.out.label("cancel-twice");
                        }
                        if let (Kind::Read { buf, .. }, false) = (&t.kind, t.cancelled) {
                            if matches!(t.expect, Expect::Exec) {
                                self.cancelled_reads.push((*target, *buf));
                            }
                        }
                        t.expect = Expect::Fixed(ECANCELED);
                        t.lmin = 0;
                        t.cancelled = true;
                        o.expect = Expect::Fixed(0);
                        self.out.label("cancel-found");
                    } else {
                        o.expect = Expect::Fixed(ENOENT);
                        self.out.label("cancel-enoent");
                    }
                }
            }
            self.rings[ridx].outstanding.insert(p.ud, o);
        }
        let infl: usize = self.rings.iter().map(|r| r.outstanding.len()).sum();
        self.max_inflight = self.max_inflight.max(infl);
    }

    /// Check one yielded CQE against the model and the twin.
    fn on_cqe(&mut self, ridx: usize, ud: u64, res: i32) {
        self.cqes += 1;
        let now = self.w.now_ns;
        let Some(o) = self.rings[ridx].outstanding.remove(&ud) else {
            let (sig, why) = if self.dead_crash.contains(&ud) {
                ("crash: an operation submitted before the crash completed afterwards", "pre-crash")
            } else if self.dead_drop.contains(&ud) {
                ("drop: an entry of a dropped ring completed on another ring", "dropped ring")
            } else if self.rejected.contains(&ud) {
                ("exactly-once: a rejected push produced a completion", "rejected push")
            } else if self.rings[ridx].sq.iter().any(|p| p.ud == ud) {
                ("exactly-once: completion for an entry that was never submitted", "still queued")
            } else if self.rings.iter().any(|r| r.issued.contains(&ud)) {
                ("exactly-once: duplicate or misrouted completion", "already completed or other ring")
            } else {
                ("exactly-once: completion with unknown user_data", "unknown")
            };
            self.out.fail(sig, format!("ring {ridx} ud {ud} result {res} ({why}) at {now}"));
            return;
        };
        if self.rings[ridx].outstanding.values().any(|x| x.seq < o.seq) {
            self.ooo = true;
        }
        if now < o.submit_ns + o.lmin {
            self.out.fail(
                "visibility: completion yielded before its minimum latency elapsed",
                format!(
                    "ring {ridx} ud {ud} {:?}: submitted at {} lmin {} yielded at {now}",
                    o.kind, o.submit_ns, o.lmin
                ),
            );
            return;
        }
        match o.expect {
            Expect::Fixed(v) => {
                if res != v {
                    let sig = match v {
                        ECANCELED => "cancel: cancelled target did not complete with -ECANCELED",
                        0 | ENOENT => "cancel: wrong result for the cancel entry itself",
                        _ => "flags: unsupported flag did not complete with -EINVAL",
                    };
                    self.out.fail(sig, format!("ring {ridx} ud {ud} {:?}: expected {v} got {res}", o.kind));
                }
            }
            Expect::Exec => self.exec_compare(ridx, ud, &o.kind, res),
        }
    }

    fn exec_compare(&mut self, ridx: usize, ud: u64, kind: &Kind, res: i32) {
        let (slot, gen) = match kind {
            Kind::Read { slot, gen, .. } | Kind::Write { slot, gen, .. } | Kind::Fsync { slot, gen } => (*slot, *gen),
            Kind::Cancel { .. } => unreachable!("cancel is never Exec"),
        };
        let live = self.files[slot].real.is_some() && self.files[slot].gen == gen;
        if !live {
            self.out.label("op-on-closed-file");
            if res != EBADF {
                self.out.fail(
                    "closed-file: op on a closed file did not complete with -EBADF",
                    format!("ring {ridx} ud {ud} {kind:?}: got {res}"),
                );
            } else if let Kind::Read { buf, .. } = kind {
                if self.arena[*buf].iter().any(|b| *b != SENTINEL) {
                    self.out.fail(
                        "closed-file: read buffer modified although the op failed",
                        format!("ring {ridx} ud {ud} {kind:?}"),
                    );
                }
            }
            return;
        }
        let w = &self.w;
        let tf = self.files[slot].twin.as_ref().expect("twin handle");
        match kind {
            Kind::Read { off, buf, .. } => {
                let mut tb = vec![SENTINEL; self.arena[*buf].len()];
                let r = w.twin(|| tf.read_at(&mut tb, *off));
                match r {
                    Ok(n) => {
                        if self.files[slot].mode & MODE_APPEND != 0 {
                            self.out.label("ring-read-on-append-mode-handle");
                        }
                        if res != n as i32 {
                            self.out.fail(
                                "differential: read result differs from read_at",
                                format!(
                                    "ring {ridx} ud {ud} {kind:?} ({} handle): cqe {res}, read_at {n}",
                                    mode_name(self.files[slot].mode)
                                ),
                            );
                        } else if *self.arena[*buf] != tb[..] {
                            self.out.fail(
                                "differential: read buffer differs from read_at",
                                format!("ring {ridx} ud {ud} {kind:?}: ring {:?} twin {:?}", self.arena[*buf], tb),
                            );
                        }
                    }
                    Err(e) if e.kind() == std::io::ErrorKind::PermissionDenied => {
                        self.out.label("read-on-handle-without-read-access");
                        if res >= 0 || self.arena[*buf].iter().any(|b| *b != SENTINEL) {
                            self.out.fail(
                                "differential: ring read succeeded on a handle not opened for reading",
                                format!("ring {ridx} ud {ud} {kind:?}: cqe {res}, read_at {e}; buffer {:?}", self.arena[*buf]),
                            );
                        } else if res != EBADF {
                            // sim.rs exec_read: "The fd was not opened for reading: read(2) fails with EBADF"
                            self.out.fail(
                                "differential: access-mode failure did not complete with -EBADF",
                                format!("ring {ridx} ud {ud} {kind:?}: cqe {res}, read_at {e}"),
                            );
                        }
                    }
                    Err(e) => self.out.fail("harness: twin read_at failed", format!("{e}")),
                }
            }
            Kind::Write { off, buf, .. } => {
                let r = w.twin(|| tf.write_at(&self.arena[*buf], *off));
                let expect = match r {
                    Ok(n) => {
                        // an append-mode handle is writable with or without
                        // `write(true)`; what a positional write does on it is
                        // whatever `write_at` of the same-mode twin just did
                        if self.files[slot].mode & MODE_APPEND != 0 {
                            self.out.label("ring-write-on-append-mode-handle");
                            if !access_of(self.files[slot].mode).1 {
                                self.out.label("ring-write-on-append-handle-without-write-flag");
                            }
                        }
                        n as i32
                    }
                    Err(e) if e.to_string().contains("No space") => {
                        self.out.label("enospc");
                        ENOSPC
                    }
                    Err(e) if e.kind() == std::io::ErrorKind::PermissionDenied => {
                        self.out.label("write-on-read-only-handle");
                        if res >= 0 {
                            self.out.fail(
                                "differential: ring write succeeded on a handle not opened for writing",
                                format!("ring {ridx} ud {ud} {kind:?}: cqe {res}, write_at {e}"),
                            );
                        } else if res != EBADF {
                            self.out.fail(
                                "differential: access-mode failure did not complete with -EBADF",
                                format!("ring {ridx} ud {ud} {kind:?}: cqe {res}, write_at {e}"),
                            );
                        }
                        return;
                    }
                    Err(e) => {
                        self.out.fail("harness: twin write_at failed", format!("{e}"));
                        return;
                    }
                };
                if res != expect {
                    self.out.fail(
                        "differential: write result differs from write_at",
                        format!(
                            "ring {ridx} ud {ud} {kind:?} ({} handle): cqe {res}, write_at {expect}",
                            mode_name(self.files[slot].mode)
                        ),
                    );
                }
            }
            Kind::Fsync { .. } => {
                let r = w.twin(|| tf.sync_all());
                match r {
                    Ok(()) => {
                        if res != 0 {
                            self.out.fail(
                                "differential: fsync result differs from sync_all",
                                format!("ring {ridx} ud {ud}: cqe {res}, sync_all Ok"),
                            );
                        }
                    }
                    Err(e) => self.out.fail("harness: twin sync_all failed", format!("{e}")),
                }
            }
            Kind::Cancel { .. } => {}
        }
    }

    /// `k1` entries at the current time, then advance by `dt`, then `k2` more from the same handle.
    fn drain(&mut self, ridx: usize, k1: u8, sync: bool, split: Option<(u64, u8)>) {
        if self.rings[ridx].ring.is_none() {
            return;
        }
        // The ring handle is taken out so that `self` stays usable while the
        // CompletionQueue (which only stores the ring fd) is alive.
        let mut ring = self.rings[ridx].ring.take().unwrap();
        {
            let mut cq = self.w.real(|| {
                let mut cq = ring.completion();
                if sync {
                    cq.sync();
                }
                cq
            });
            let exposed = cq.len();
            let mut taken = 0usize;
            let mut budget = if k1 == 0 { usize::MAX } else { k1 as usize };
            loop {
                if budget == 0 || self.out.failure.is_some() {
                    break;
                }
                let e = self.w.real(|| cq.next());
                match e {
                    Some(e) => {
                        taken += 1;
                        budget -= 1;
                        self.on_cqe(ridx, e.user_data(), e.result());
                    }
                    None => break,
                }
            }
            if taken < exposed {
                self.out.label("partial-drain");
            }
            if let Some((dt, k2)) = split {
                self.w.now_ns += dt;
                let mut budget = if k2 == 0 { usize::MAX } else { k2 as usize };
                while budget > 0 && self.out.failure.is_none() {
                    let e = self.w.real(|| cq.next());
                    match e {
                        Some(e) => {
                            budget -= 1;
                            self.on_cqe(ridx, e.user_data(), e.result());
                        }
                        None => break,
                    }
                }
                self.out.label("drain-across-clock-advance");
            }
        }
        self.rings[ridx].ring = Some(ring);
    }

    fn read_all(&self, twin: bool, path: &str) -> Result<Vec<u8>, String> {
        let r = if twin {
            self.w.twin(|| sfs::read(path))
        } else {
            self.w.real(|| sfs::read(path))
        };
        r.map_err(|e| e.kind().to_string())
    }

    fn compare_contents(&mut self, sig: &str) {
        for i in 0..self.files.len() {
            let path = self.files[i].path.clone();
            let a = self.read_all(false, &path);
            let b = self.read_all(true, &path);
            if a != b {
                self.out.fail(sig, format!("{path}: ring-side {a:?} twin {b:?}"));
                return;
            }
        }
    }

    fn crash(&mut self) {
        let inflight: usize = self.rings.iter().map(|r| r.outstanding.len()).sum();
        if inflight > 0 {
            self.crashed_with_inflight = true;
            self.out.label("crash-with-inflight");
        } else {
            self.out.label("crash-idle");
        }
        // As in `Sim::crash`: the software (file handles, ring handles) is
        // dropped while nothing is entered, then the subsystems crash.
        for f in self.files.iter_mut() {
            drop(f.real.take());
            drop(f.twin.take());
        }
        let was_live: Vec<bool> = self.rings.iter().map(|r| r.ring.is_some()).collect();
        self.churn_watch = None;
        for r in self.rings.iter_mut() {
            for p in r.sq.drain(..) {
                self.dead_crash.insert(p.ud);
            }
            for (ud, _) in std::mem::take(&mut r.outstanding) {
                self.dead_crash.insert(ud);
            }
            if let Some(ring) = r.ring.take() {
                // keep the stale handle: it must stay silent for ever
                self.zombies.push(ring);
            }
        }
        self.w.fs.lock().unwrap().crash();
        self.w.iou.lock().unwrap().crash();
        self.w.twin.lock().unwrap().crash();
        // bounce: fresh handles
        for i in 0..self.files.len() {
            self.open_file(i);
        }
        for i in 0..self.rings.len() {
            if was_live[i] {
                let e = self.rings[i].requested;
                self.new_ring(i, e);
            }
        }
    }

    fn poll_zombies(&mut self) {
        let mut zs = std::mem::take(&mut self.zombies);
        for z in zs.iter_mut() {
            let got = self.w.real(|| {
                let mut cq = z.completion();
                cq.sync();
                let n = cq.len();
                let e = cq.next();
                (n, e)
            });
            if got.0 != 0 || got.1.is_some() {
                self.out.fail(
                    "crash: an operation submitted before the crash completed afterwards",
                    format!("stale ring handle: sync exposed {} next {:?}", got.0, got.1),
                );
            }
        }
        self.zombies = zs;
    }

    fn step(&mut self, a: &Act) {
        match a {
            Act::Read { ring, file, off, len, flag } => {
                let (r, s) = (self.ring_idx(*ring), self.file_idx(*file));
                let buf = self.alloc_buf(vec![SENTINEL; *len as usize]);
                let gen = self.files[s].gen;
                self.push(r, Kind::Read { slot: s, gen, off: *off as u64, buf }, *flag, false);
            }
            Act::Write { ring, file, off, len, fill, flag } => {
                let (r, s) = (self.ring_idx(*ring), self.file_idx(*file));
                let buf = self.alloc_buf(pattern(*fill, *len as usize));
                let gen = self.files[s].gen;
                self.push(r, Kind::Write { slot: s, gen, off: *off as u64, buf }, *flag, false);
            }
            Act::Fsync { ring, file, flag } => {
                let (r, s) = (self.ring_idx(*ring), self.file_idx(*file));
                let gen = self.files[s].gen;
                self.push(r, Kind::Fsync { slot: s, gen }, *flag, false);
            }
            Act::Cancel { ring, target, flag } => {
                let r = self.ring_idx(*ring);
                let m = &self.rings[r];
                let mut self_ref = false;
                let t = match target {
                    Target::Pending(i) => {
                        let mut c: Vec<u64> = m.outstanding.keys().copied().collect();
                        c.extend(m.sq.iter().map(|p| p.ud));
                        if c.is_empty() {
                            1 << 40
                        } else {
                            c[pick(*i, c.len())]
                        }
                    }
                    Target::Any(i) => {
                        if m.issued.is_empty() {
                            1 << 40
                        } else {
                            m.issued[pick(*i, m.issued.len())]
                        }
                    }
                    Target::OtherRing(i) => {
                        let o = &self.rings[(r + 1) % self.rings.len()];
                        if self.rings.len() < 2 || o.issued.is_empty() {
                            1 << 40
                        } else {
                            o.issued[pick(*i, o.issued.len())]
                        }
                    }
                    Target::SelfRef => {
                        self_ref = true;
                        0
                    }
                    Target::Bogus => 1 << 40,
                };
                self.push(r, Kind::Cancel { target: t }, *flag, self_ref);
            }
            Act::Submit { ring, how } => {
                let r = self.ring_idx(*ring);
                self.submit(r, *how);
            }
            Act::Advance(d) => self.w.now_ns += self.dt(d),
            Act::Drain { ring, k, sync } => {
                let r = self.ring_idx(*ring);
                self.drain(r, *k, *sync, None);
            }
            Act::DrainSplit { ring, k1, dt, k2 } => {
                let r = self.ring_idx(*ring);
                let d = self.dt(dt);
                self.drain(r, (*k1).max(1), true, Some((d, *k2)));
            }
            Act::ShimWrite { file, off, len, fill } => {
                let s = self.file_idx(*file);
                if self.files[s].real.is_none() {
                    return;
                }
                let data = pattern(*fill, *len as usize);
                let a = self
                    .w
                    .real(|| self.files[s].real.as_ref().unwrap().write_at(&data, *off as u64))
                    .map_err(|e| e.to_string());
                let b = self
                    .w
                    .twin(|| self.files[s].twin.as_ref().unwrap().write_at(&data, *off as u64))
                    .map_err(|e| e.to_string());
                if a != b {
                    self.out.fail("harness: shim write diverged between real and twin", format!("{a:?} vs {b:?}"));
                }
                self.out.label("shim-write-interleaved");
            }
            Act::ShimAppend { file, len, fill } => {
                use std::io::Write;
                let s = self.file_idx(*file);
                if self.files[s].real.is_none() {
                    return;
                }
                let data = pattern(*fill, *len as usize);
                let (mut rf, mut tf) = (self.files[s].real.take().unwrap(), self.files[s].twin.take().unwrap());
                let a = self.w.real(|| rf.write(&data)).map_err(|e| e.to_string());
                let b = self.w.twin(|| tf.write(&data)).map_err(|e| e.to_string());
                self.files[s].real = Some(rf);
                self.files[s].twin = Some(tf);
                if a != b {
                    self.out.fail("harness: shim cursor write diverged between real and twin", format!("{a:?} vs {b:?}"));
                }
                self.out.label(if self.files[s].mode & MODE_APPEND != 0 {
                    "shim-append-write-interleaved"
                } else {
                    "shim-cursor-write-interleaved"
                });
            }
            Act::ShimSync { file } => {
                let s = self.file_idx(*file);
                if self.files[s].real.is_none() {
                    return;
                }
                let a = self.w.real(|| self.files[s].real.as_ref().unwrap().sync_all()).map_err(|e| e.to_string());
                let b = self.w.twin(|| self.files[s].twin.as_ref().unwrap().sync_all()).map_err(|e| e.to_string());
                if a != b {
                    self.out.fail("harness: shim sync diverged between real and twin", format!("{a:?} vs {b:?}"));
                }
            }
            Act::Close { file } => {
                let s = self.file_idx(*file);
                let pending = self.rings.iter().any(|r| {
                    r.outstanding.values().any(|o| {
                        matches!(o.expect, Expect::Exec)
                            && matches!(&o.kind, Kind::Read { slot, gen, .. } | Kind::Write { slot, gen, .. } | Kind::Fsync { slot, gen }
                                if *slot == s && *gen == self.files[s].gen)
                    })
                });
                if let Some(f) = self.files[s].real.take() {
                    self.w.real(|| drop(f));
                    if pending {
                        self.out.label("close-with-ops-in-flight");
                    }
                }
                if let Some(f) = self.files[s].twin.take() {
                    self.w.twin(|| drop(f));
                }
            }
            Act::Reopen { file } => {
                let s = self.file_idx(*file);
                if self.files[s].real.is_none() {
                    self.open_file(s);
                }
            }
            Act::DropRing { ring } => {
                let r = self.ring_idx(*ring);
                self.drop_ring(r);
            }
            Act::NewRing { ring, entries } => {
                let r = self.ring_idx(*ring);
                if let Some(slot) = self.empty_slot_from(r) {
                    self.new_ring(slot, *entries);
                }
            }
            Act::Churn { ring, n, entries } => {
                let r = self.ring_idx(*ring);
                self.drop_ring(r);
                for _ in 0..(*n).clamp(1, 3) {
                    if self.out.failure.is_some() {
                        break;
                    }
                    if let Some(slot) = self.empty_slot_from(r) {
                        self.new_ring(slot, *entries);
                    }
                }
                self.out.label("ring-churn");
            }
            Act::Crash => self.crash(),
        }
    }

    fn empty_slot_from(&self, r: usize) -> Option<usize> {
        let n = self.rings.len();
        (0..n).map(|k| (r + k) % n).find(|i| self.rings[*i].ring.is_none())
    }

    fn drop_ring(&mut self, r: usize) {
        {
            {
                if let Some(ring) = self.rings[r].ring.take() {
                    // the seed for the churn class: a younger ring is alive with entries in flight
                    let born = self.rings[r].born;
                    if let Some(y) = self
                        .rings
                        .iter()
                        .filter(|o| o.ring.is_some() && o.born > born && !o.outstanding.is_empty())
                        .map(|o| o.born)
                        .min()
                    {
                        self.churn_watch = Some((y, 0));
                        self.out.label("older-ring-dropped-while-newer-inflight");
                    }
                    let m = &mut self.rings[r];
                    if !m.outstanding.is_empty() {
                        self.out.label("drop-ring-with-inflight");
                    }
                    for p in m.sq.drain(..) {
                        self.dead_drop.insert(p.ud);
                    }
                    for (ud, o) in std::mem::take(&mut m.outstanding) {
                        self.dead_drop.insert(ud);
                        // a cancelled read that dies with its ring is still never executed
                        let _ = o;
                    }
                    self.w.real(|| drop(ring));
                }
            }
        }
    }
}

pub fn run(sc: &Scenario) -> Outcome {
    let ninit = sc.rings.len().clamp(1, 4);
    let nrings = (ninit + sc.spare_slots as usize).clamp(1, 4);
    let nfiles = sc.files.len().clamp(1, 3);
    let w = World {
        fs: Arc::new(Mutex::new(Fs::new(fs_config(sc), sc.seed))),
        iou: Arc::new(Mutex::new(IoUringHostState::new())),
        twin: Arc::new(Mutex::new(Fs::new(fs_config(sc), sc.seed))),
        now_ns: BASE_NS,
    };
    let mut it = Interp {
        sc,
        w,
        out: Outcome::ok(),
        rings: (0..nrings)
            .map(|i| RingM {
                ring: None,
                depth: 0,
                requested: sc.rings.get(i).copied().unwrap_or(4),
                born: 0,
                sq: Vec::new(),
                outstanding: BTreeMap::new(),
                issued: Vec::new(),
                seq: 0,
            })
            .collect(),
        files: (0..nfiles)
            .map(|i| FileM { path: format!("/f{i}"), mode: 0, real: None, twin: None, gen: 0, last_fd: -1 })
            .collect(),
        arena: Vec::new(),
        next_ud: 1,
        rejected: BTreeSet::new(),
        dead_crash: BTreeSet::new(),
        dead_drop: BTreeSet::new(),
        cancelled_reads: Vec::new(),
        zombies: Vec::new(),
        ring_births: 0,
        churn_watch: None,
        touched_pages: BTreeSet::new(),
        crashed_with_inflight: false,
        cancels: 0,
        ooo: false,
        max_inflight: 0,
        cqes: 0,
    };

    // ── setup: files with initial content (optionally durable), rings ──
    for i in 0..nfiles {
        it.open_file(i);
        if it.out.failure.is_some() {
            return it.out;
        }
        let (len, fill, durable) = sc.files.get(i).copied().unwrap_or((0, 0, false));
        let data = pattern(fill, len as usize);
        for twin in [false, true] {
            let f = if twin { it.files[i].twin.as_ref() } else { it.files[i].real.as_ref() }.unwrap();
            let go = || -> std::io::Result<()> {
                if !data.is_empty() {
                    f.write_at(&data, 0)?;
                }
                if durable {
                    f.sync_all()?;
                    sfs::sync_dir("/")?;
                }
                Ok(())
            };
            let r = if twin { it.w.twin(go) } else { it.w.real(go) };
            if let Err(e) = r {
                // a tiny capacity may refuse the initial content: both sides
                // behave the same, the comparison at the end stays valid
                if !e.to_string().contains("No space") {
                    it.out.fail("harness: setup failed", format!("{e}"));
                    return it.out;
                }
            }
        }
        // continue with the handle kind the scenario asks for
        let mode = sc.modes.get(i).copied().unwrap_or(0);
        if mode != 0 {
            let (r, t) = (it.files[i].real.take(), it.files[i].twin.take());
            it.w.real(|| drop(r));
            it.w.twin(|| drop(t));
            it.files[i].mode = mode;
            it.open_file(i);
            if it.out.failure.is_some() {
                return it.out;
            }
            if access_of(mode) != (true, true, false) {
                it.out.label("restricted-access-mode");
            }
        }
        it.out.label(format!("handle-{}", mode_name(mode)));
        if mode & MODE_DIRECT != 0 {
            it.out.label("handle-o_direct");
        }
        if mode & MODE_CLONE != 0 {
            it.out.label("handle-from-try_clone");
        }
        match ((mode >> MODE_CREATION_SHIFT) & 3, access_of(mode)) {
            (1, _) => it.out.label("open-existing-without-create"),
            (2, (_, true, false)) => it.out.label("open-create-truncate"),
            (3, (_, w, a)) if w || a => it.out.label("open-create_new"),
            _ => {}
        }
    }
    for i in 0..ninit {
        let e = it.rings[i].requested;
        it.new_ring(i, e);
    }

    // ── the generated history ──
    for a in &sc.acts {
        if it.out.failure.is_some() {
            break;
        }
        it.step(a);
    }

    // ── final: submit everything, advance beyond the maximum latency, drain all ──
    if it.out.failure.is_none() {
        for r in 0..nrings {
            it.submit(r, 0);
        }
        it.w.now_ns += sc.lat.max().max(HIT_NS) + 1_000;
        for r in 0..nrings {
            // one sync exposes everything matured; repeat until a sync exposes nothing
            for _ in 0..4 {
                it.drain(r, 0, true, None);
            }
        }
    }
    if it.out.failure.is_none() {
        for (r, m) in it.rings.iter().enumerate() {
            if m.ring.is_some() && !m.outstanding.is_empty() {
                let lost: Vec<String> = m
                    .outstanding
                    .iter()
                    .map(|(ud, o)| format!("ud {ud} {:?} submitted at {}", o.kind, o.submit_ns))
                    .collect();
                it.out.fail(
                    "exactly-once: submitted entry never completed",
                    format!("ring {r} at {}: {}", it.w.now_ns, lost.join("; ")),
                );
                break;
            }
        }
    }
    if it.out.failure.is_none() {
        it.poll_zombies();
    }
    if it.out.failure.is_none() {
        let cr = it.cancelled_reads.clone();
        for (ud, buf) in cr {
            if it.arena[buf].iter().any(|b| *b != SENTINEL) {
                it.out.fail(
                    "cancel: buffer of a cancelled read was written",
                    format!("ud {ud}: {:?}", it.arena[buf]),
                );
                break;
            }
        }
    }
    if it.out.failure.is_none() {
        it.compare_contents("differential: file contents differ from the synchronous twin");
    }
    if it.out.failure.is_none() {
        // durability effect of fsync: crash both sides, compare what survived
        for f in it.files.iter_mut() {
            drop(f.real.take());
            drop(f.twin.take());
        }
        it.w.fs.lock().unwrap().crash();
        it.w.iou.lock().unwrap().crash();
        it.w.twin.lock().unwrap().crash();
        it.compare_contents("differential: contents surviving a crash differ from the synchronous twin");
    }

    // ── classification ──
    let mut out = std::mem::take(&mut it.out);
    out.label(match sc.lat {
        Lat::None => "lat-none",
        Lat::Fixed(_) => "lat-fixed",
        Lat::Range(..) => "lat-ranged",
    });
    out.label(if sc.cache.is_some() { "page-cache-on" } else { "page-cache-off" });
    out.label(format!("ring-slots-{nrings}"));
    if sc.capacity.is_some() {
        out.label("capacity-limited");
    }
    if it.ooo {
        out.label("out-of-order-drain");
    }
    if it.max_inflight >= 2 {
        out.label("inflight>=2");
    }
    out.count("cqes", it.cqes);
    out.nontrivial = (it.max_inflight >= 2 && it.ooo) || it.cancels > 0 || it.crashed_with_inflight;

    // tear down inside the guards (ring Drop needs the registry)
    let World { fs, iou, twin, now_ns } = it.w;
    let w = World { fs, iou, twin, now_ns };
    let rings = std::mem::take(&mut it.rings);
    let zombies = std::mem::take(&mut it.zombies);
    let files = std::mem::take(&mut it.files);
    w.real(|| {
        drop(rings);
        drop(zombies);
    });
    for f in files {
        let FileM { real, twin, .. } = f;
        w.real(|| drop(real));
        w.twin(|| drop(twin));
    }
    out
}

// ───────────────────────── generator ─────────────────────────

fn lat_strategy() -> BoxedStrategy<Lat> {
    let mag = prop_oneof![
        Just(1u64),
        Just(50),
        Just(99),
        Just(100),
        Just(101),
        Just(1_000),
        Just(50_000),
        Just(2_000_000),
    ];
    prop_oneof![
        2 => Just(Lat::None),
        3 => mag.clone().prop_map(Lat::Fixed),
        4 => (mag.clone(), mag, 1u8..=100).prop_map(|(a, s, l)| Lat::Range(a, s, l)),
    ]
    .boxed()
}

fn dt_strategy() -> BoxedStrategy<Dt> {
    prop_oneof![
        1 => Just(Dt::Zero),
        3 => prop_oneof![0u32..=200, 0u32..=3_000_000].prop_map(Dt::Ns),
        3 => Just(Dt::MinM1),
        3 => Just(Dt::Min),
        2 => Just(Dt::Max),
        2 => Just(Dt::MaxP1),
        1 => Just(Dt::HitM1),
        1 => Just(Dt::Hit),
    ]
    .boxed()
}

fn flag_strategy() -> BoxedStrategy<u8> {
    prop_oneof![20 => Just(0u8), 1 => Just(1u8), 2 => 2u8..=7].boxed()
}

fn act_strategy() -> BoxedStrategy<Act> {
    // 12 = lcm(1..=4): uniform over the slots whatever their number
    let ring = 0u8..12;
    let file = 0u8..3;
    let off = prop_oneof![3 => 0u16..=24, 1 => 0u16..=200];
    let len = prop_oneof![1 => Just(0u8), 8 => 1u8..=24];
    let target = prop_oneof![
        6 => any::<u16>().prop_map(Target::Pending),
        2 => any::<u16>().prop_map(Target::Any),
        1 => any::<u16>().prop_map(Target::OtherRing),
        1 => Just(Target::SelfRef),
        1 => Just(Target::Bogus),
    ];
    prop_oneof![
        8 => (ring.clone(), file.clone(), off.clone(), len.clone(), flag_strategy())
            .prop_map(|(ring, file, off, len, flag)| Act::Read { ring, file, off, len, flag }),
        8 => (ring.clone(), file.clone(), off.clone(), len.clone(), any::<u8>(), flag_strategy())
            .prop_map(|(ring, file, off, len, fill, flag)| Act::Write { ring, file, off, len, fill, flag }),
        3 => (ring.clone(), file.clone(), flag_strategy()).prop_map(|(ring, file, flag)| Act::Fsync { ring, file, flag }),
        4 => (ring.clone(), target, flag_strategy()).prop_map(|(ring, target, flag)| Act::Cancel { ring, target, flag }),
        8 => (ring.clone(), 0u8..3).prop_map(|(ring, how)| Act::Submit { ring, how }),
        8 => dt_strategy().prop_map(Act::Advance),
        6 => (ring.clone(), prop_oneof![2 => Just(0u8), 3 => 1u8..=3], prop_oneof![9 => Just(true), 1 => Just(false)])
            .prop_map(|(ring, k, sync)| Act::Drain { ring, k, sync }),
        2 => (ring.clone(), 1u8..=2, dt_strategy(), 0u8..=3)
            .prop_map(|(ring, k1, dt, k2)| Act::DrainSplit { ring, k1, dt, k2 }),
        1 => (file.clone(), off, len, any::<u8>())
            .prop_map(|(file, off, len, fill)| Act::ShimWrite { file, off, len, fill }),
        1 => (file.clone(), prop_oneof![1 => Just(0u8), 8 => 1u8..=24], any::<u8>())
            .prop_map(|(file, len, fill)| Act::ShimAppend { file, len, fill }),
        1 => file.clone().prop_map(|file| Act::ShimSync { file }),
        1 => file.clone().prop_map(|file| Act::Close { file }),
        1 => file.prop_map(|file| Act::Reopen { file }),
        1 => ring.clone().prop_map(|ring| Act::DropRing { ring }),
        1 => (ring.clone(), 1u8..=8).prop_map(|(ring, entries)| Act::NewRing { ring, entries }),
        2 => (ring, 1u8..=3, 1u8..=8).prop_map(|(ring, n, entries)| Act::Churn { ring, n, entries }),
        1 => Just(Act::Crash),
    ]
    .boxed()
}

/// Whether `id` is listed with status "known" in known_findings.json.  While
/// F-C18-1 is known the generator keeps every handle read+write (the probe
/// replays carry the clause); once it is "fixed" (or gone) read-only and
/// write-only handles are generated and the full clause is asserted.
pub fn is_known(id: &str) -> bool {
    static KNOWN: std::sync::OnceLock<Vec<String>> = std::sync::OnceLock::new();
    KNOWN
        .get_or_init(|| {
            crate::engine::load_findings()
                .into_iter()
                .filter(|f| f.property == "C18" && f.status == "known")
                .map(|f| f.id)
                .collect()
        })
        .iter()
        .any(|k| k == id)
}

/// A mode byte (see `Scenario::modes` / `open_mode`): every access-mode
/// combination `OpenOptions` accepts, each optionally O_DIRECT, with the
/// creation variants that are legal for it, optionally through `try_clone`.
fn mode_strategy() -> BoxedStrategy<u8> {
    let direct = prop_oneof![4 => Just(0u8), 1 => Just(MODE_DIRECT)];
    if is_known("F-C18-1") {
        direct.boxed()
    } else {
        let access = prop_oneof![
            6 => Just(0u8),               // read+write
            1 => Just(1u8),               // read-only
            1 => Just(2u8),               // write-only
            2 => Just(3u8 | MODE_APPEND), // append-only
            1 => Just(1u8 | MODE_APPEND), // read+append
            1 => Just(2u8 | MODE_APPEND), // write+append
            1 => Just(MODE_APPEND),       // read+write+append
        ];
        let creation = prop_oneof![6 => Just(0u8), 2 => Just(1u8), 1 => Just(2u8), 1 => Just(3u8)];
        let clone = prop_oneof![5 => Just(0u8), 1 => Just(MODE_CLONE)];
        (access, direct, creation, clone)
            .prop_map(|(a, d, c, k)| a | d | (c << MODE_CREATION_SHIFT) | k)
            .boxed()
    }
}

pub fn strategy() -> BoxedStrategy<Scenario> {
    let cache = prop_oneof![
        1 => Just(None),
        1 => (prop_oneof![Just(8u64), Just(16), Just(64), Just(4096)], prop_oneof![Just(1usize), Just(2), Just(256)], prop_oneof![3 => Just(0u8), 1 => Just(50u8)])
            .prop_map(|(page_size, max_pages, evict_pct)| Some(Cache { page_size, max_pages, evict_pct })),
    ];
    let capacity = prop_oneof![6 => Just(None), 1 => (16u64..200).prop_map(Some)];
    (
        any::<u64>(),
        lat_strategy(),
        cache,
        capacity,
        (
            prop_oneof![
                3 => proptest::collection::vec(1u8..=8, 1..=1),
                4 => proptest::collection::vec(1u8..=8, 2..=2),
                2 => proptest::collection::vec(1u8..=8, 3..=3),
                1 => proptest::collection::vec(1u8..=8, 4..=4),
            ],
            prop_oneof![3 => Just(0u8), 2 => Just(1u8), 1 => Just(2u8)],
        ),
        proptest::collection::vec(((0u8..=40, any::<u8>(), any::<bool>()), mode_strategy()), 1..=3),
        proptest::collection::vec(act_strategy(), 1..40),
    )
        .prop_map(|(seed, lat, cache, capacity, (rings, spare), fm, acts)| {
            let (files, modes): (Vec<_>, Vec<_>) = fm.into_iter().unzip();
            let spare_slots = spare.min(4 - rings.len() as u8);
            (seed, lat, cache, capacity, rings, spare_slots, files, modes, acts)
        })
        .prop_map(|(seed, lat, cache, capacity, rings, spare_slots, files, modes, acts)| Scenario {
            seed,
            lat,
            cache,
            capacity,
            rings,
            spare_slots,
            files,
            acts,
            modes,
        })
        .boxed()
}

// ───────────────────────── sim mode ─────────────────────────
//
// One turmoil host runs a data-described program: rounds of "push some
// entries, submit, drain in some style" over one ring, draining through
// `AsyncFd::readable`.  The controller crashes the host at a generated step
// and bounces it; the restarted software first compares what survived with
// the twin, then runs a second list of rounds on a fresh ring.  The `now`
// seen by fs/io_uring is the host time at the start of the tick, so the
// visibility bound is checked on step-start times.

#[derive(Clone, Debug, Serialize, Deserialize)]
pub enum SOp {
    Read { file: u8, off: u16, len: u8, flag: u8 },
    Write { file: u8, off: u16, len: u8, fill: u8, flag: u8 },
    Fsync { file: u8, flag: u8 },
    /// target picked among the entries queued or in flight (bogus if none)
    Cancel { target: u16, flag: u8 },
}

#[derive(Clone, Debug, Serialize, Deserialize)]
pub enum SDrain {
    /// leave everything in flight
    None,
    /// no await: sync and take up to k (0 = all exposed)
    Poll(u8),
    /// await `readable()` once, sync, take up to k (0 = all exposed)
    Once(u8),
    /// `readable()` loop until nothing is outstanding
    All,
}

#[derive(Clone, Debug, Serialize, Deserialize)]
pub struct Round {
    pub sleep_ms: u8,
    pub ops: Vec<SOp>,
    pub drain: SDrain,
    /// ring churn before the pushes: drop the oldest side ring (if any), then
    /// create this many side rings (0 = none)
    #[serde(default)]
    pub churn: u8,
}

#[derive(Clone, Debug, Serialize, Deserialize)]
pub struct SimScenario {
    pub seed: u64,
    pub tick_ms: u8,
    pub lat: Lat,
    pub cache: Option<Cache>,
    pub depth: u8,
    /// per file: (initial length, fill, durable)
    pub files: Vec<(u8, u8, bool)>,
    /// rounds before the crash and after the bounce
    pub before: Vec<Round>,
    pub after: Vec<Round>,
    /// crash once this many steps have run (None: no crash, `after` unused)
    pub crash_at: Option<u16>,
    pub down_steps: u8,
    /// a separate task loops on `readable()` and drains while the main task submits
    #[serde(default)]
    pub concurrent: bool,
    /// a side ring is created *before* the main ring (so it is the older one)
    #[serde(default)]
    pub elder: bool,
    /// per file, the kind of handle used for the ring ops (as `Scenario::modes`)
    #[serde(default)]
    pub modes: Vec<u8>,
}

struct SOut {
    kind: Kind,
    expect: Expect,
    submit_step: u64,
    lmin: u64,
    seq: u64,
}

#[derive(Default)]
struct SimShared {
    step: std::cell::Cell<u64>,
    phase: std::cell::Cell<u32>,
    done: std::cell::Cell<u32>,
    failure: std::cell::RefCell<Option<(String, String)>>,
    labels: std::cell::RefCell<BTreeSet<String>>,
    arena: std::cell::RefCell<Vec<Box<[u8]>>>,
    outstanding: std::cell::RefCell<BTreeMap<u64, SOut>>,
    queued: std::cell::RefCell<Vec<Pushed>>,
    dead: std::cell::RefCell<BTreeSet<u64>>,
    touched: std::cell::RefCell<BTreeSet<(usize, u64)>>,
    cancelled_reads: std::cell::RefCell<Vec<(u64, usize)>>,
    next_ud: std::cell::Cell<u64>,
    seq: std::cell::Cell<u64>,
    cqes: std::cell::Cell<u64>,
    cancels: std::cell::Cell<u32>,
    ooo: std::cell::Cell<bool>,
    max_inflight: std::cell::Cell<usize>,
    waits: std::cell::Cell<u64>,
}

impl SimShared {
    fn fail(&self, sig: &str, detail: String) {
        let mut f = self.failure.borrow_mut();
        if f.is_none() {
            *f = Some((sig.to_string(), detail));
        }
    }
    fn failed(&self) -> bool {
        self.failure.borrow().is_some()
    }
    fn label(&self, l: &str) {
        self.labels.borrow_mut().insert(l.to_string());
    }
}

struct RingFd(RawFd);
impl AsRawFd for RingFd {
    fn as_raw_fd(&self) -> RawFd {
        self.0
    }
}

fn with_twin<R>(twin: &Arc<Mutex<Fs>>, f: impl FnOnce() -> R) -> R {
    let _g = turmoil_fs::enter(
        twin,
        turmoil_fs::EnterCtx { now: Duration::from_nanos(BASE_NS), on_corruption: None },
    );
    f()
}

struct SimProg {
    sh: std::rc::Rc<SimShared>,
    sc: std::rc::Rc<SimScenario>,
    twin: Arc<Mutex<Fs>>,
    real: Vec<sfs::File>,
    tw: Vec<sfs::File>,
    ring: IoUring,
    depth: usize,
}

impl SimProg {
    fn tick_ns(&self) -> u64 {
        self.sc.tick_ms.max(1) as u64 * 1_000_000
    }

    fn submit(&mut self) {
        let sh = self.sh.clone();
        let queued: Vec<Pushed> = sh.queued.borrow_mut().drain(..).collect();
        match self.ring.submit() {
            Ok(n) if n == queued.len() => {}
            other => {
                sh.fail(
                    "submit: return value differs from the number of queued entries",
                    format!("queued {} got {other:?}", queued.len()),
                );
                return;
            }
        }
        let step = sh.step.get();
        let lmin_cfg = self.sc.lat.min();
        let page = |off: u64| self.sc.cache.as_ref().map(|c| off / c.page_size.max(1));
        for p in queued {
            let seq = sh.seq.get();
            sh.seq.set(seq + 1);
            let mut o = SOut { kind: p.kind.clone(), expect: Expect::Exec, submit_step: step, lmin: lmin_cfg, seq };
            if p.bad_flag {
                o.expect = Expect::Fixed(EINVAL);
                o.lmin = 0;
            } else {
                match &p.kind {
                    Kind::Read { slot, off, .. } => {
                        if let Some(pg) = page(*off) {
                            let mut t = sh.touched.borrow_mut();
                            if t.contains(&(*slot, pg)) {
                                o.lmin = lmin_cfg.min(HIT_NS);
                            }
                            t.insert((*slot, pg));
                        }
                    }
                    Kind::Write { slot, off, .. } => {
                        if let Some(pg) = page(*off) {
                            sh.touched.borrow_mut().insert((*slot, pg));
                        }
                    }
                    Kind::Fsync { .. } => {}
                    Kind::Cancel { target } => {
                        sh.cancels.set(sh.cancels.get() + 1);
                        o.lmin = 0;
                        let mut outs = sh.outstanding.borrow_mut();
                        if let Some(t) = outs.get_mut(target) {
                            if let (Kind::Read { buf, .. }, Expect::Exec) = (&t.kind, &t.expect) {
                                sh.cancelled_reads.borrow_mut().push((*target, *buf));
                            }
                            t.expect = Expect::Fixed(ECANCELED);
                            t.lmin = 0;
                            o.expect = Expect::Fixed(0);
                            sh.label("sim-cancel-found");
                        } else {
                            o.expect = Expect::Fixed(ENOENT);
                        }
                    }
                }
            }
            sh.outstanding.borrow_mut().insert(p.ud, o);
        }
        let n = sh.outstanding.borrow().len();
        sh.max_inflight.set(sh.max_inflight.get().max(n));
    }

    fn push(&mut self, op: &SOp) {
        let sh = self.sh.clone();
        if sh.queued.borrow().len() >= self.depth {
            self.submit();
        }
        let nfiles = self.real.len();
        let ud = sh.next_ud.get();
        sh.next_ud.set(ud + 1);
        let mut arena = sh.arena.borrow_mut();
        let (kind, flag) = match op {
            SOp::Read { file, off, len, flag } => {
                arena.push(vec![SENTINEL; *len as usize].into_boxed_slice());
                (Kind::Read { slot: *file as usize % nfiles, gen: 0, off: *off as u64, buf: arena.len() - 1 }, *flag)
            }
            SOp::Write { file, off, len, fill, flag } => {
                arena.push(pattern(*fill, *len as usize).into_boxed_slice());
                (Kind::Write { slot: *file as usize % nfiles, gen: 0, off: *off as u64, buf: arena.len() - 1 }, *flag)
            }
            SOp::Fsync { file, flag } => (Kind::Fsync { slot: *file as usize % nfiles, gen: 0 }, *flag),
            SOp::Cancel { target, flag } => {
                let mut c: Vec<u64> = sh.outstanding.borrow().keys().copied().collect();
                c.extend(sh.queued.borrow().iter().map(|p| p.ud));
                let t = if c.is_empty() { 1 << 40 } else { c[pick(*target, c.len())] };
                (Kind::Cancel { target: t }, *flag)
            }
        };
        let (flags, bad) = flag_of(flag);
        let entry = match &kind {
            Kind::Read { slot, off, buf, .. } => {
                let b = &mut arena[*buf];
                opcode::Read::new(types::Fd(self.real[*slot].as_raw_fd()), b.as_mut_ptr(), b.len() as u32)
                    .offset(*off)
                    .build()
            }
            Kind::Write { slot, off, buf, .. } => {
                let b = &arena[*buf];
                opcode::Write::new(types::Fd(self.real[*slot].as_raw_fd()), b.as_ptr(), b.len() as u32)
                    .offset(*off)
                    .build()
            }
            Kind::Fsync { slot, .. } => opcode::Fsync::new(types::Fd(self.real[*slot].as_raw_fd())).build(),
            Kind::Cancel { target } => opcode::AsyncCancel::new(*target).build(),
        }
        .user_data(ud)
        .flags(flags);
        drop(arena);
        // SAFETY: single writer; buffers live in the shared arena, which outlives the software.
        let r = unsafe { self.ring.submission().push(&entry) };
        if r.is_err() {
            sh.fail("push: refused although the queue is not full", format!("sim mode, ud {ud}"));
            return;
        }
        sh.queued.borrow_mut().push(Pushed { ud, kind, bad_flag: bad });
    }

    fn on_cqe(&mut self, ud: u64, res: i32) {
        let sh = self.sh.clone();
        sh.cqes.set(sh.cqes.get() + 1);
        let step = sh.step.get();
        let Some(o) = sh.outstanding.borrow_mut().remove(&ud) else {
            let sig = if sh.dead.borrow().contains(&ud) {
                "crash: an operation submitted before the crash completed afterwards"
            } else {
                "exactly-once: duplicate or misrouted completion"
            };
            sh.fail(sig, format!("sim mode: ud {ud} result {res} at step {step}"));
            return;
        };
        if sh.outstanding.borrow().values().any(|x| x.seq < o.seq) {
            sh.ooo.set(true);
        }
        if (step - o.submit_step) * self.tick_ns() < o.lmin {
            sh.fail(
                "visibility: completion yielded before its minimum latency elapsed",
                format!(
                    "sim mode: ud {ud} {:?} submitted in step {} (lmin {} ns, tick {} ns) yielded in step {step}",
                    o.kind, o.submit_step, o.lmin, self.tick_ns()
                ),
            );
            return;
        }
        match o.expect {
            Expect::Fixed(v) => {
                if res != v {
                    let sig = match v {
                        ECANCELED => "cancel: cancelled target did not complete with -ECANCELED",
                        0 | ENOENT => "cancel: wrong result for the cancel entry itself",
                        _ => "flags: unsupported flag did not complete with -EINVAL",
                    };
                    sh.fail(sig, format!("sim mode: ud {ud} {:?}: expected {v} got {res}", o.kind));
                }
            }
            Expect::Exec => {
                let arena = sh.arena.borrow();
                match &o.kind {
                    Kind::Read { slot, off, buf, .. } => {
                        let mut tb = vec![SENTINEL; arena[*buf].len()];
                        let r = with_twin(&self.twin, || self.tw[*slot].read_at(&mut tb, *off));
                        match r {
                            Ok(n) if n as i32 != res => sh.fail(
                                "differential: read result differs from read_at",
                                format!("sim mode: ud {ud} {:?}: cqe {res}, read_at {n}", o.kind),
                            ),
                            Ok(_) if *arena[*buf] != tb[..] => sh.fail(
                                "differential: read buffer differs from read_at",
                                format!("sim mode: ud {ud} {:?}: ring {:?} twin {:?}", o.kind, arena[*buf], tb),
                            ),
                            Ok(_) => {}
                            Err(e) if e.kind() == std::io::ErrorKind::PermissionDenied => {
                                sh.label("sim-read-on-handle-without-read-access");
                                if res >= 0 || arena[*buf].iter().any(|b| *b != SENTINEL) {
                                    sh.fail(
                                        "differential: ring read succeeded on a handle not opened for reading",
                                        format!("sim mode: ud {ud} {:?}: cqe {res}, read_at {e}; buffer {:?}", o.kind, arena[*buf]),
                                    );
                                } else if res != EBADF {
                                    sh.fail(
                                        "differential: access-mode failure did not complete with -EBADF",
                                        format!("sim mode: ud {ud} {:?}: cqe {res}, read_at {e}", o.kind),
                                    );
                                }
                            }
                            Err(e) => sh.fail("harness: twin read_at failed", format!("{e}")),
                        }
                    }
                    Kind::Write { slot, off, buf, .. } => {
                        let r = with_twin(&self.twin, || self.tw[*slot].write_at(&arena[*buf], *off));
                        let mode = self.sc.modes.get(*slot).copied().unwrap_or(0);
                        match r {
                            Ok(n) if n as i32 != res => sh.fail(
                                "differential: write result differs from write_at",
                                format!("sim mode: ud {ud} {:?} ({} handle): cqe {res}, write_at {n}", o.kind, mode_name(mode)),
                            ),
                            Ok(_) => {
                                if mode & MODE_APPEND != 0 {
                                    sh.label("sim-ring-write-on-append-mode-handle");
                                }
                            }
                            Err(e) if e.kind() == std::io::ErrorKind::PermissionDenied => {
                                sh.label("sim-write-on-handle-without-write-access");
                                if res >= 0 {
                                    sh.fail(
                                        "differential: ring write succeeded on a handle not opened for writing",
                                        format!("sim mode: ud {ud} {:?}: cqe {res}, write_at {e}", o.kind),
                                    );
                                } else if res != EBADF {
                                    sh.fail(
                                        "differential: access-mode failure did not complete with -EBADF",
                                        format!("sim mode: ud {ud} {:?}: cqe {res}, write_at {e}", o.kind),
                                    );
                                }
                            }
                            Err(e) => sh.fail("harness: twin write_at failed", format!("{e}")),
                        }
                    }
                    Kind::Fsync { slot, .. } => {
                        let r = with_twin(&self.twin, || self.tw[*slot].sync_all());
                        match r {
                            Ok(()) if res != 0 => sh.fail(
                                "differential: fsync result differs from sync_all",
                                format!("sim mode: ud {ud}: cqe {res}"),
                            ),
                            Ok(()) => {}
                            Err(e) => sh.fail("harness: twin sync_all failed", format!("{e}")),
                        }
                    }
                    Kind::Cancel { .. } => {}
                }
            }
        }
    }

    /// sync and take up to k (0 = everything exposed); returns how many were taken
    fn take(&mut self, k: u8) -> usize {
        let mut got = Vec::new();
        {
            let mut cq = self.ring.completion();
            cq.sync();
            let budget = if k == 0 { usize::MAX } else { k as usize };
            while got.len() < budget {
                match cq.next() {
                    Some(e) => got.push((e.user_data(), e.result())),
                    None => break,
                }
            }
        }
        let n = got.len();
        for (ud, res) in got {
            self.on_cqe(ud, res);
        }
        n
    }

    fn compare_contents(&self, sig: &str) {
        for i in 0..self.real.len() {
            let path = format!("/f{i}");
            let a = sfs::read(&path).map_err(|e| e.kind().to_string());
            let b = with_twin(&self.twin, || sfs::read(&path)).map_err(|e| e.kind().to_string());
            if a != b {
                self.sh.fail(sig, format!("sim mode {path}: ring-side {a:?} twin {b:?}"));
                return;
            }
        }
    }
}

async fn sim_program(
    sh: std::rc::Rc<SimShared>,
    sc: std::rc::Rc<SimScenario>,
    twin: Arc<Mutex<Fs>>,
) -> turmoil::Result {
    let phase = sh.phase.get();
    let nfiles = sc.files.len().clamp(1, 2);
    // after a crash: first look at what survived (before `create` re-creates lost files)
    if phase > 0 {
        for i in 0..nfiles {
            let path = format!("/f{i}");
            let a = sfs::read(&path).map_err(|e| e.kind().to_string());
            let b = with_twin(&twin, || sfs::read(&path)).map_err(|e| e.kind().to_string());
            if a != b {
                sh.fail(
                    "differential: contents surviving a crash differ from the synchronous twin",
                    format!("sim mode {path}: ring-side {a:?} twin {b:?}"),
                );
            }
        }
    }
    let mut real = Vec::new();
    let mut tw = Vec::new();
    for i in 0..nfiles {
        let path = format!("/f{i}");
        real.push(open_rw(&path)?);
        tw.push(with_twin(&twin, || open_rw(&path))?);
        if phase == 0 {
            let (len, fill, durable) = sc.files.get(i).copied().unwrap_or((0, 0, false));
            let data = pattern(fill, len as usize);
            if !data.is_empty() {
                real[i].write_at(&data, 0)?;
                with_twin(&twin, || tw[i].write_at(&data, 0))?;
            }
            if durable {
                real[i].sync_all()?;
                sfs::sync_dir("/")?;
                with_twin(&twin, || tw[i].sync_all().and_then(|_| sfs::sync_dir("/")))?;
            }
        }
        // continue with the handle kind the scenario asks for
        let mode = sc.modes.get(i).copied().unwrap_or(0);
        if mode != 0 {
            drop(real.pop());
            with_twin(&twin, || drop(tw.pop()));
            real.push(open_mode(&path, mode)?);
            tw.push(with_twin(&twin, || open_mode(&path, mode))?);
            if access_of(mode) != (true, true, false) {
                sh.label("sim-restricted-access-mode");
            }
            if mode & MODE_APPEND != 0 {
                sh.label("sim-append-mode-handle");
            }
        }
    }
    // side rings: never used for I/O, they only churn the ring registry
    let mut side: Vec<IoUring> = Vec::new();
    if sc.elder {
        side.push(IoUring::new(2)?);
    }
    let ring = IoUring::new(sc.depth.clamp(1, 8) as u32)?;
    let depth = ring.params().sq_entries() as usize;
    let ring_fd = ring.as_raw_fd();
    let churn = |side: &mut Vec<IoUring>, n: u8| -> std::io::Result<()> {
        if n == 0 {
            return Ok(());
        }
        if !side.is_empty() {
            if !sh.outstanding.borrow().is_empty() {
                sh.label("sim-older-ring-dropped-while-main-inflight");
            }
            drop(side.remove(0));
        }
        for _ in 0..n.min(3) {
            let r = IoUring::new(1)?;
            let fd = r.as_raw_fd();
            if fd == ring_fd || side.iter().any(|o| o.as_raw_fd() == fd) {
                sh.fail(
                    "ring-fd: a new ring got the fd of a ring that is still alive",
                    format!("sim mode: side ring got fd {fd} (main ring fd {ring_fd})"),
                );
            }
            side.push(r);
        }
        while side.len() > 4 {
            drop(side.remove(0));
        }
        sh.label("sim-ring-churn");
        Ok(())
    };
    let p = std::rc::Rc::new(std::cell::RefCell::new(SimProg {
        sh: sh.clone(),
        sc: sc.clone(),
        twin,
        real,
        tw,
        ring,
        depth,
    }));
    let rounds = if phase == 0 { sc.before.clone() } else { sc.after.clone() };
    const STUCK: &str = "readable: resolved although no completion can be taken";
    if sc.concurrent {
        // the usual consumer shape: one task loops on readable() and drains,
        // another one submits; the drainer regularly waits on an idle ring
        let (sh2, p2) = (sh.clone(), p.clone());
        tokio::task::spawn_local(async move {
            let afd = match turmoil_io_uring::AsyncFd::new(RingFd(ring_fd)) {
                Ok(a) => a,
                Err(e) => {
                    sh2.fail("harness: AsyncFd::new failed", format!("{e}"));
                    return;
                }
            };
            loop {
                sh2.waits.set(sh2.waits.get() + 1);
                match afd.readable().await {
                    Ok(mut g) => g.clear_ready(),
                    Err(e) => {
                        sh2.fail("readable: error on a live ring", format!("{e}"));
                        return;
                    }
                }
                if p2.borrow_mut().take(0) == 0 {
                    sh2.fail(STUCK, format!("sim mode (drainer task): step {}", sh2.step.get()));
                    return;
                }
                if sh2.failed() {
                    return;
                }
            }
        });
        for r in &rounds {
            if sh.failed() {
                break;
            }
            if r.sleep_ms > 0 {
                tokio::time::sleep(Duration::from_millis(r.sleep_ms as u64)).await;
            } else {
                tokio::task::yield_now().await;
            }
            churn(&mut side, r.churn)?;
            let mut pm = p.borrow_mut();
            for op in &r.ops {
                pm.push(op);
            }
            pm.submit();
        }
        while !sh.outstanding.borrow().is_empty() && !sh.failed() {
            tokio::time::sleep(Duration::from_millis(1)).await;
        }
        sh.label("sim-concurrent-drainer");
    } else {
        let afd = turmoil_io_uring::AsyncFd::new(RingFd(ring_fd))?;
        for r in &rounds {
            if sh.failed() {
                break;
            }
            if r.sleep_ms > 0 {
                tokio::time::sleep(Duration::from_millis(r.sleep_ms as u64)).await;
            }
            churn(&mut side, r.churn)?;
            {
                let mut pm = p.borrow_mut();
                for op in &r.ops {
                    pm.push(op);
                }
                pm.submit();
            }
            match r.drain {
                SDrain::None => {}
                SDrain::Poll(k) => {
                    p.borrow_mut().take(k);
                }
                SDrain::Once(k) => {
                    if !sh.outstanding.borrow().is_empty() {
                        sh.waits.set(sh.waits.get() + 1);
                        afd.readable().await?.clear_ready();
                        if p.borrow_mut().take(k) == 0 {
                            sh.fail(STUCK, format!("sim mode: step {}", sh.step.get()));
                        }
                    }
                }
                SDrain::All => {
                    while !sh.outstanding.borrow().is_empty() && !sh.failed() {
                        sh.waits.set(sh.waits.get() + 1);
                        afd.readable().await?.clear_ready();
                        if p.borrow_mut().take(0) == 0 {
                            sh.fail(STUCK, format!("sim mode: step {}", sh.step.get()));
                        }
                    }
                }
            }
        }
        // final drain: everything submitted must come back through the readable loop
        while !sh.outstanding.borrow().is_empty() && !sh.failed() {
            sh.waits.set(sh.waits.get() + 1);
            afd.readable().await?.clear_ready();
            if p.borrow_mut().take(0) == 0 {
                sh.fail(STUCK, format!("sim mode: step {}", sh.step.get()));
            }
        }
    }
    if !sh.failed() {
        for (ud, buf) in sh.cancelled_reads.borrow().iter() {
            if sh.arena.borrow()[*buf].iter().any(|b| *b != SENTINEL) {
                sh.fail("cancel: buffer of a cancelled read was written", format!("sim mode: ud {ud}"));
            }
        }
        p.borrow().compare_contents("differential: file contents differ from the synchronous twin");
    }
    sh.done.set(phase + 1);
    // keep files and ring alive until the controller is finished with this phase
    std::future::pending::<()>().await;
    drop(side);
    drop(p);
    Ok(())
}

pub fn run_sim(sc: &SimScenario) -> Outcome {
    let mut out = Outcome::ok();
    let sh = std::rc::Rc::new(SimShared::default());
    sh.next_ud.set(1);
    let scr = std::rc::Rc::new(sc.clone());
    let cfg = fs_config_of(&sc.lat, &sc.cache, None);
    let twin = Arc::new(Mutex::new(Fs::new(cfg.clone(), sc.seed)));
    let tick = Duration::from_millis(sc.tick_ms.max(1) as u64);
    let mut b = turmoil::Builder::new();
    b.tick_duration(tick)
        .rng_seed(sc.seed)
        .epoch(std::time::SystemTime::UNIX_EPOCH + Duration::from_secs(1))
        .simulation_duration(Duration::from_secs(100_000));
    *b.fs() = cfg;
    let mut sim = b.build();
    {
        let (sh, scr, twin) = (sh.clone(), scr.clone(), twin.clone());
        sim.host("h", move || sim_program(sh.clone(), scr.clone(), twin.clone()));
    }
    let last_phase: u32 = if sc.crash_at.is_some() { 2 } else { 1 };
    let mut crashed_at: Option<u64> = None;
    let mut bounced = false;
    let mut crash_inflight = false;
    let limit: u64 = 4_000;
    let mut k: u64 = 0;
    loop {
        sh.step.set(k);
        if let Err(e) = sim.step() {
            out.fail("sim: step returned an error", format!("{e}"));
            break;
        }
        k += 1;
        if sh.failed() {
            break;
        }
        if let (Some(c), None) = (sc.crash_at, crashed_at) {
            if k >= c as u64 {
                if !sh.outstanding.borrow().is_empty() {
                    crash_inflight = true;
                }
                sim.crash("h");
                twin.lock().unwrap().crash();
                let mut dead = sh.dead.borrow_mut();
                for (ud, _) in std::mem::take(&mut *sh.outstanding.borrow_mut()) {
                    dead.insert(ud);
                }
                for p in sh.queued.borrow_mut().drain(..) {
                    dead.insert(p.ud);
                }
                sh.cancelled_reads.borrow_mut().clear();
                sh.phase.set(1);
                crashed_at = Some(k);
            }
        } else if let (Some(at), false) = (crashed_at, bounced) {
            if k >= at + sc.down_steps as u64 {
                sim.bounce("h");
                bounced = true;
            }
        }
        if sh.done.get() >= last_phase {
            break;
        }
        if k > limit {
            let outs: Vec<String> = sh
                .outstanding
                .borrow()
                .iter()
                .map(|(ud, o)| format!("ud {ud} {:?} submitted in step {}", o.kind, o.submit_step))
                .collect();
            out.fail(
                "exactly-once: submitted entry never completed",
                format!("sim mode: program still waiting after {k} steps (phase {}): {}", sh.phase.get(), outs.join("; ")),
            );
            break;
        }
    }
    if let Some((s, d)) = sh.failure.borrow().clone() {
        out.fail(s, d);
    }
    for l in sh.labels.borrow().iter() {
        out.label(l.clone());
    }
    out.label(match sc.lat {
        Lat::None => "sim-lat-none",
        Lat::Fixed(_) => "sim-lat-fixed",
        Lat::Range(..) => "sim-lat-ranged",
    });
    if crash_inflight {
        out.label("sim-crash-with-inflight");
    } else if crashed_at.is_some() {
        out.label("sim-crash-idle");
    }
    if sh.ooo.get() {
        out.label("sim-out-of-order-drain");
    }
    if sh.waits.get() > 0 {
        out.label("sim-readable-awaited");
    }
    out.count("sim-cqes", sh.cqes.get());
    out.count("sim-readable-awaits", sh.waits.get());
    out.count("sim-steps", k);
    out.nontrivial = (sh.max_inflight.get() >= 2 && sh.ooo.get()) || sh.cancels.get() > 0 || crash_inflight;
    drop(sim);
    out
}

fn sop_strategy() -> BoxedStrategy<SOp> {
    let file = 0u8..2;
    let off = 0u16..=24;
    let len = prop_oneof![1 => Just(0u8), 8 => 1u8..=16];
    prop_oneof![
        4 => (file.clone(), off.clone(), len.clone(), flag_strategy())
            .prop_map(|(file, off, len, flag)| SOp::Read { file, off, len, flag }),
        4 => (file.clone(), off, len, any::<u8>(), flag_strategy())
            .prop_map(|(file, off, len, fill, flag)| SOp::Write { file, off, len, fill, flag }),
        2 => (file, flag_strategy()).prop_map(|(file, flag)| SOp::Fsync { file, flag }),
        2 => (any::<u16>(), flag_strategy()).prop_map(|(target, flag)| SOp::Cancel { target, flag }),
    ]
    .boxed()
}

fn round_strategy() -> BoxedStrategy<Round> {
    let drain = prop_oneof![
        2 => Just(SDrain::None),
        2 => (0u8..=2).prop_map(SDrain::Poll),
        3 => (0u8..=2).prop_map(SDrain::Once),
        3 => Just(SDrain::All),
    ];
    (
        prop_oneof![3 => Just(0u8), 2 => 1u8..=4],
        proptest::collection::vec(sop_strategy(), 0..6),
        drain,
        prop_oneof![4 => Just(0u8), 1 => 1u8..=3],
    )
        .prop_map(|(sleep_ms, ops, drain, churn)| Round { sleep_ms, ops, drain, churn })
        .boxed()
}

pub fn sim_strategy() -> BoxedStrategy<SimScenario> {
    let mag = prop_oneof![
        Just(100u64),
        Just(50_000),
        Just(999_999),
        Just(1_000_000),
        Just(1_000_001),
        Just(2_000_000),
        Just(3_500_000),
    ];
    let lat = prop_oneof![
        1 => Just(Lat::None),
        3 => mag.clone().prop_map(Lat::Fixed),
        3 => (mag.clone(), mag, 1u8..=100).prop_map(|(a, s, l)| Lat::Range(a, s, l)),
    ];
    let cache = prop_oneof![
        1 => Just(None),
        1 => (prop_oneof![Just(8u64), Just(4096)], prop_oneof![Just(1usize), Just(256)])
            .prop_map(|(page_size, max_pages)| Some(Cache { page_size, max_pages, evict_pct: 0 })),
    ];
    (
        any::<u64>(),
        1u8..=3,
        lat,
        cache,
        1u8..=8,
        proptest::collection::vec((0u8..=24, any::<u8>(), any::<bool>()), 1..=2),
        proptest::collection::vec(round_strategy(), 1..6),
        proptest::collection::vec(round_strategy(), 0..4),
        prop_oneof![1 => Just(None), 3 => (1u16..=8).prop_map(Some)],
        (0u8..=3, any::<bool>(), any::<bool>(), proptest::collection::vec(mode_strategy(), 2..=2)),
    )
        .prop_map(|(seed, tick_ms, lat, cache, depth, files, before, after, crash_at, (down_steps, concurrent, elder, modes))| SimScenario {
            seed,
            tick_ms,
            lat,
            cache,
            depth,
            files,
            before,
            after,
            crash_at,
            down_steps,
            concurrent,
            elder,
            modes,
        })
        .boxed()
}

fn check(tier: Tier, seed: u64) -> i32 {
    let ctx = Ctx::new("C18", tier, seed, "exploration");
    ctx.replay_corpus(&replay);
    // VERIF_C18_SUB=direct|sim restricts the run to one driver (used for mutant runs only)
    let only = std::env::var("VERIF_C18_SUB").ok();
    if only.as_deref() != Some("sim") {
        ctx.random("direct", tier.pick(100_000, 1_000_000), &|| strategy(), &run);
    }
    if only.as_deref() != Some("direct") {
        ctx.random("sim", tier.pick(6_000, 60_000), &|| sim_strategy(), &run_sim);
    }
    ctx.finish(
        "direct: random histories over 1-4 ring slots (1-4 rings from the start plus empty slots; requested depth 1-8; rings are dropped, created into empty slots and churned: drop one, then create 1-3) and 1-3 files (each with its own kind of handle, unless F-C18-1 is listed as known: any access-mode combination OpenOptions accepts — read+write, read-only, write-only, append-only, read+append, write+append, read+write+append — plain or O_DIRECT, opened with create / without create on an existing file / create+truncate / create_new on a freed name where the access mode allows it, directly or as a try_clone of the opened handle whose original is closed; the twin Fs gets an identically opened handle) of one Fs driven directly (harness owns `now`): push read/write/fsync/cancel with optional (un)supported flags, pushes on a full queue, submit (three API variants), clock advances hitting the latency boundaries exactly (min-1, min, max, 99/100 ns), sync + full/partial/late drains (also across a clock advance and without sync), interleaved std-shim writes (write_at, and std::io::Write::write = append on append-mode handles) and syncs, closing/reopening files with ops in flight, dropping/recreating rings (ring fds of simultaneously live rings must be pairwise distinct), crashes (Fs::crash + IoUringHostState::crash, stale ring handles kept and polled); io latency none/fixed/ranged, page cache on/off, optional capacity (ENOSPC). sim: one turmoil host, tick 1-3 ms, 1-2 files with the same kinds of handle as in direct, optional side rings created before / churned next to the main ring, rounds of push/submit/drain through AsyncFd::readable (single task, or a separate drainer task that also waits on an idle ring), Sim::crash at a generated step + Sim::bounce, second program after the bounce. Every CQE is checked for exactly-once, visibility >= submit + minimum latency, result/buffer equality with the synchronous twin in CQE order; at the end all submitted entries must have completed, cancelled read buffers must be untouched, file contents (and the contents surviving a crash) must equal the twin. Non-trivial = (>= 2 entries in flight at once and at least one CQE yielded before an earlier-submitted one) or a submitted cancel or a crash with entries in flight. Distinct by scenario hash.",
        &[
            "side effects are compared in CQE yield order, which the crate documents as the order in which effects are applied (PendingApply / CompletionQueue rustdoc)",
            "no fault injection (io_error/short_read/corruption/sync probabilities are 0) and atomic writes (no block_size): these draw from the Fs RNG, which the twin cannot share",
            "while F-C18-1 is listed as known every generated handle is opened read+write; otherwise every access-mode combination is generated and a ring op that the synchronous API refuses with PermissionDenied on the identically opened twin handle must complete with -EBADF (sim.rs exec_read/exec_write) without touching buffer or file, while one it accepts must complete with the same byte count and leave the same file contents; O_DIRECT handles use alignment 1",
            "a ring Write/Read carries an explicit offset; on an append-mode handle it is compared with FileExt::write_at/read_at of the crate's own synchronous shim at that offset on an append-mode twin handle (which, in this simulation, writes at the given offset); nothing is assumed about Linux pwrite-on-O_APPEND semantics, and the 'current position' offset (-1) is not generated",
            "entries of a dropped ring are exempt from exactly-once (nothing can observe them); they must not surface on another ring or change any file",
            "a read may be as fast as 100 ns only if its page was touched by an earlier submitted read/write on a non-O_DIRECT handle (page cache on); everything else needs the configured minimum",
            "cancel results follow the crate's rustdoc: target queued-or-matured-but-undrained => target -ECANCELED and cancel 0, otherwise cancel -ENOENT; an op whose file was closed completes with -EBADF",
            "sim mode: the `now` seen by fs/io_uring is the host time at the start of the tick, so the visibility bound is checked on step-start times (whole-millisecond ticks only)",
        ],
    )
}

fn replay(sub: &str, v: &Value) -> Result<Outcome, String> {
    if sub.starts_with("sim") {
        replay_as::<SimScenario>(v, &run_sim)
    } else {
        replay_as::<Scenario>(v, &run)
    }
}

//! C15 — ports and simulated addresses are never handed out twice while in
//! use.  DESIGN.md §6 C15.  SimDriver; port-set model + DNS map model.

use crate::engine::{pick, replay_as, Ctx, Outcome, Tier};
use proptest::prelude::*;
use serde::{Deserialize, Serialize};
use serde_json::Value;
use std::cell::RefCell;
use std::collections::{BTreeMap, BTreeSet, VecDeque};
use std::net::IpAddr;
use std::panic::{catch_unwind, AssertUnwindSafe};
use std::rc::Rc;
use std::time::{Duration, SystemTime};
use turmoil::net::{TcpListener, TcpStream, UdpSocket};

pub const PROP: super::Prop = super::Prop {
    id: "C15",
    level: "exploration",
    check,
    replay,
};

// ---------------------------------------------------------------- ports

#[derive(Clone, Debug, Serialize, Deserialize)]
pub enum PortSel {
    Zero,
    /// offset from the start of the ephemeral range (may fall outside it)
    Off(i16),
}

#[derive(Clone, Debug, Serialize, Deserialize)]
pub enum Op {
    /// bind on the wildcard address (0.0.0.0 / ::)
    BindUdp(PortSel),
    BindTcp(PortSel),
    /// the same binds on the loopback address (127.0.0.1 / ::1): the bind address is a
    /// dimension of its own -- a port bound at ANY address of the host is in use for that
    /// protocol, in both orders (wildcard then loopback, loopback then wildcard)
    BindUdpLo(PortSel),
    BindTcpLo(PortSel),
    /// outgoing connect to the peer's listener (takes an ephemeral local port)
    Connect,
    /// outgoing connect to a port nobody listens on
    ConnectRefused,
    /// outgoing connect to an address no host owns
    ConnectNowhere,
    /// outgoing connect cancelled by a timeout before the SYN can arrive
    ConnectCancelled,
    /// the peer connects to one of our listeners and we accept it
    AcceptFromPeer(u16),
    /// connect to one of our own listeners through 127.0.0.1 / ::1 and accept it: two live
    /// streams on this host whose local address is the loopback address
    ConnectLoopback(u16),
    Drop(u16),
    CrashBounce,
}

#[derive(Clone, Debug, Serialize, Deserialize)]
pub struct PortScenario {
    pub range_len: u16,
    pub v6: bool,
    pub seed: u64,
    pub ops: Vec<Op>,
}

enum Sock {
    Udp(#[allow(dead_code)] UdpSocket, u16),
    Lis(TcpListener, u16),
    Stream(#[allow(dead_code)] TcpStream, u16),
}
impl Sock {
    fn port(&self) -> u16 {
        match self {
            Sock::Udp(_, p) | Sock::Lis(_, p) | Sock::Stream(_, p) => *p,
        }
    }
}

#[derive(Clone, Copy, PartialEq, Eq, Debug)]
enum K {
    Udp,
    Lis,
    /// listener bound on the loopback address: not reachable by the peer, only through loopback
    LisLo,
    Stream,
    /// accepted from the peer (the peer holds an ephemeral port of its own for it)
    Accepted,
    /// accepted end of a loopback connection made by this host itself
    LoopAccepted,
}

#[derive(Default)]
struct PState {
    queue: VecDeque<Op>,
    /// model of the live sockets of host h, index-for-index with the host task's own vector
    socks: Vec<(K, u16)>,
    fail: Option<(String, String)>,
    want_crash: bool,
    idle: bool,
    /// request for the peer: connect to this port on h
    peer_connect: Option<u16>,
    wraps: u64,
    skipped_in_use: u64,
    last_eph: Option<u16>,
    expecting_free: bool,
    ops_done: u64,
    /// explicit binds attempted on a port in use for that protocol, by (address of the live
    /// socket, address asked for): [any-any, any-lo, lo-any, lo-lo]
    rebind: [u64; 4],
    /// parallel to `socks`: the socket was bound on the loopback address (UDP / listeners only)
    lo: Vec<bool>,
    crashes: u64,
    refused: u64,
    loopback: u64,
    /// parallel to `socks`: loopback pair id (0 = none); both ends of a pair are dropped together
    pair: Vec<u32>,
}

const LO: u16 = 50000;

fn in_use(st: &PState) -> (BTreeSet<u16>, BTreeSet<u16>, BTreeSet<u16>) {
    let mut udp = BTreeSet::new();
    let mut lis = BTreeSet::new();
    let mut streams = BTreeSet::new();
    for s in &st.socks {
        match s {
            (K::Udp, p) => {
                udp.insert(*p);
            }
            (K::Lis, p) | (K::LisLo, p) => {
                lis.insert(*p);
            }
            (K::Stream, p) | (K::Accepted, p) | (K::LoopAccepted, p) => {
                streams.insert(*p);
            }
        }
    }
    (udp, lis, streams)
}

fn free_ports(st: &PState, range_len: u16) -> Vec<u16> {
    let (u, l, s) = in_use(st);
    (LO..LO + range_len).filter(|p| !u.contains(p) && !l.contains(p) && !s.contains(p)).collect()
}

fn note_ephemeral(st: &mut PState, port: u16, range_len: u16, what: &str) {
    let (u, l, s) = in_use(st);
    if port < LO || port >= LO + range_len {
        st.fail.get_or_insert((
            format!("{what}-ephemeral-port-outside-range"),
            format!("{what}: got port {port}, range {LO}..={}", LO + range_len - 1),
        ));
        return;
    }
    if u.contains(&port) || l.contains(&port) || s.contains(&port) {
        st.fail.get_or_insert((
            format!("{what}-ephemeral-port-already-in-use"),
            format!("{what}: got port {port}; udp {u:?}, tcp listeners {l:?}, live stream local ports {s:?}"),
        ));
        return;
    }
    if let Some(last) = st.last_eph {
        if port <= last {
            st.wraps += 1;
        }
        // ports strictly between last and port (cyclically) were skipped
        let mut q = if last + 1 >= LO + range_len { LO } else { last + 1 };
        let mut guard = 0;
        while q != port && guard < range_len {
            if u.contains(&q) || l.contains(&q) || s.contains(&q) {
                st.skipped_in_use += 1;
            }
            q = if q + 1 >= LO + range_len { LO } else { q + 1 };
            guard += 1;
        }
    }
    st.last_eph = Some(port);
}

async fn port_host(sh: Rc<RefCell<PState>>, range_len: u16, v6: bool) -> turmoil::Result {
    let any = if v6 { "::" } else { "0.0.0.0" };
    let lo_ip = if v6 { "::1" } else { "127.0.0.1" };
    // the sockets are owned by this task, so a crash drops them
    let mut mine: Vec<Sock> = Vec::new();
    loop {
        let op = {
            let mut st = sh.borrow_mut();
            if st.fail.is_some() {
                st.idle = true;
                None
            } else {
                let o = st.queue.pop_front();
                if o.is_none() {
                    st.idle = true;
                }
                o
            }
        };
        let Some(op) = op else {
            return std::future::pending().await;
        };
        let sel_port = |p: &PortSel| -> u16 {
            match p {
                PortSel::Zero => 0,
                PortSel::Off(o) => (LO as i32 + *o as i32).clamp(1, 65535) as u16,
            }
        };
        match op {
            Op::BindUdp(ref ps) | Op::BindUdpLo(ref ps) | Op::BindTcp(ref ps) | Op::BindTcpLo(ref ps) => {
                let udp = matches!(op, Op::BindUdp(_) | Op::BindUdpLo(_));
                let lo = matches!(op, Op::BindUdpLo(_) | Op::BindTcpLo(_));
                let (w, wl) = if udp { ("udp-bind", "udp") } else { ("tcp-listen", "listeners") };
                let ip = if lo { lo_ip } else { any };
                let want = sel_port(ps);
                if want == 0 && free_ports(&sh.borrow(), range_len).is_empty() {
                    continue; // exhaustion is a documented panic; not generated
                }
                sh.borrow_mut().expecting_free = want == 0;
                let r = if udp {
                    UdpSocket::bind((ip, want)).await.map(|s| (s.local_addr().unwrap(), Sock::Udp(s, 0)))
                } else {
                    TcpListener::bind((ip, want)).await.map(|s| (s.local_addr().unwrap(), Sock::Lis(s, 0)))
                };
                let mut st = sh.borrow_mut();
                st.expecting_free = false;
                st.ops_done += 1;
                // the port space of this protocol: ports bound by a live socket at ANY address
                let (u, l, _) = in_use(&st);
                let used = if udp { u } else { l };
                // who holds the port now (address class of the live socket), for the detail text
                let holder = |st: &PState| -> Option<bool> {
                    (0..st.socks.len()).find(|j| st.socks[*j].1 == want && (if udp { st.socks[*j].0 == K::Udp } else { matches!(st.socks[*j].0, K::Lis | K::LisLo) })).map(|j| st.lo[j])
                };
                let cls = |b: bool| if b { "loopback" } else { "wildcard" };
                let held = holder(&st);
                if want != 0 {
                    if let Some(h) = held {
                        st.rebind[(h as usize) * 2 + lo as usize] += 1;
                    }
                }
                match r {
                    Ok((la, s)) => {
                        let p = la.port();
                        if la.ip().is_loopback() != lo || la.ip().is_unspecified() == lo {
                            st.fail.get_or_insert((format!("{w}-local-address-differs-from-bind-address"), format!("bound {ip}:{want}, local_addr {la}")));
                        }
                        if want == 0 {
                            note_ephemeral(&mut st, p, range_len, w);
                        } else if p != want {
                            st.fail.get_or_insert((format!("{w}-wrong-port"), format!("asked {want}, got {p}")));
                        } else if used.contains(&want) {
                            st.fail.get_or_insert((
                                format!("{w}-succeeded-on-port-in-use"),
                                format!("port {want} bound on the {} address while a live socket holds it on the {} address; {wl} {used:?}", cls(lo), held.map(cls).unwrap_or("?")),
                            ));
                        }
                        st.socks.push((if udp { K::Udp } else if lo { K::LisLo } else { K::Lis }, p));
                        st.pair.push(0);
                        st.lo.push(lo);
                        mine.push(match s {
                            Sock::Udp(s, _) => Sock::Udp(s, p),
                            Sock::Lis(s, _) => Sock::Lis(s, p),
                            s => s,
                        });
                    }
                    Err(e) => {
                        let k = e.kind();
                        if want == 0 {
                            st.fail.get_or_insert((format!("{w}-zero-failed"), format!("{k:?}")));
                        } else if !used.contains(&want) {
                            st.fail.get_or_insert((format!("{w}-failed-on-free-port"), format!("port {want} ({} address): {k:?}; {wl} {used:?}", cls(lo))));
                        } else if k != std::io::ErrorKind::AddrInUse {
                            st.fail.get_or_insert((format!("{w}-in-use-wrong-error-kind"), format!("port {want}: {k:?}")));
                        }
                    }
                }
            }
            Op::Connect => {
                if free_ports(&sh.borrow(), range_len).is_empty() {
                    continue;
                }
                sh.borrow_mut().expecting_free = true;
                let r = TcpStream::connect(("p", 9000)).await;
                let mut st = sh.borrow_mut();
                st.expecting_free = false;
                st.ops_done += 1;
                match r {
                    Ok(s) => {
                        let p = s.local_addr().unwrap().port();
                        note_ephemeral(&mut st, p, range_len, "tcp-connect");
                        st.socks.push((K::Stream, p));
                        st.pair.push(0);
                        st.lo.push(false);
                        mine.push(Sock::Stream(s, p));
                    }
                    Err(e) => {
                        st.fail.get_or_insert(("connect-to-listening-peer-failed".into(), format!("{:?}", e.kind())));
                    }
                }
            }
            Op::ConnectRefused | Op::ConnectNowhere | Op::ConnectCancelled => {
                if free_ports(&sh.borrow(), range_len).is_empty() {
                    continue;
                }
                sh.borrow_mut().expecting_free = true;
                let r = match op {
                    Op::ConnectRefused => TcpStream::connect(("p", 9001)).await.map(|_| ()),
                    Op::ConnectNowhere => {
                        let a = if v6 { "fe80::dead:beef" } else { "192.168.200.200" };
                        TcpStream::connect((a, 9000)).await.map(|_| ())
                    }
                    _ => match tokio::time::timeout(Duration::ZERO, TcpStream::connect(("p", 9000))).await {
                        Ok(r) => r.map(|_| ()),
                        Err(_) => Err(std::io::Error::new(std::io::ErrorKind::TimedOut, "cancelled")),
                    },
                };
                let mut st = sh.borrow_mut();
                st.expecting_free = false;
                st.ops_done += 1;
                st.refused += 1;
                match (&op, r) {
                    (Op::ConnectCancelled, Ok(())) => {} // raced to completion: stream dropped at once
                    (Op::ConnectCancelled, Err(_)) => {}
                    (_, Ok(())) => {
                        st.fail.get_or_insert(("connect-without-listener-succeeded".into(), format!("{op:?}")));
                    }
                    (_, Err(e)) if e.kind() != std::io::ErrorKind::ConnectionRefused => {
                        st.fail.get_or_insert(("failed-connect-wrong-error-kind".into(), format!("{op:?}: {:?}", e.kind())));
                    }
                    _ => {}
                }
                // model: a failed / cancelled connect holds no port afterwards
            }
            Op::AcceptFromPeer(i) => {
                let target = {
                    let st = sh.borrow();
                    let ls: Vec<usize> = st.socks.iter().enumerate().filter(|(_, s)| s.0 == K::Lis).map(|(k, _)| k).collect();
                    if ls.is_empty() {
                        None
                    } else {
                        Some(ls[pick(i, ls.len())])
                    }
                };
                let Some(idx) = target else { continue };
                // the peer shares the tiny ephemeral range: never ask it for more
                // simultaneous outgoing connections than it can have
                if sh.borrow().socks.iter().filter(|s| s.0 == K::Accepted).count() + 2 > range_len as usize {
                    continue;
                }
                let port = mine[idx].port();
                sh.borrow_mut().peer_connect = Some(port);
                let r = match &mine[idx] {
                    Sock::Lis(l, _) => tokio::time::timeout(Duration::from_millis(50), l.accept()).await,
                    _ => unreachable!(),
                };
                let mut st = sh.borrow_mut();
                st.ops_done += 1;
                match r {
                    Ok(Ok((s, _))) => {
                        let lp = s.local_addr().unwrap().port();
                        if lp != port {
                            st.fail.get_or_insert(("accepted-stream-wrong-local-port".into(), format!("listener {port}, stream {lp}")));
                        }
                        st.socks.push((K::Accepted, lp));
                        st.pair.push(0);
                        st.lo.push(false);
                        mine.push(Sock::Stream(s, lp));
                    }
                    Ok(Err(e)) => {
                        st.fail.get_or_insert(("accept-failed".into(), format!("{:?}", e.kind())));
                    }
                    Err(_) => {
                        st.fail.get_or_insert(("accept-hangs".into(), format!("no connection from the peer to port {port} within 50 ms")));
                    }
                }
            }
            Op::ConnectLoopback(i) => {
                let target = {
                    let st = sh.borrow();
                    let ls: Vec<usize> = st.socks.iter().enumerate().filter(|(_, s)| matches!(s.0, K::Lis | K::LisLo)).map(|(k, _)| k).collect();
                    if ls.is_empty() || free_ports(&st, range_len).is_empty() {
                        None
                    } else {
                        Some(ls[pick(i, ls.len())])
                    }
                };
                let Some(idx) = target else { continue };
                let port = mine[idx].port();
                sh.borrow_mut().expecting_free = true;
                let lo = lo_ip;
                let (c, a) = match &mine[idx] {
                    Sock::Lis(l, _) => tokio::join!(TcpStream::connect((lo, port)), tokio::time::timeout(Duration::from_millis(50), l.accept())),
                    _ => unreachable!(),
                };
                let mut st = sh.borrow_mut();
                st.expecting_free = false;
                st.ops_done += 1;
                match (c, a) {
                    (Ok(cs), Ok(Ok((as_, _)))) => {
                        let p = cs.local_addr().unwrap().port();
                        if !cs.local_addr().unwrap().ip().is_loopback() {
                            st.fail.get_or_insert(("loopback-connect-local-address-not-loopback".into(), format!("{:?}", cs.local_addr())));
                        }
                        note_ephemeral(&mut st, p, range_len, "tcp-connect-loopback");
                        st.loopback += 1;
                        let id = st.loopback as u32;
                        st.socks.push((K::Stream, p));
                        st.pair.push(id);
                        st.lo.push(false);
                        mine.push(Sock::Stream(cs, p));
                        st.socks.push((K::LoopAccepted, port));
                        st.pair.push(id);
                        st.lo.push(false);
                        mine.push(Sock::Stream(as_, port));
                    }
                    (c, a) => {
                        st.fail.get_or_insert(("loopback-connect-or-accept-failed".into(), format!("connect {:?} accept ok={}", c.map(|_| ()).map_err(|e| e.kind()), matches!(a, Ok(Ok(_))))));
                    }
                }
            }
            Op::Drop(i) => {
                let mut st = sh.borrow_mut();
                if st.socks.is_empty() {
                    continue;
                }
                let k = pick(i, st.socks.len());
                // both ends of a loopback connection live on this host: drop them together, so
                // that the 4-tuple is free before the client port can be handed out again
                let id = st.pair[k];
                let mut victims: Vec<usize> = if id == 0 { vec![k] } else { (0..st.socks.len()).filter(|j| st.pair[*j] == id).collect() };
                victims.sort();
                st.ops_done += 1;
                let mut dropped = Vec::new();
                for j in victims.into_iter().rev() {
                    st.socks.remove(j);
                    st.pair.remove(j);
                    st.lo.remove(j);
                    dropped.push(mine.remove(j));
                }
                drop(st);
                drop(dropped);
                if id != 0 {
                    // let the FINs of the closed loopback connection (delivered one tick later)
                    // drain before the same 4-tuple can be used again
                    tokio::time::sleep(Duration::from_millis(3)).await;
                }
            }
            Op::CrashBounce => {
                {
                    let mut st = sh.borrow_mut();
                    st.want_crash = true;
                }
                return std::future::pending().await;
            }
        }
        // yield one tick so that packets move
        tokio::time::sleep(Duration::from_millis(1)).await;
    }
}

async fn port_peer(sh: Rc<RefCell<PState>>, v6: bool) -> turmoil::Result {
    let any = if v6 { "::" } else { "0.0.0.0" };
    let lis = TcpListener::bind((any, 9000)).await?;
    // every stream the peer holds is read until EOF / reset and then dropped, so that a
    // connection closed by h is closed on both ends before h can reuse the 4-tuple
    fn hold_until_eof(mut s: TcpStream) {
        tokio::task::spawn_local(async move {
            use tokio::io::AsyncReadExt;
            let mut b = [0u8; 8];
            loop {
                match s.read(&mut b).await {
                    Ok(0) | Err(_) => break,
                    Ok(_) => {}
                }
            }
        });
    }
    tokio::task::spawn_local(async move {
        loop {
            match lis.accept().await {
                Ok((s, _)) => hold_until_eof(s),
                Err(_) => break,
            }
        }
    });
    loop {
        let req = sh.borrow_mut().peer_connect.take();
        if let Some(port) = req {
            if let Ok(s) = TcpStream::connect(("h", port)).await {
                hold_until_eof(s);
            }
        }
        tokio::time::sleep(Duration::from_millis(1)).await;
    }
}

pub fn run_ports(sc: &PortScenario) -> Outcome {
    let mut out = Outcome::ok();
    let range_len = sc.range_len.clamp(1, 64);
    let sh = Rc::new(RefCell::new(PState::default()));
    sh.borrow_mut().queue = sc.ops.iter().cloned().collect();
    let mut b = turmoil::Builder::new();
    b.tick_duration(Duration::from_millis(1))
        .min_message_latency(Duration::ZERO)
        .max_message_latency(Duration::ZERO)
        .ephemeral_ports(LO..=LO + range_len - 1)
        .epoch(SystemTime::UNIX_EPOCH + Duration::from_secs(1))
        .rng_seed(sc.seed)
        .simulation_duration(Duration::from_secs(100_000));
    if sc.v6 {
        b.ip_version(turmoil::IpVersion::V6);
    }
    let mut sim = b.build();
    {
        let (sh, v6) = (sh.clone(), sc.v6);
        sim.host("p", move || port_peer(sh.clone(), v6));
    }
    {
        let (sh, v6) = (sh.clone(), sc.v6);
        sim.host("h", move || port_host(sh.clone(), range_len, v6));
    }
    let budget = sc.ops.len() as u64 * 70 + 50;
    let mut steps = 0u64;
    loop {
        steps += 1;
        let r = catch_unwind(AssertUnwindSafe(|| sim.step()));
        match r {
            Ok(Ok(_)) => {}
            Ok(Err(e)) => {
                out.fail("step-error", format!("{e}"));
                return out;
            }
            Err(_) => {
                let msg = crate::engine::take_last_panic().unwrap_or_default();
                let st = sh.borrow();
                if msg.contains("ports exhausted") && st.expecting_free {
                    let free = free_ports(&st, range_len);
                    let (u, l, s) = in_use(&st);
                    drop(st);
                    out.fail(
                        "ephemeral-allocator-exhausted-while-ports-are-free",
                        format!("panic {msg:?}; model has free ports {free:?} (udp {u:?}, listeners {l:?}, live streams {s:?}) after {} failed/cancelled connects", sh.borrow().refused),
                    );
                } else {
                    drop(st);
                    out.fail(format!("panic: {}", crate::engine::normalize(&msg)), msg);
                }
                return out;
            }
        }
        let want_crash = sh.borrow().want_crash;
        if want_crash {
            sh.borrow_mut().want_crash = false;
            sim.crash("h");
            // the host task owned every socket: the crash must have released them all
            {
                let mut st = sh.borrow_mut();
                st.socks.clear();
                st.pair.clear();
                st.lo.clear();
                st.crashes += 1;
                st.idle = false;
            }
            sim.bounce("h");
        }
        if sh.borrow().fail.is_some() {
            break;
        }
        if sh.borrow().idle && sh.borrow().queue.is_empty() {
            break;
        }
        if steps > budget {
            out.fail("harness-script-did-not-finish", format!("{} ops left after {steps} steps", sh.borrow().queue.len()));
            break;
        }
    }
    let st = sh.borrow();
    if let Some((sig, det)) = st.fail.clone() {
        out.fail(sig, det);
    }
    if st.wraps > 0 {
        out.label("cursor-wrapped");
    }
    if st.skipped_in_use > 0 {
        out.label("skipped-port-in-use");
    }
    if st.crashes > 0 {
        out.label("crash-bounce");
    }
    if st.refused > 0 {
        out.label("failed-or-cancelled-connect");
    }
    if st.loopback > 0 {
        out.label("loopback-stream");
    }
    for (k, name) in ["wildcard-then-wildcard", "wildcard-then-loopback", "loopback-then-wildcard", "loopback-then-loopback"].iter().enumerate() {
        if st.rebind[k] > 0 {
            out.label(&format!("rebind-of-port-in-use:{name}"));
        }
    }
    out.count("explicit binds of a port in use (any address pair)", st.rebind.iter().sum());
    out.count("port ops executed", st.ops_done);
    out.nontrivial = st.wraps >= 1 && st.skipped_in_use >= 1;
    drop(st);
    out
}


// ---------------------------------------------------------------- DNS

#[derive(Clone, Debug, Serialize, Deserialize)]
pub enum DnsOp {
    /// register a host under name #i
    Register(u16),
    /// look up name #i through the Sim handle (allocates if new)
    Lookup(u16),
    /// look up a literal address in the subnet
    Literal(u16),
    /// reverse lookup of the address of name #i
    Reverse(u16),
    /// regex over a name prefix class
    Regex(u8),
    /// `n` further lookups BY NAME of names that are already known (cycling through them from
    /// position `from`, alternately as `&str` and `String`); lookups of known names are
    /// promised to change nothing.  `mix` bit 0: every 64th step also looks the address up as
    /// a literal, bit 1: every 128th step a reverse lookup, bit 2: every 512th step a regex
    /// lookup over a name family.
    Repeat { n: u32, from: u16, mix: u8 },
}

#[derive(Clone, Debug, Serialize, Deserialize)]
pub struct DnsScenario {
    pub v6: bool,
    pub names: u16,
    pub ops: Vec<DnsOp>,
}

fn name_of(i: u16) -> String {
    // three families so that regexes select proper subsets; includes names that are
    // prefixes of each other
    match i % 3 {
        0 => format!("node-{}", i / 3),
        1 => format!("db{}", i / 3),
        _ => format!("node-{}x", i / 3),
    }
}

pub fn run_dns(sc: &DnsScenario) -> Outcome {
    let mut out = Outcome::ok();
    let mut b = turmoil::Builder::new();
    b.epoch(SystemTime::UNIX_EPOCH + Duration::from_secs(1)).rng_seed(1);
    if sc.v6 {
        b.ip_version(turmoil::IpVersion::V6);
    }
    let mut sim = b.build();
    let mut model: BTreeMap<String, IpAddr> = BTreeMap::new();
    let mut by_addr: BTreeMap<IpAddr, String> = BTreeMap::new();
    let mut registered: BTreeSet<String> = BTreeSet::new();
    let names = sc.names.max(1);
    let in_subnet = |a: &IpAddr| match a {
        IpAddr::V4(v) => v.octets()[0] == 192 && v.octets()[1] == 168,
        IpAddr::V6(v) => v.segments()[0] == 0xfe80 && v.segments()[1] == 0 && v.segments()[2] == 0 && v.segments()[3] == 0,
    };
    let mut regexes = 0u64;
    let mut repeats = 0u64;
    let mut new_after_repeats = 0u64;
    let fam: Vec<regex::Regex> = ["^node-[0-9]+$", "^db", "x$", ".*"].iter().map(|p| regex::Regex::new(p).unwrap()).collect();
    macro_rules! learn {
        ($name:expr, $addr:expr, $how:expr) => {{
            let (name, addr): (String, IpAddr) = ($name, $addr);
            if sc.v6 != addr.is_ipv6() {
                out.fail("address-of-wrong-ip-version", format!("{name} -> {addr}"));
                return out;
            }
            if !in_subnet(&addr) {
                out.fail("address-outside-documented-subnet", format!("{name} -> {addr}"));
                return out;
            }
            match model.get(&name) {
                Some(prev) if *prev != addr => {
                    out.fail("same-name-resolved-to-different-addresses", format!("{name}: first {prev}, now {addr} ({})", $how));
                    return out;
                }
                Some(_) => {}
                None => {
                    if repeats > 0 {
                        new_after_repeats += 1;
                    }
                    if let Some(other) = by_addr.get(&addr) {
                        out.fail("two-names-share-one-address", format!("{name} and {other} -> {addr}"));
                        return out;
                    }
                    model.insert(name.clone(), addr);
                    by_addr.insert(addr, name);
                }
            }
        }};
    }
    for op in &sc.ops {
        match op {
            DnsOp::Register(i) => {
                let name = name_of(i % names);
                if registered.contains(&name) {
                    continue; // registering twice is a documented panic
                }
                // registering a name that is not registered yet is never documented to panic
                // (turmoil refuses a host whose address already belongs to a registered host)
                let r = catch_unwind(AssertUnwindSafe(|| {
                    sim.host(name.clone(), || async { std::future::pending::<()>().await; Ok(()) });
                }));
                if r.is_err() {
                    let msg = crate::engine::take_last_panic().unwrap_or_default();
                    let first_sight = !model.contains_key(&name);
                    out.fail(
                        "registering-an-unregistered-host-name-panics",
                        format!("{name} (first sight of the name: {first_sight}; {} names known, {} registered, {repeats} repeated lookups of known names so far): {msg}", model.len(), registered.len()),
                    );
                    return out;
                }
                registered.insert(name.clone());
                let a = sim.lookup(name.clone());
                learn!(name, a, "after register");
            }
            DnsOp::Lookup(i) => {
                let name = name_of(i % names);
                let a = sim.lookup(name.as_str());
                learn!(name, a, "lookup");
            }
            DnsOp::Literal(i) => {
                let lit: IpAddr = if sc.v6 {
                    format!("fe80::{:x}:{:x}", (*i as u32 + 1) >> 16, (*i as u32 + 1) & 0xffff).parse().unwrap()
                } else {
                    format!("192.168.{}.{}", i / 256, i % 256).parse().unwrap()
                };
                let a = sim.lookup(lit.to_string());
                if a != lit {
                    out.fail("literal-address-not-passed-through", format!("{lit} -> {a}"));
                    return out;
                }
                let b2 = sim.lookup(lit);
                if b2 != lit {
                    out.fail("literal-address-not-passed-through", format!("{lit} -> {b2}"));
                    return out;
                }
            }
            DnsOp::Reverse(i) => {
                let name = name_of(i % names);
                if let Some(a) = model.get(&name) {
                    let r = sim.reverse_lookup(*a);
                    if r.as_deref() != Some(name.as_str()) {
                        out.fail("reverse-lookup-does-not-invert", format!("{name} -> {a} -> {r:?}"));
                        return out;
                    }
                } else {
                    // an address nobody got yet
                    let unused: IpAddr = if sc.v6 { "fe80::ffff:ffff".parse().unwrap() } else { "192.168.250.250".parse().unwrap() };
                    if !by_addr.contains_key(&unused) {
                        let r = sim.reverse_lookup(unused);
                        if r.is_some() {
                            out.fail("reverse-lookup-invents-a-name", format!("{unused} -> {r:?}"));
                            return out;
                        }
                    }
                }
            }
            DnsOp::Repeat { n, from, mix } => {
                if model.is_empty() {
                    continue;
                }
                let known: Vec<(String, IpAddr)> = model.iter().map(|(n, a)| (n.clone(), *a)).collect();
                for j in 0..*n as usize {
                    let (name, addr) = &known[(*from as usize + j) % known.len()];
                    let a = if j % 2 == 0 { sim.lookup(name.as_str()) } else { sim.lookup(name.clone()) };
                    repeats += 1;
                    if a != *addr {
                        out.fail("same-name-resolved-to-different-addresses", format!("{name}: first {addr}, now {a} (repeated lookup #{repeats} of known names)"));
                        return out;
                    }
                    if mix & 1 != 0 && j % 64 == 63 {
                        let (l1, l2) = (sim.lookup(*addr), sim.lookup(addr.to_string()));
                        if l1 != *addr || l2 != *addr {
                            out.fail("literal-address-not-passed-through", format!("{addr} -> {l1} / {l2}"));
                            return out;
                        }
                    }
                    if mix & 2 != 0 && j % 128 == 127 {
                        let r = sim.reverse_lookup(*addr);
                        if r.as_deref() != Some(name.as_str()) {
                            out.fail("reverse-lookup-does-not-invert", format!("{name} -> {addr} -> {r:?}"));
                            return out;
                        }
                    }
                    if mix & 4 != 0 && j % 512 == 511 {
                        regexes += 1;
                        let re = &fam[(j / 512) % fam.len()];
                        let mut got: Vec<IpAddr> = sim.lookup_many(re.clone());
                        got.sort();
                        let mut want: Vec<IpAddr> = known.iter().filter(|(n, _)| re.is_match(n)).map(|(_, a)| *a).collect();
                        want.sort();
                        if got != want {
                            out.fail("regex-lookup-differs-from-matching-names", format!("/{re}/: got {} addresses, model {} (known names {})", got.len(), want.len(), known.len()));
                            return out;
                        }
                    }
                }
            }
            DnsOp::Regex(k) => {
                regexes += 1;
                let pat = match k % 5 {
                    0 => "^node-[0-9]+$".to_string(),
                    1 => "^db".to_string(),
                    2 => "x$".to_string(),
                    3 => format!("^node-{}", k / 5),
                    _ => ".*".to_string(),
                };
                let re = regex::Regex::new(&pat).unwrap();
                let mut got: Vec<IpAddr> = sim.lookup_many(re.clone());
                got.sort();
                let mut want: Vec<IpAddr> = model.iter().filter(|(n, _)| re.is_match(n)).map(|(_, a)| *a).collect();
                want.sort();
                if got != want {
                    out.fail("regex-lookup-differs-from-matching-names", format!("/{pat}/: got {} addresses, model {} (known names {})", got.len(), want.len(), model.len()));
                    return out;
                }
            }
        }
    }
    // final sweep: every known name is stable and reverse-resolvable
    for (name, addr) in model.clone() {
        let a = sim.lookup(name.as_str());
        if a != addr {
            out.fail("same-name-resolved-to-different-addresses", format!("{name}: first {addr}, finally {a}"));
            return out;
        }
        if sim.reverse_lookup(addr).as_deref() != Some(name.as_str()) {
            out.fail("reverse-lookup-does-not-invert", format!("{name} -> {addr}"));
            return out;
        }
    }
    if sc.v6 {
        out.label("dns-v6");
    } else {
        out.label("dns-v4");
    }
    if model.len() >= 256 {
        out.label("dns>=256-names");
    }
    if regexes > 0 {
        out.label("dns-regex");
    }
    out.count("dns names known", model.len() as u64);
    out.count("dns repeated by-name lookups of known names", repeats);
    out.count("dns names first seen after repeated lookups", new_after_repeats);
    if repeats > 0 && new_after_repeats > 0 {
        out.label("dns-new-names-after-repeated-lookups");
    }
    for t in [1_000u64, 20_000, 65_536] {
        if repeats >= t && new_after_repeats > 0 {
            out.label(&format!("dns-repeats>={t}"));
        }
    }
    out.nontrivial = model.len() >= 8 && registered.len() >= 2 && registered.len() < model.len();
    out
}

pub fn port_strategy() -> BoxedStrategy<PortScenario> {
    (3u16..=8, any::<bool>(), any::<u64>())
        .prop_flat_map(|(range_len, v6, seed)| {
            let off = -2i16..(range_len as i16 + 2);
            let psel = prop_oneof![1 => Just(PortSel::Zero), 1 => off.prop_map(PortSel::Off)];
            let op = prop_oneof![
                3 => psel.clone().prop_map(Op::BindUdp),
                3 => psel.clone().prop_map(Op::BindTcp),
                2 => psel.clone().prop_map(Op::BindUdpLo),
                2 => psel.prop_map(Op::BindTcpLo),
                3 => Just(Op::Connect),
                1 => Just(Op::ConnectRefused),
                1 => Just(Op::ConnectNowhere),
                1 => Just(Op::ConnectCancelled),
                2 => any::<u16>().prop_map(Op::AcceptFromPeer),
                2 => any::<u16>().prop_map(Op::ConnectLoopback),
                6 => any::<u16>().prop_map(Op::Drop),
                1 => Just(Op::CrashBounce),
            ];
            proptest::collection::vec(op, 4..40).prop_map(move |ops| PortScenario { range_len, v6, seed, ops })
        })
        .boxed()
}

fn dns_strategy() -> BoxedStrategy<DnsScenario> {
    (any::<bool>(), prop_oneof![3 => 4u16..40, 1 => 200u16..600])
        .prop_flat_map(|(v6, names)| {
            let op = prop_oneof![
                4 => any::<u16>().prop_map(DnsOp::Register),
                4 => any::<u16>().prop_map(DnsOp::Lookup),
                1 => any::<u16>().prop_map(DnsOp::Literal),
                2 => any::<u16>().prop_map(DnsOp::Reverse),
                1 => any::<u8>().prop_map(DnsOp::Regex),
                1 => (0u32..300, any::<u16>(), any::<u8>()).prop_map(|(n, from, mix)| DnsOp::Repeat { n, from, mix }),
            ];
            let len = if names >= 200 { 300..900usize } else { 5..80usize };
            proptest::collection::vec(op, len).prop_map(move |ops| DnsScenario { v6, names, ops })
        })
        .boxed()
}

/// Lookup-heavy histories: a block of names is made known (registered or looked up), then
/// phases of very many repeated by-name lookups of the known names (tens of thousands, in a
/// fraction of the cases more than the 65 536 host numbers of the v4 subnet in total) alternate
/// with runs of newly registered / newly looked-up names separated by short repeat bursts.
fn dns_heavy_strategy() -> BoxedStrategy<DnsScenario> {
    (prop_oneof![3 => Just(false), 1 => Just(true)], 40u16..=400)
        .prop_flat_map(|(v6, block)| {
            let newn = || prop_oneof![1 => Just(true), 1 => Just(false)];
            let phase = (
                prop_oneof![1 => 0u32..2_000, 2 => 2_000u32..20_000, 2 => 20_000u32..70_000],
                any::<u16>(),
                any::<u8>(),
                proptest::collection::vec((0u32..=block as u32, any::<u16>(), newn()), 5..60),
            );
            (proptest::collection::vec(newn(), block as usize), proptest::collection::vec(phase, 1..=4)).prop_map(move |(init, phases)| {
                let mut ops = Vec::new();
                let mut next = 0u16;
                let mut fresh = |reg: bool, ops: &mut Vec<DnsOp>| {
                    ops.push(if reg { DnsOp::Register(next) } else { DnsOp::Lookup(next) });
                    next += 1;
                };
                for reg in init {
                    fresh(reg, &mut ops);
                }
                for (n, from, mix, news) in phases {
                    ops.push(DnsOp::Repeat { n, from, mix });
                    for (gap, gfrom, reg) in news {
                        if gap > 0 {
                            ops.push(DnsOp::Repeat { n: gap, from: gfrom, mix });
                        }
                        fresh(reg, &mut ops);
                    }
                }
                DnsScenario { v6, names: u16::MAX, ops }
            })
        })
        .boxed()
}

/// Clamp a structurally decoded scenario into the generator's domain (fuzz tier).
pub fn fuzz_sanitize(sc: &mut PortScenario) -> bool {
    sc.range_len = 3 + sc.range_len % 6;
    let r = sc.range_len as i16;
    for o in sc.ops.iter_mut() {
        if let Op::BindUdp(PortSel::Off(x)) | Op::BindTcp(PortSel::Off(x)) | Op::BindUdpLo(PortSel::Off(x)) | Op::BindTcpLo(PortSel::Off(x)) = o {
            *x = -2 + x.rem_euclid(r + 4);
        }
    }
    sc.ops.len() >= 2
}

fn check(tier: Tier, seed: u64) -> i32 {
    let ctx = Ctx::new("C15", tier, seed, "exploration");
    ctx.replay_corpus(&replay);
    ctx.random("ports", tier.pick(12_000, 200_000), &|| port_strategy(), &run_ports);
    ctx.random("dns", tier.pick(3_000, 40_000), &|| dns_strategy(), &run_dns);
    ctx.random("dns-lookup-heavy", tier.pick(600, 8_000), &|| dns_heavy_strategy(), &run_dns);
    ctx.finish(
        "ports: random sequences of 4-40 operations (bind UDP / TCP listener on port 0 or a fixed port around the range, each on the wildcard address or on the loopback address -- so explicit binds hit ports held by a live socket of the same protocol in all four address orders wildcard/loopback x first/second, labels rebind-of-port-in-use:* --, outgoing connect, connects that are refused / go nowhere / are cancelled, accept from the peer, drop, crash+bounce) on a host whose ephemeral range has 3-8 ports, checked against a port-set model; non-trivial = the ephemeral cursor wrapped at least once and skipped at least one port in use. dns: random sequences of register / lookup / literal / reverse / regex lookups over up to 600 names in v4 and v6 mode against a name->address map; non-trivial = >= 8 names known, some registered and some only looked up. dns-lookup-heavy: a block of 40-400 names is made known, then 1-4 phases of 0-70 000 repeated by-name lookups of the known names (as &str / String, mixed with literal-address, reverse and regex lookups; every result compared with the map) alternate with runs of 5-60 new names (registered or looked up) separated by short repeat bursts; the total number of by-name lookups exceeds the 65 536 host numbers of the v4 subnet in a fraction of the cases; distinctness is checked at every first sight of a name, stability at every lookup, stability + reverse inversion over all names at the end. Distinct by scenario hash.",
        &[
            "a port bound by a live UDP socket (TCP listener) at any address of the host -- wildcard or loopback -- counts as in use for UDP (TCP listeners) on that host: an explicit bind of it at either address must fail with AddrInUse, as the property text says without qualification by address",
            "the peer only connects to listeners bound on the wildcard address; loopback-bound listeners are reached through loopback connects only",
            "port 0 requests are only issued while the model has a free port in the range (exhaustion is a documented panic)",
            "registering the same name twice is a documented panic and is not generated",
            "at most a few hundred distinct names per simulation (the property's quantifier), so the subnet itself is never exhausted by names; lookups of known names are not counted against it (they are promised to change nothing)",
        ],
    )
}

fn replay(sub: &str, v: &Value) -> Result<Outcome, String> {
    match sub {
        "dns" | "dns-lookup-heavy" => replay_as::<DnsScenario>(v, &run_dns),
        _ => replay_as::<PortScenario>(v, &run_ports),
    }
}

//! C09 — turmoil::net UDP delivers datagrams whole, to the right sockets, at
//! most once.  DESIGN.md §6 C09.  SimDriver; routing model = set algebra over
//! the script (may / must sets per send).

use crate::engine::{replay_as, Ctx, Outcome, Tier};
use proptest::prelude::*;
use serde::{Deserialize, Serialize};
use serde_json::Value;
use std::cell::{Cell, RefCell};
use std::collections::{BTreeMap, BTreeSet};
use std::net::{IpAddr, Ipv4Addr, Ipv6Addr, SocketAddr};
use std::rc::Rc;
use std::time::{Duration, SystemTime};
use turmoil::net::UdpSocket;

pub const PROP: super::Prop = super::Prop {
    id: "C09",
    level: "exploration",
    check,
    replay,
};

#[derive(Clone, Copy, Debug, Serialize, Deserialize, PartialEq, Eq)]
pub enum Dest {
    /// host index, port slot
    Host(usize, u8),
    /// the sender's own host address
    Own(u8),
    Loopback(u8),
    Broadcast(u8),
    /// group index, port slot
    Multicast(u8, u8),
}

#[derive(Clone, Copy, Debug, Serialize, Deserialize, PartialEq, Eq)]
pub enum RecvMode {
    RecvFrom,
    TryLoop,
    Readable,
}

/// One readiness wait issued before the datagram is consumed.
#[derive(Clone, Copy, Debug, Serialize, Deserialize, PartialEq, Eq)]
pub enum Wait {
    /// `readable().await`
    Readable,
    /// `timeout(d ms, readable())`: the wait is dropped (cancelled) if nothing arrives in time
    ReadableTimeout(u8),
}

/// The call that consumes the datagram.
#[derive(Clone, Copy, Debug, Serialize, Deserialize, PartialEq, Eq)]
pub enum Take {
    RecvFrom,
    /// `try_recv_from`; on WouldBlock sleep 1 ms and start the receive over
    TryRecvFrom,
    /// `try_recv` (no origin reported); on WouldBlock as above
    TryRecv,
    /// `timeout(d ms, recv_from(..))` repeated until it completes
    RecvFromTimeout(u8),
}

/// How one receive is performed: zero or more readiness waits, then the consuming call.
#[derive(Clone, Debug, Serialize, Deserialize, PartialEq, Eq)]
pub struct Style {
    pub waits: Vec<Wait>,
    pub take: Take,
}

impl Style {
    fn of_mode(m: RecvMode) -> Style {
        match m {
            RecvMode::RecvFrom => Style { waits: vec![], take: Take::RecvFrom },
            RecvMode::TryLoop => Style { waits: vec![], take: Take::TryRecvFrom },
            RecvMode::Readable => Style { waits: vec![Wait::Readable], take: Take::TryRecvFrom },
        }
    }
    /// readiness waits a datagram sits through before it is consumed (recv_from waits once itself)
    fn readiness_waits(&self) -> usize {
        self.waits.len() + matches!(self.take, Take::RecvFrom | Take::RecvFromTimeout(_)) as usize
    }
}

#[derive(Clone, Debug, Serialize, Deserialize)]
pub enum OpKind {
    /// slot = which of the host's socket slots; port: None = ephemeral, Some(slot) = fixed.
    /// `styles` / `bufs` are cycled through, one entry per completed receive; when empty the
    /// legacy `mode` / `buf` apply to every receive.
    Bind {
        localhost: bool,
        port: Option<u8>,
        mode: RecvMode,
        buf: u8,
        pause: u8,
        #[serde(default)]
        styles: Vec<Style>,
        #[serde(default)]
        bufs: Vec<u8>,
    },
    Send { dest: Dest, len: u8 },
    Join(u8),
    Leave(u8),
    Connect(Dest),
    SetBroadcast(bool),
    SetMulticastLoop(bool),
    Drop,
}

#[derive(Clone, Debug, Serialize, Deserialize)]
pub struct Op {
    pub step: u32,
    pub host: usize,
    pub slot: u8,
    pub kind: OpKind,
}

#[derive(Clone, Debug, Serialize, Deserialize)]
pub struct Scenario {
    pub nhosts: usize,
    pub v6: bool,
    pub tick_ms: u32,
    pub lat_min: u32,
    pub lat_max: u32,
    pub capacity: usize,
    pub seed: u64,
    pub random_order: bool,
    pub ops: Vec<Op>,
    /// probe mode: assert the clauses that known findings exclude in the main search
    #[serde(default)]
    pub strict_known: bool,
    /// payloads and receive buffers below 8 bytes (down to 0) are taken as written; without it
    /// (replay files from before this dimension existed) both are raised to 8
    #[serde(default)]
    pub v2: bool,
}

/// F-C09-1 is tolerated only while known_findings.json lists it with status "known".
pub fn is_known(id: &str) -> bool {
    static KNOWN: std::sync::OnceLock<Vec<String>> = std::sync::OnceLock::new();
    KNOWN
        .get_or_init(|| {
            crate::engine::load_findings()
                .into_iter()
                .filter(|f| f.property == "C09" && f.status == "known")
                .map(|f| f.id)
                .collect()
        })
        .iter()
        .any(|k| k == id)
}

const PORTS: [u16; 3] = [9000, 9001, 9002];
const SLOTS: usize = 3;

fn group_addr(v6: bool, g: u8) -> IpAddr {
    if v6 {
        IpAddr::V6(Ipv6Addr::new(0xff02, 0, 0, 0, 0, 0, 0, 0x10 + (g % 2) as u16))
    } else {
        IpAddr::V4(Ipv4Addr::new(239, 1, 1, 1 + (g % 2)))
    }
}

#[derive(Clone, Debug)]
enum Ev {
    Bind { uid: usize, host: usize, port: u16, localhost: bool, step: u64, bufs: Vec<usize>, pause: u64 },
    BindFailed { host: usize, kind: String },
    Drop { uid: usize, step: u64 },
    Join { uid: usize, group: u8, step: u64, ok: bool },
    Leave { uid: usize, group: u8, step: u64, ok: bool },
    Connect { uid: usize, peer: SocketAddr, step: u64 },
    Broadcast { uid: usize, on: bool },
    Send { sid: u32, uid: usize, dst: SocketAddr, dest: Dest, len: usize, step: u64, err: Option<String> },
    /// raw receipt: returned count, the buffer length offered, the bytes delivered, the origin
    /// (None for try_recv), the style used
    Recv { uid: usize, n: usize, buf: usize, data: Vec<u8>, origin: Option<SocketAddr>, waits: usize, step: u64 },
}

#[derive(Default)]
struct Shared {
    step: Cell<u64>,
    log: RefCell<Vec<Ev>>,
    next_uid: Cell<usize>,
    next_sid: Cell<u32>,
    addrs: RefCell<Vec<IpAddr>>,
    labels: RefCell<BTreeSet<String>>,
}

impl Shared {
    fn label(&self, l: String) {
        self.labels.borrow_mut().insert(l);
    }
}

/// Payload of a send: the first `len` bytes of [send id (4), sender socket (2), len ^ 0x5aa5 (2), filler..].
/// Send ids stay below 256 in every generated scenario, so one byte identifies the send.
fn payload(sid: u32, uid: usize, len: usize) -> Vec<u8> {
    let mut v = Vec::with_capacity(len.max(8));
    v.extend_from_slice(&sid.to_le_bytes());
    v.extend_from_slice(&(uid as u16).to_le_bytes());
    v.extend_from_slice(&((len as u16) ^ 0x5aa5).to_le_bytes());
    for i in 8..len {
        v.push((sid as usize * 7 + i * 13) as u8);
    }
    v.truncate(len);
    v
}

/// One receive in the given style.  Ok((count, origin)).
async fn recv_one(sock: &UdpSocket, style: &Style, b: &mut [u8]) -> std::io::Result<(usize, Option<SocketAddr>)> {
    let ms = |d: u8| Duration::from_millis(d as u64);
    loop {
        for w in style.waits.iter() {
            match w {
                Wait::Readable => sock.readable().await?,
                Wait::ReadableTimeout(d) => {
                    // cancel safety of readable(): an abandoned wait loses nothing
                    if let Ok(r) = tokio::time::timeout(ms(*d), sock.readable()).await {
                        r?
                    }
                }
            }
        }
        let r = match style.take {
            Take::RecvFrom => sock.recv_from(b).await.map(|(n, o)| (n, Some(o))),
            Take::TryRecvFrom => sock.try_recv_from(b).map(|(n, o)| (n, Some(o))),
            Take::TryRecv => sock.try_recv(b).map(|n| (n, None)),
            Take::RecvFromTimeout(d) => match tokio::time::timeout(ms(d.max(1)), sock.recv_from(b)).await {
                Ok(r) => r.map(|(n, o)| (n, Some(o))),
                Err(_) => continue,
            },
        };
        match r {
            // nothing there (or a documented false-positive readiness): poll again in 1 ms
            Err(e) if e.kind() == std::io::ErrorKind::WouldBlock => tokio::time::sleep(ms(1)).await,
            r => return r,
        }
    }
}

async fn receiver(sh: Rc<Shared>, sock: Rc<UdpSocket>, uid: usize, styles: Vec<Style>, bufs: Vec<usize>, pause: u8) {
    let mut i = 0usize;
    loop {
        if pause > 0 {
            tokio::time::sleep(Duration::from_millis(pause as u64)).await;
        }
        let style = &styles[i % styles.len()];
        let buf = bufs[i % bufs.len()];
        let mut b = vec![0xEEu8; buf];
        match recv_one(&sock, style, &mut b).await {
            Ok((n, origin)) => {
                i += 1;
                let data = b[..n.min(buf)].to_vec();
                sh.log.borrow_mut().push(Ev::Recv { uid, n, buf, data, origin, waits: style.readiness_waits(), step: sh.step.get() });
                sh.label(format!("take:{}", match style.take {
                    Take::RecvFrom => "recv_from",
                    Take::TryRecvFrom => "try_recv_from",
                    Take::TryRecv => "try_recv",
                    Take::RecvFromTimeout(_) => "recv_from-under-timeout",
                }));
                sh.label(match style.waits.len() {
                    0 => "explicit-readable-waits:0",
                    1 => "explicit-readable-waits:1",
                    _ => "explicit-readable-waits:2+",
                }.to_string());
                if style.waits.iter().any(|w| matches!(w, Wait::ReadableTimeout(_))) {
                    sh.label("readable-under-timeout".to_string());
                }
            }
            Err(_) => {
                tokio::time::sleep(Duration::from_millis(1)).await;
            }
        }
    }
}

struct Live {
    uid: usize,
    sock: Rc<UdpSocket>,
    task: tokio::task::JoinHandle<()>,
}

async fn host_software(sh: Rc<Shared>, me: usize, sc: Scenario) -> turmoil::Result {
    let n = sc.nhosts;
    let mut slots: Vec<Option<Live>> = (0..SLOTS).map(|_| None).collect();
    let mut mine: Vec<Op> = sc.ops.iter().filter(|o| o.host % n == me).cloned().collect();
    mine.sort_by_key(|o| o.step);
    let mut next = 0usize;
    let mut last = 0u64;
    let lo = if sc.v6 { IpAddr::V6(Ipv6Addr::LOCALHOST) } else { IpAddr::V4(Ipv4Addr::LOCALHOST) };
    let any = if sc.v6 { IpAddr::V6(Ipv6Addr::UNSPECIFIED) } else { IpAddr::V4(Ipv4Addr::UNSPECIFIED) };
    loop {
        let k = sh.step.get();
        if k != last {
            last = k;
            while next < mine.len() && (mine[next].step as u64) < k {
                next += 1; // missed (cannot happen: every step is visited)
            }
            while next < mine.len() && mine[next].step as u64 == k {
                let op = mine[next].clone();
                next += 1;
                let slot = op.slot as usize % SLOTS;
                let to_addr = |d: &Dest| -> SocketAddr {
                    let addrs = sh.addrs.borrow();
                    match d {
                        Dest::Host(h, p) => SocketAddr::new(addrs[h % n], PORTS[*p as usize % 3]),
                        Dest::Own(p) => SocketAddr::new(addrs[me], PORTS[*p as usize % 3]),
                        Dest::Loopback(p) => SocketAddr::new(lo, PORTS[*p as usize % 3]),
                        Dest::Broadcast(p) => SocketAddr::new(IpAddr::V4(Ipv4Addr::BROADCAST), PORTS[*p as usize % 3]),
                        Dest::Multicast(g, p) => SocketAddr::new(group_addr(sc.v6, *g), PORTS[*p as usize % 3]),
                    }
                };
                match op.kind {
                    OpKind::Bind { localhost, port, mode, buf, pause, styles, bufs } => {
                        if slots[slot].is_some() {
                            continue;
                        }
                        let ip = if localhost { lo } else { any };
                        let p = port.map(|s| PORTS[s as usize % 3]).unwrap_or(0);
                        match UdpSocket::bind(SocketAddr::new(ip, p)).await {
                            Ok(s) => {
                                let uid = sh.next_uid.get();
                                sh.next_uid.set(uid + 1);
                                let lo_len = if sc.v2 { 0 } else { 8 };
                                let bufs: Vec<usize> = if bufs.is_empty() { vec![buf] } else { bufs }.into_iter().map(|b| (b as usize).clamp(lo_len, 80)).collect();
                                let styles = if styles.is_empty() { vec![Style::of_mode(mode)] } else { styles };
                                let port = s.local_addr().unwrap().port();
                                sh.log.borrow_mut().push(Ev::Bind { uid, host: me, port, localhost, step: k, bufs: bufs.clone(), pause: pause as u64 });
                                let sock = Rc::new(s);
                                let task = tokio::task::spawn_local(receiver(sh.clone(), sock.clone(), uid, styles, bufs, pause));
                                slots[slot] = Some(Live { uid, sock, task });
                            }
                            Err(e) => sh.log.borrow_mut().push(Ev::BindFailed { host: me, kind: format!("{:?}", e.kind()) }),
                        }
                    }
                    OpKind::Drop => {
                        if let Some(l) = slots[slot].take() {
                            l.task.abort();
                            let _ = l.task.await;
                            sh.log.borrow_mut().push(Ev::Drop { uid: l.uid, step: k });
                            drop(l.sock);
                        }
                    }
                    OpKind::Send { dest, len } => {
                        if let Some(l) = &slots[slot] {
                            if matches!(dest, Dest::Broadcast(_)) && sc.v6 {
                                continue;
                            }
                            let sid = sh.next_sid.get();
                            sh.next_sid.set(sid + 1);
                            let len = (len as usize).clamp(if sc.v2 { 0 } else { 8 }, 100);
                            let dst = to_addr(&dest);
                            let data = payload(sid, l.uid, len);
                            // log before the call: a same-step delivery must find the send in the log
                            let pos = {
                                let mut g = sh.log.borrow_mut();
                                g.push(Ev::Send { sid, uid: l.uid, dst, dest, len, step: k, err: None });
                                g.len() - 1
                            };
                            let r = if sid % 2 == 0 { l.sock.send_to(&data, dst).await } else { l.sock.try_send_to(&data, dst) };
                            match r {
                                Ok(nn) if nn == len => {}
                                Ok(nn) => {
                                    if let Ev::Send { err, .. } = &mut sh.log.borrow_mut()[pos] {
                                        *err = Some(format!("short send {nn}"));
                                    }
                                }
                                Err(e) => {
                                    if let Ev::Send { err, .. } = &mut sh.log.borrow_mut()[pos] {
                                        *err = Some(format!("{:?}", e.kind()));
                                    }
                                }
                            }
                        }
                    }
                    OpKind::Join(g) => {
                        if let Some(l) = &slots[slot] {
                            let r = match group_addr(sc.v6, g) {
                                IpAddr::V4(a) => l.sock.join_multicast_v4(a, Ipv4Addr::UNSPECIFIED),
                                IpAddr::V6(a) => l.sock.join_multicast_v6(&a, 0),
                            };
                            sh.log.borrow_mut().push(Ev::Join { uid: l.uid, group: g % 2, step: k, ok: r.is_ok() });
                        }
                    }
                    OpKind::Leave(g) => {
                        if let Some(l) = &slots[slot] {
                            let r = match group_addr(sc.v6, g) {
                                IpAddr::V4(a) => l.sock.leave_multicast_v4(a, Ipv4Addr::UNSPECIFIED),
                                IpAddr::V6(a) => l.sock.leave_multicast_v6(&a, 0),
                            };
                            sh.log.borrow_mut().push(Ev::Leave { uid: l.uid, group: g % 2, step: k, ok: r.is_ok() });
                        }
                    }
                    OpKind::Connect(d) => {
                        if let Some(l) = &slots[slot] {
                            if matches!(d, Dest::Broadcast(_) | Dest::Multicast(..)) {
                                continue;
                            }
                            let peer = to_addr(&d);
                            if l.sock.connect(peer).await.is_ok() {
                                sh.log.borrow_mut().push(Ev::Connect { uid: l.uid, peer, step: k });
                            }
                        }
                    }
                    OpKind::SetBroadcast(on) => {
                        if let Some(l) = &slots[slot] {
                            if !sc.v6 && l.sock.set_broadcast(on).is_ok() {
                                sh.log.borrow_mut().push(Ev::Broadcast { uid: l.uid, on });
                            }
                        }
                    }
                    OpKind::SetMulticastLoop(on) => {
                        if let Some(l) = &slots[slot] {
                            let _ = if sc.v6 { l.sock.set_multicast_loop_v6(on) } else { l.sock.set_multicast_loop_v4(on) };
                        }
                    }
                }
            }
        }
        tokio::time::sleep(Duration::from_millis(1)).await;
    }
}

#[derive(Clone, Debug)]
struct SockInfo {
    host: usize,
    port: u16,
    localhost: bool,
    from: u64,
    to: u64, // exclusive upper step bound (u64::MAX if never dropped)
    bufs: Vec<usize>,
    /// receiver's pause before every receive (ms): a slow receiver needs the socket to live longer
    pause: u64,
    connects: Vec<(u64, SocketAddr)>,
    broadcast: Vec<(usize, bool)>, // (log pos, on)
}

pub fn run(sc: &Scenario) -> Outcome {
    let mut out = Outcome::ok();
    let n = sc.nhosts.clamp(2, 4);
    let mut sc = sc.clone();
    sc.nhosts = n;
    let tick = sc.tick_ms.max(1) as u64;
    let lat_min = sc.lat_min.min(sc.lat_max) as u64;
    let lat_max = sc.lat_max.max(sc.lat_min) as u64;
    let cap = sc.capacity.max(1);
    let sh = Rc::new(Shared::default());
    let mut b = turmoil::Builder::new();
    b.tick_duration(Duration::from_millis(tick))
        .min_message_latency(Duration::from_millis(lat_min))
        .max_message_latency(Duration::from_millis(lat_max))
        .udp_capacity(cap)
        .epoch(SystemTime::UNIX_EPOCH + Duration::from_secs(1))
        .rng_seed(sc.seed)
        .simulation_duration(Duration::from_secs(100_000));
    if sc.v6 {
        b.ip_version(turmoil::IpVersion::V6);
    }
    if sc.random_order {
        b.enable_random_order();
    }
    let mut sim = b.build();
    for h in 0..n {
        let (sh2, sc2) = (sh.clone(), sc.clone());
        sim.host(format!("h{h}"), move || host_software(sh2.clone(), h, sc2.clone()));
    }
    *sh.addrs.borrow_mut() = (0..n).map(|h| sim.lookup(format!("h{h}"))).collect();
    let addrs = sh.addrs.borrow().clone();
    let w = lat_max.div_ceil(tick) + 2;
    let last = sc.ops.iter().map(|o| o.step as u64).max().unwrap_or(0);
    let max_pause = sc
        .ops
        .iter()
        .filter_map(|o| if let OpKind::Bind { pause, .. } = o.kind { Some(pause as u64) } else { None })
        .max()
        .unwrap_or(0);
    let total = last + w + 3 + (cap as u64 + 2) * (max_pause + 1) / tick + 2;
    for k in 1..=total {
        sh.step.set(k);
        if let Err(e) = sim.step() {
            out.fail("step-error", format!("{e}"));
            return out;
        }
    }

    // ---------------- model pass
    let log = sh.log.borrow();
    let mut socks: BTreeMap<usize, SockInfo> = BTreeMap::new();
    // membership intervals: (host, port, group) -> Vec<(from_pos, to_pos)>
    let mut member_since: BTreeMap<(usize, u16, u8), usize> = BTreeMap::new();
    let mut member_iv: Vec<((usize, u16, u8), usize, usize)> = Vec::new();
    for (pos, ev) in log.iter().enumerate() {
        match ev {
            Ev::Bind { uid, host, port, localhost, step, bufs, pause } => {
                socks.insert(*uid, SockInfo { host: *host, port: *port, localhost: *localhost, from: *step, to: u64::MAX, bufs: bufs.clone(), pause: *pause, connects: vec![], broadcast: vec![] });
            }
            Ev::Drop { uid, step } => {
                let s = socks.get_mut(uid).unwrap();
                s.to = *step;
                let (h, p) = (s.host, s.port);
                for g in 0..2u8 {
                    if let Some(f) = member_since.remove(&(h, p, g)) {
                        member_iv.push(((h, p, g), f, pos));
                    }
                }
            }
            Ev::Join { uid, group, ok, .. } => {
                if *ok {
                    let s = &socks[uid];
                    member_since.entry((s.host, s.port, *group)).or_insert(pos);
                }
            }
            Ev::Leave { uid, group, ok, .. } => {
                let s = &socks[uid];
                let key = (s.host, s.port, *group);
                match (member_since.remove(&key), ok) {
                    (Some(f), true) => member_iv.push((key, f, pos)),
                    (Some(f), false) => {
                        member_since.insert(key, f);
                        out.fail("leave-of-joined-group-failed", format!("socket {uid} {key:?}"));
                        return out;
                    }
                    (None, true) => {
                        out.fail("leave-of-unjoined-group-succeeded", format!("socket {uid} {key:?}"));
                        return out;
                    }
                    (None, false) => {}
                }
            }
            Ev::Connect { uid, peer, step } => socks.get_mut(uid).unwrap().connects.push((*step, *peer)),
            Ev::Broadcast { uid, on } => socks.get_mut(uid).unwrap().broadcast.push((pos, *on)),
            _ => {}
        }
    }
    for (k, f) in member_since.iter() {
        member_iv.push((*k, *f, usize::MAX));
    }
    let is_member_at = |h: usize, p: u16, g: u8, pos: usize| member_iv.iter().any(|(k, f, t)| *k == (h, p, g) && *f < pos && pos < *t);

    // sends
    struct SendInfo {
        uid: usize,
        dest: Dest,
        dst: SocketAddr,
        len: usize,
        step: u64,
        pos: usize,
        err: Option<String>,
        origin_ips: Vec<IpAddr>,
        origin_port: u16,
    }
    let mut sends: BTreeMap<u32, SendInfo> = BTreeMap::new();
    for (pos, ev) in log.iter().enumerate() {
        if let Ev::Send { sid, uid, dst, dest, len, step, err } = ev {
            let s = &socks[uid];
            // source address as the sender's stack composes it
            let mut ips = Vec::new();
            if dst.ip().is_loopback() {
                ips.push(dst.ip());
            } else if s.localhost {
                // not specified by the property: loopback-bound socket sending off-host
                ips.push(if sc.v6 { IpAddr::V6(Ipv6Addr::LOCALHOST) } else { IpAddr::V4(Ipv4Addr::LOCALHOST) });
                ips.push(addrs[s.host]);
            } else {
                ips.push(addrs[s.host]);
            }
            sends.insert(*sid, SendInfo { uid: *uid, dest: *dest, dst: *dst, len: *len, step: *step, pos, err: err.clone(), origin_ips: ips, origin_port: s.port });
        }
    }
    // filter state of socket R over a step window: Some(peer) if constantly connected to peer, None if never connected, Err if changing
    let conn_state = |r: &SockInfo, a: u64, b2: u64| -> Result<Option<SocketAddr>, ()> {
        let before: Option<SocketAddr> = r.connects.iter().filter(|(s, _)| *s < a).last().map(|(_, p)| *p);
        if r.connects.iter().any(|(s, _)| *s >= a && *s <= b2) {
            return Err(());
        }
        Ok(before)
    };
    let passes_connect = |peer: SocketAddr, origin_ips: &[IpAddr], oport: u16| -> Option<bool> {
        // matches(target, src): exact, or unspecified target ip with the same port
        let hits: Vec<bool> = origin_ips
            .iter()
            .map(|ip| (peer.ip().is_unspecified() && peer.port() == oport) || (peer.ip() == *ip && peer.port() == oport))
            .collect();
        if hits.iter().all(|h| *h) {
            Some(true)
        } else if hits.iter().all(|h| !*h) {
            Some(false)
        } else {
            None
        }
    };
    // may / must per (send, socket)
    #[derive(PartialEq, Clone, Copy, Debug)]
    enum Rel {
        No,
        May,
        Must,
        /// F-C09-1: multicast datagram in flight to (host, port) of a member that was dropped;
        /// a later socket bound to the same port (never a member) receives it
        KnownPortReuse,
    }
    let relation = |s: &SendInfo, ruid: usize, r: &SockInfo| -> Rel {
        if s.err.is_some() {
            return Rel::No;
        }
        let sender = &socks[&s.uid];
        let win = (s.step, s.step + w);
        // bound during step `from`, dropped during step `to`: alive for part of both
        let alive_some = r.from <= win.1 && r.to >= win.0;
        // a paused receiver drains at most one datagram per (pause + 1) ms: the socket has to
        // outlive the delivery window by the time it needs to work off a full queue
        let drain = ((cap as u64 + 2) * (r.pause + 1)).div_ceil(tick) + 1;
        let alive_all = r.from < win.0 && r.to > win.1 + 1 + drain;
        if !alive_some || r.port != s.dst.port() {
            return Rel::No;
        }
        let mut rel = Rel::Must;
        // which hosts / bind filter
        match s.dest {
            Dest::Host(h, _) => {
                if r.host != h % n {
                    return Rel::No;
                }
                if r.host == sender.host {
                    // own address (same as Dest::Own)
                    if r.localhost {
                        return Rel::No;
                    }
                } else if r.localhost {
                    return Rel::No;
                }
            }
            Dest::Own(_) => {
                if r.host != sender.host || r.localhost {
                    return Rel::No;
                }
                if sender.localhost {
                    // loopback-bound sender to its own public address: routing path unspecified
                    rel = Rel::May;
                }
            }
            Dest::Loopback(_) => {
                if r.host != sender.host {
                    return Rel::No;
                }
            }
            Dest::Broadcast(_) => {
                // hosts that had the port bound when the datagram was sent
                let bound_at_send = socks.values().any(|x| x.host == r.host && x.port == r.port && x.from <= s.step && x.to >= s.step);
                if !bound_at_send || r.localhost {
                    return Rel::No;
                }
                if r.from >= s.step || socks.values().any(|x| x.host == r.host && x.port == r.port && (x.from == s.step || x.to == s.step)) {
                    rel = Rel::May;
                }
                if sender.localhost {
                    rel = Rel::May;
                }
            }
            Dest::Multicast(g, _) => {
                if r.localhost {
                    // a loopback-bound member never matches the group destination address
                    if !is_member_at(r.host, r.port, g % 2, s.pos) {
                        return Rel::No;
                    }
                    return Rel::May;
                }
                if !is_member_at(r.host, r.port, g % 2, s.pos) {
                    return Rel::No;
                }
                // the member at send time must be this very socket
                if !(r.from <= s.step) {
                    return Rel::KnownPortReuse;
                }
                if r.host == sender.host {
                    rel = Rel::May; // multicast loop option
                }
                if sender.localhost {
                    rel = Rel::May;
                }
            }
        }
        // connected-peer filter
        match conn_state(r, win.0, win.1) {
            Err(()) => rel = Rel::May,
            Ok(None) => {}
            Ok(Some(peer)) => match passes_connect(peer, &s.origin_ips, s.origin_port) {
                Some(true) => {}
                Some(false) => return Rel::No,
                None => rel = Rel::May,
            },
        }
        if !alive_all {
            rel = Rel::May;
        }
        let _ = ruid;
        rel
    };

    // addressed counts per socket (for the capacity precondition of `must`)
    let mut addressed: BTreeMap<usize, usize> = BTreeMap::new();
    for s in sends.values() {
        for (ruid, r) in socks.iter() {
            if !matches!(relation(s, *ruid, r), Rel::No) {
                *addressed.entry(*ruid).or_default() += 1;
            }
        }
    }
    // receipts
    let late = |s: &SendInfo| s.step + w + (cap as u64 + 2) * (max_pause + 1) / tick + 2;
    let tolerated_reuse = !sc.strict_known && is_known("F-C09-1");
    let bytes_of: BTreeMap<u32, Vec<u8>> = sends.iter().map(|(sid, s)| (*sid, payload(*sid, s.uid, s.len))).collect();
    // does a receipt of `n` bytes `data` into a buffer of `buf` bytes carry send `sid`, cut only to the buffer?
    let carries = |sid: u32, n: usize, buf: usize, data: &[u8]| {
        let p = &bytes_of[&sid];
        n == p.len().min(buf) && p[..n] == data[..]
    };
    let origin_ok = |s: &SendInfo, origin: &Option<SocketAddr>| origin.map_or(true, |o| o.port() == s.origin_port && s.origin_ips.contains(&o.ip()));
    /// a receipt whose bytes do not name its send: 0 bytes delivered (empty payload, or any payload into an empty buffer)
    #[derive(Debug)]
    struct Anon {
        n: usize,
        data: Vec<u8>,
        buf: usize,
        origin: Option<SocketAddr>,
        step: u64,
    }
    let mut anon: BTreeMap<usize, Vec<Anon>> = BTreeMap::new();
    let mut got: BTreeSet<(u32, usize)> = BTreeSet::new();
    let mut fanout: BTreeMap<u32, usize> = BTreeMap::new();
    let mut connect_rejects = 0u64;
    for ev in log.iter() {
        match ev {
            Ev::BindFailed { host, kind } => {
                if kind != "AddrInUse" {
                    out.fail("bind-failed-unexpectedly", format!("h{host}: {kind}"));
                    return out;
                }
            }
            Ev::Recv { uid, n, buf, data, origin, waits, step } => {
                let r = &socks[uid];
                if *n > *buf {
                    out.fail("returned-length-exceeds-receive-buffer", format!("socket {uid}: a receive into a buffer of {buf} bytes returned {n}"));
                    return out;
                }
                match (*n, *buf) {
                    (0, 0) => out.label("receive:empty-buffer"),
                    (0, _) => {
                        out.label("receive:empty-datagram");
                        if *waits >= 2 {
                            out.label("receive:empty-datagram-after->=2-readiness-waits");
                        }
                    }
                    (1..=7, _) => out.label("receive:1-7-bytes"),
                    _ => {}
                }
                let cands: Vec<u32> = sends.keys().copied().filter(|sid| carries(*sid, *n, *buf, data)).collect();
                if cands.is_empty() {
                    // which send do the bytes claim to be?
                    let guess = match *n {
                        0 => None,
                        1..=3 => Some(data[0] as u32),
                        _ => Some(u32::from_le_bytes(data[0..4].try_into().unwrap())),
                    };
                    match guess.and_then(|g| sends.get(&g).map(|s| (g, s))) {
                        Some((g, s)) if *n >= 6 && u16::from_le_bytes(data[4..6].try_into().unwrap()) as usize != s.uid => {
                            out.fail("payload-attributed-to-wrong-sender", format!("send {g}: payload says socket {}, sent by {}", u16::from_le_bytes(data[4..6].try_into().unwrap()), s.uid));
                        }
                        Some((g, s)) => {
                            out.fail("payload-altered-or-wrong-length", format!("send {g} len {} into buffer {buf}: got {n} bytes {data:?}, sent {:?}", s.len, bytes_of[&g]));
                        }
                        None => {
                            out.fail("received-datagram-not-sent-by-anyone", format!("socket {uid} got {n} bytes {data:?} into a buffer of {buf}: no send has this payload"));
                        }
                    }
                    return out;
                }
                if cands.len() > 1 {
                    // in practice only with 0 delivered bytes (send ids below 256 differ in the first byte)
                    anon.entry(*uid).or_default().push(Anon { n: *n, data: data.clone(), buf: *buf, origin: *origin, step: *step });
                    continue;
                }
                let sid = &cands[0];
                let s = &sends[sid];
                if !got.insert((*sid, *uid)) {
                    out.fail("datagram-delivered-twice-to-one-socket", format!("send {sid} socket {uid}"));
                    return out;
                }
                *fanout.entry(*sid).or_default() += 1;
                if s.len > *buf {
                    out.label("receive:payload-cut-to-buffer");
                }
                let rel = relation(s, *uid, r);
                if rel == Rel::KnownPortReuse {
                    if !tolerated_reuse {
                        out.fail(
                            "multicast-delivered-to-socket-that-never-joined:port-reused-after-member-dropped",
                            format!("send {sid} to group {:?} at step {} (member then: an earlier socket on h{}:{}), received at step {step} by socket {uid} bound at step {} which never joined", s.dest, s.step, r.host, r.port, r.from),
                        );
                        return out;
                    }
                    out.exclude("F-C09-1");
                    continue;
                }
                if rel == Rel::No {
                    let why = match s.dest {
                        Dest::Multicast(..) => "multicast-to-non-member",
                        Dest::Broadcast(_) => "broadcast-to-wrong-socket",
                        Dest::Loopback(_) => "loopback-to-wrong-socket",
                        _ => "unicast-to-wrong-socket",
                    };
                    out.fail(
                        format!("datagram-received-by-socket-not-targeted:{why}"),
                        format!("send {sid} by socket {} ({:?}) to {:?} {} at step {} was received by socket {uid} ({r:?}) at step {step}", s.uid, socks[&s.uid], s.dest, s.dst, s.step),
                    );
                    return out;
                }
                if !origin_ok(s, origin) {
                    out.fail(
                        "reported-source-address-wrong",
                        format!("send {sid} by socket {} ({:?}) to {}: receiver saw origin {origin:?}, expected port {} ip in {:?}", s.uid, socks[&s.uid], s.dst, s.origin_port, s.origin_ips),
                    );
                    return out;
                }
                if *step > late(s) {
                    out.fail("datagram-delivered-too-late", format!("send {sid} at step {} received at step {step}", s.step));
                    return out;
                }
            }
            _ => {}
        }
    }
    // Receipts of 0 bytes do not say which send they are.  Per socket, they must be explained by
    // distinct sends not otherwise received there: each by a send that targets the socket, whose
    // payload cut to the buffer used is empty, with the reported origin, sent no later than the
    // receipt.  (Bipartite matching; a matching that also covers the Must sends exists whenever
    // both one-sided matchings do.)
    let anon_edge = |a: &Anon, sid: u32, ruid: usize, targeted_only: bool| -> bool {
        let s = &sends[&sid];
        carries(sid, a.n, a.buf, &a.data)
            && origin_ok(s, &a.origin)
            && a.step >= s.step
            && a.step <= late(s)
            && (!targeted_only
                || match relation(s, ruid, &socks[&ruid]) {
                    Rel::No => false,
                    Rel::KnownPortReuse => tolerated_reuse,
                    _ => true,
                })
    };
    let mut anon_receipts = 0u64;
    for (uid, list) in anon.iter() {
        anon_receipts += list.len() as u64;
        let sids: Vec<u32> = sends.keys().copied().filter(|sid| !got.contains(&(*sid, *uid))).collect();
        let adj: Vec<Vec<usize>> = list.iter().map(|a| (0..sids.len()).filter(|j| anon_edge(a, sids[*j], *uid, true)).collect()).collect();
        let m = kuhn(&adj, sids.len());
        if let Some(i) = m.iter().position(|x| x.is_none()) {
            let a = &list[i];
            if !adj[i].is_empty() {
                out.fail(
                    "datagram-delivered-twice-to-one-socket:more-empty-receipts-than-sends-that-explain-them",
                    format!("socket {uid} ({:?}) got {} receipts of 0 bytes {list:?}; sends that can explain this one: {:?}", socks[uid], list.len(), adj[i].iter().map(|j| sids[*j]).collect::<Vec<_>>()),
                );
            } else if let Some(sid) = sids.iter().find(|sid| anon_edge(a, **sid, *uid, false)) {
                let s = &sends[sid];
                out.fail(
                    "datagram-received-by-socket-not-targeted:empty-receipt",
                    format!("socket {uid} ({:?}) got 0 bytes into a buffer of {} from {:?} at step {}; the only sends that fit do not target it, e.g. send {sid} by socket {} to {:?} {} at step {}", socks[uid], a.buf, a.origin, a.step, s.uid, s.dest, s.dst, s.step),
                );
            } else {
                out.fail(
                    "received-datagram-not-sent-by-anyone:empty-receipt",
                    format!("socket {uid} ({:?}) got 0 bytes into a buffer of {} from {:?} at step {}: no send not already received there fits", socks[uid], a.buf, a.origin, a.step),
                );
            }
            return out;
        }
        for j in m.iter().flatten() {
            *fanout.entry(sids[*j]).or_default() += 1;
            if relation(&sends[&sids[*j]], *uid, &socks[uid]) == Rel::KnownPortReuse {
                out.exclude("F-C09-1");
            }
        }
    }
    // must
    let mut must_checked = 0u64;
    let mut overflow_possible = false;
    let mut missing: BTreeMap<usize, Vec<u32>> = BTreeMap::new();
    for (sid, s) in sends.iter() {
        // a loopback-bound socket sending off-host: outcome not specified by the property
        if socks[&s.uid].localhost && !matches!(s.dest, Dest::Loopback(_)) && s.err.is_some() {
            continue;
        }
        // broadcast without the option must fail and deliver nothing
        if let Dest::Broadcast(_) = s.dest {
            let sender = &socks[&s.uid];
            let enabled = sender.broadcast.iter().filter(|(p, _)| *p < s.pos).last().map(|(_, on)| *on).unwrap_or(false);
            if !enabled {
                if s.err.is_none() {
                    out.fail("broadcast-without-option-was-sent", format!("send {sid}"));
                    return out;
                }
                continue;
            } else if let Some(e) = &s.err {
                out.fail("broadcast-with-option-failed", format!("send {sid}: {e}"));
                return out;
            }
        } else if let Some(e) = &s.err {
            out.fail("send-failed-unexpectedly", format!("send {sid} to {:?}: {e}", s.dest));
            return out;
        }
        for (ruid, r) in socks.iter() {
            let rel = relation(s, *ruid, r);
            if rel == Rel::No || rel == Rel::KnownPortReuse {
                if matches!(conn_state(r, s.step, s.step + w), Ok(Some(_))) && r.port == s.dst.port() {
                    connect_rejects += 1;
                }
                continue;
            }
            if rel == Rel::Must {
                if addressed.get(ruid).copied().unwrap_or(0) > cap {
                    overflow_possible = true;
                    continue;
                }
                must_checked += 1;
                if !got.contains(&(*sid, *ruid)) {
                    missing.entry(*ruid).or_default().push(*sid);
                }
            }
        }
    }
    // a Must send not received by name has to be one of the socket's 0-byte receipts
    for (ruid, sids) in missing.iter() {
        let r = &socks[ruid];
        let empty = Vec::new();
        let list = anon.get(ruid).unwrap_or(&empty);
        let adj: Vec<Vec<usize>> = sids.iter().map(|sid| (0..list.len()).filter(|j| anon_edge(&list[*j], *sid, *ruid, true)).collect()).collect();
        let m = kuhn(&adj, list.len());
        if let Some(i) = m.iter().position(|x| x.is_none()) {
            let sid = &sids[i];
            let s = &sends[sid];
            let kind = match s.dest {
                Dest::Multicast(..) => "multicast",
                Dest::Broadcast(_) => "broadcast",
                Dest::Loopback(_) => "loopback",
                Dest::Own(_) => "own-address",
                Dest::Host(h, _) if h % n == socks[&s.uid].host => "own-address",
                _ => "unicast",
            };
            out.fail(
                format!("datagram-not-delivered-on-healthy-link:{kind}"),
                format!(
                    "send {sid} ({} bytes) by socket {} ({:?}) to {:?} {} at step {} never reached socket {ruid} ({r:?}); {} datagrams addressed to it, capacity {cap}; its receipts of 0 bytes: {list:?}, other sends owed to it and not received by name: {sids:?}",
                    s.len,
                    s.uid,
                    socks[&s.uid],
                    s.dest,
                    s.dst,
                    s.step,
                    addressed.get(ruid).copied().unwrap_or(0)
                ),
            );
            return out;
        }
    }
    let max_fan = fanout.values().copied().max().unwrap_or(0);
    if max_fan >= 2 {
        out.label("fan-out>=2");
    }
    if overflow_possible {
        out.label("overflow-possible");
    }
    if connect_rejects > 0 {
        out.label("connect-filter-rejects");
    }
    if sc.v6 {
        out.label("v6");
    }
    if sc.random_order {
        out.label("random-order");
    }
    for s in sends.values() {
        out.label(match s.dest {
            Dest::Host(..) => "dest:unicast",
            Dest::Own(_) => "dest:own",
            Dest::Loopback(_) => "dest:loopback",
            Dest::Broadcast(_) => "dest:broadcast",
            Dest::Multicast(..) => "dest:multicast",
        });
    }
    for s in sends.values() {
        out.label(match s.len {
            0 => "payload:empty",
            1..=7 => "payload:1-7",
            _ => "payload:8+",
        });
    }
    for l in sh.labels.borrow().iter() {
        out.label(l.clone());
    }
    out.count("sends", sends.len() as u64);
    out.count("receipts", got.len() as u64 + anon_receipts);
    out.count("receipts of 0 bytes attributed by matching", anon_receipts);
    out.count("must-deliveries checked", must_checked);
    out.nontrivial = max_fan >= 2 || overflow_possible || connect_rejects > 0;
    out
}

/// Maximum bipartite matching (augmenting paths); returns for every left vertex its partner.
fn kuhn(adj: &[Vec<usize>], nright: usize) -> Vec<Option<usize>> {
    fn aug(u: usize, adj: &[Vec<usize>], seen: &mut [bool], mr: &mut [Option<usize>]) -> bool {
        for &v in &adj[u] {
            if seen[v] {
                continue;
            }
            seen[v] = true;
            if mr[v].is_none() || aug(mr[v].unwrap(), adj, seen, mr) {
                mr[v] = Some(u);
                return true;
            }
        }
        false
    }
    let mut mr: Vec<Option<usize>> = vec![None; nright];
    for u in 0..adj.len() {
        let mut seen = vec![false; nright];
        aug(u, adj, &mut seen, &mut mr);
    }
    let mut ml = vec![None; adj.len()];
    for (v, u) in mr.iter().enumerate() {
        if let Some(u) = u {
            ml[*u] = Some(v);
        }
    }
    ml
}

fn style_strategy() -> BoxedStrategy<Style> {
    let wait = prop_oneof![3 => Just(Wait::Readable), 1 => (0u8..=2).prop_map(Wait::ReadableTimeout)];
    let take = prop_oneof![3 => Just(Take::RecvFrom), 3 => Just(Take::TryRecvFrom), 1 => Just(Take::TryRecv), 1 => (1u8..=3).prop_map(Take::RecvFromTimeout)];
    (prop_oneof![3 => Just(0usize), 3 => Just(1usize), 2 => Just(2usize), 1 => Just(3usize)], proptest::collection::vec(wait, 3), take)
        .prop_map(|(k, mut waits, take)| {
            waits.truncate(k);
            Style { waits, take }
        })
        .boxed()
}

/// (styles, bufs) of one receiver
fn rx_strategy() -> BoxedStrategy<(Vec<Style>, Vec<u8>)> {
    let buf = prop_oneof![2 => Just(0u8), 3 => 1u8..=7, 2 => Just(8u8), 13 => 9u8..=80];
    (proptest::collection::vec(style_strategy(), 1..=3), proptest::collection::vec(buf, 1..=3)).boxed()
}

pub fn strategy() -> BoxedStrategy<Scenario> {
    let lat = prop_oneof![
        1 => (0u32..=6).prop_map(|v| (v, v)),
        2 => (0u32..=4, 1u32..=10).prop_map(|(a, d)| (a, a + d)),
    ];
    let dest = prop_oneof![
        4 => (0usize..4, 0u8..3).prop_map(|(h, p)| Dest::Host(h, p)),
        1 => (0u8..3).prop_map(Dest::Own),
        2 => (0u8..3).prop_map(Dest::Loopback),
        2 => (0u8..3).prop_map(Dest::Broadcast),
        3 => (0u8..2, 0u8..3).prop_map(|(g, p)| Dest::Multicast(g, p)),
    ];
    let kind = prop_oneof![
        5 => (prop_oneof![4 => Just(false), 1 => Just(true)], prop_oneof![4 => (0u8..3).prop_map(Some), 1 => Just(None)], rx_strategy(), prop_oneof![4 => Just(0u8), 1 => 1u8..=5])
            .prop_map(|(localhost, port, (styles, bufs), pause)| OpKind::Bind { localhost, port, mode: RecvMode::RecvFrom, buf: 8, pause, styles, bufs }),
        10 => (dest.clone(), prop_oneof![3 => Just(0u8), 3 => 1u8..=7, 14 => 8u8..=100]).prop_map(|(dest, len)| OpKind::Send { dest, len }),
        3 => (0u8..2).prop_map(OpKind::Join),
        1 => (0u8..2).prop_map(OpKind::Leave),
        1 => dest.prop_map(OpKind::Connect),
        2 => any::<bool>().prop_map(OpKind::SetBroadcast),
        1 => any::<bool>().prop_map(OpKind::SetMulticastLoop),
        1 => Just(OpKind::Drop),
    ];
    (
        (2usize..=4, any::<bool>(), 1u32..=3, lat, prop_oneof![2 => 1usize..=3, 2 => Just(64usize)], any::<u64>(), any::<bool>()),
        proptest::collection::vec((1u32..30, 0usize..4, 0u8..3, kind), 4..60),
        proptest::collection::vec(rx_strategy(), 4),
    )
        .prop_map(|((nhosts, v6, tick_ms, (lat_min, lat_max), capacity, seed, random_order), ops, pre_rx)| {
            let mut ops: Vec<Op> = ops.into_iter().map(|(step, host, slot, kind)| Op { step, host, slot, kind }).collect();
            // make sure most sockets exist early: the first ops of every host become binds at step 1
            ops.sort_by_key(|o| o.step);
            (Scenario { nhosts, v6, tick_ms, lat_min, lat_max, capacity, seed, random_order, ops, strict_known: false, v2: true }, pre_rx)
        })
        .prop_map(|(mut sc, pre_rx)| {
            // seed the scenario with one wildcard socket per host on a common port
            let pre: Vec<Op> = (0..sc.nhosts)
                .map(|h| Op { step: 1, host: h, slot: 0, kind: OpKind::Bind { localhost: false, port: Some((sc.seed % 3) as u8), mode: RecvMode::RecvFrom, buf: 8, pause: 0, styles: pre_rx[h].0.clone(), bufs: pre_rx[h].1.clone() } })
                .collect();
            let mut ops = pre;
            // most hosts join group 0 and enable broadcast on that common socket
            for h in 0..sc.nhosts {
                if (sc.seed >> (16 + h)) & 1 == 0 {
                    ops.push(Op { step: 2, host: h, slot: 0, kind: OpKind::Join(0) });
                }
                if (sc.seed >> (24 + h)) & 3 != 0 {
                    ops.push(Op { step: 2, host: h, slot: 0, kind: OpKind::SetBroadcast(true) });
                }
            }
            ops.extend(sc.ops.drain(..));
            sc.ops = ops;
            sc
        })
        .boxed()
}

/// Bounded-exhaustive family: one receiver on h0:9000 using a single receive style and buffer
/// length, two datagrams sent to it (by a remote socket, or by a second socket on its own host
/// through 127.0.0.1) in the same step or 4 steps apart.  Styles: every sequence of <= 2 readiness
/// waits over {readable, readable under a 0 ms / 2 ms timeout} x every consuming call; payload
/// lengths {0, 3, 8, 30}^2; buffer lengths {0, 3, 8, 40}.
pub fn style_family() -> Vec<Scenario> {
    let w = [Wait::Readable, Wait::ReadableTimeout(0), Wait::ReadableTimeout(2)];
    let mut wait_seqs: Vec<Vec<Wait>> = vec![vec![]];
    for a in w {
        wait_seqs.push(vec![a]);
        for b in w {
            wait_seqs.push(vec![a, b]);
        }
    }
    let takes = [Take::RecvFrom, Take::TryRecvFrom, Take::TryRecv, Take::RecvFromTimeout(2)];
    let lens = [0u8, 3, 8, 30];
    let bufs = [0u8, 3, 8, 40];
    let mut v = Vec::new();
    for waits in &wait_seqs {
        for take in takes {
            for l1 in lens {
                for l2 in lens {
                    for buf in bufs {
                        for gap in [0u32, 4] {
                            for local in [false, true] {
                                let style = Style { waits: waits.clone(), take };
                                let bind = |host: usize, slot: u8, port: u8, styles: Vec<Style>, bufs: Vec<u8>| Op {
                                    step: 1,
                                    host,
                                    slot,
                                    kind: OpKind::Bind { localhost: false, port: Some(port), mode: RecvMode::RecvFrom, buf: 8, pause: 0, styles, bufs },
                                };
                                let (sh, ss, dest) = if local { (0usize, 1u8, Dest::Loopback(0)) } else { (1usize, 0u8, Dest::Host(0, 0)) };
                                let ops = vec![
                                    bind(0, 0, 0, vec![style], vec![buf]),
                                    bind(sh, ss, 1, vec![], vec![40]),
                                    Op { step: 3, host: sh, slot: ss, kind: OpKind::Send { dest, len: l1 } },
                                    Op { step: 3 + gap, host: sh, slot: ss, kind: OpKind::Send { dest, len: l2 } },
                                ];
                                v.push(Scenario { nhosts: 2, v6: false, tick_ms: 1, lat_min: 1, lat_max: 1, capacity: 64, seed: 1, random_order: false, ops, strict_known: false, v2: true });
                            }
                        }
                    }
                }
            }
        }
    }
    v
}

/// Clamp a structurally decoded scenario into the generator's domain (fuzz tier).
pub fn fuzz_sanitize(sc: &mut Scenario) -> bool {
    sc.nhosts = 2 + sc.nhosts % 3;
    sc.tick_ms = 1 + sc.tick_ms % 3;
    sc.lat_min %= 7;
    sc.lat_max = sc.lat_min + sc.lat_max % 11;
    sc.capacity = if sc.capacity % 4 == 0 { 64 } else { sc.capacity % 4 };
    sc.strict_known = false;
    sc.v2 = true;
    let fix_dest = |d: &mut Dest| match d {
        Dest::Host(h, p) => {
            *h %= 4;
            *p %= 3;
        }
        Dest::Own(p) | Dest::Loopback(p) | Dest::Broadcast(p) => *p %= 3,
        Dest::Multicast(g, p) => {
            *g %= 2;
            *p %= 3;
        }
    };
    for o in sc.ops.iter_mut() {
        o.step = 1 + o.step % 29;
        o.host %= 4;
        o.slot %= 3;
        match &mut o.kind {
            OpKind::Bind { port, pause, styles, bufs, .. } => {
                *port = port.map(|p| p % 3);
                *pause %= 6;
                styles.truncate(3);
                for st in styles.iter_mut() {
                    st.waits.truncate(3);
                    for w in st.waits.iter_mut() {
                        if let Wait::ReadableTimeout(d) = w {
                            *d %= 3;
                        }
                    }
                    if let Take::RecvFromTimeout(d) = &mut st.take {
                        *d = 1 + *d % 3;
                    }
                }
                bufs.truncate(3);
                for b in bufs.iter_mut() {
                    *b %= 81;
                }
            }
            OpKind::Send { dest, len } => {
                fix_dest(dest);
                *len %= 101;
            }
            OpKind::Connect(d) => fix_dest(d),
            OpKind::Join(g) | OpKind::Leave(g) => *g %= 2,
            _ => {}
        }
    }
    // every host gets a wildcard socket on a common port first, as in the generator
    let mut ops: Vec<Op> = (0..sc.nhosts)
        .map(|h| Op { step: 1, host: h, slot: 0, kind: OpKind::Bind { localhost: false, port: Some(0), mode: RecvMode::RecvFrom, buf: 40, pause: 0, styles: vec![], bufs: vec![] } })
        .collect();
    ops.extend(sc.ops.drain(..));
    sc.ops = ops;
    true
}

fn check(tier: Tier, seed: u64) -> i32 {
    let ctx = Ctx::new("C09", tier, seed, "exploration");
    ctx.replay_corpus(&replay);
    let fam = style_family();
    let desc = format!(
        "{} scenarios: one receiver with a single receive style (every sequence of <= 2 readiness waits over readable / readable under a 0 or 2 ms timeout, then recv_from / try_recv_from / try_recv / recv_from under a timeout) and buffer length in {{0,3,8,40}}; two datagrams with payload lengths in {{0,3,8,30}}^2 sent to it in one step or 4 steps apart, from a remote host or from its own host via 127.0.0.1",
        fam.len()
    );
    ctx.exhaustive("receive-styles", &desc, Box::new(fam.into_iter()), &run);
    ctx.random("routing", tier.pick(30_000, 400_000), &|| strategy(), &run);
    ctx.finish(
        "random scripts over 2-4 hosts, v4/v6: up to 3 sockets per host bound to wildcard or localhost on one of 3 fixed ports or an ephemeral port; every receiver cycles, one entry per receive, through 1-3 generated receive styles (0-3 readiness waits, each readable() or readable() under a 0-2 ms timeout, then recv_from / try_recv_from / try_recv / recv_from under a 1-3 ms timeout; non-blocking calls poll every 1 ms) and 1-3 receive buffer lengths of 0-80 bytes, with optional pauses; sends of 0-100 byte payloads (the first len bytes of: send id, sender socket id, length, filler) to a host, the sender's own address, 127.0.0.1/::1, the broadcast address and two multicast groups; join/leave, connect, broadcast and multicast-loop options, socket drops; udp_capacity 1-3 or 64; fixed or ranged latency; random host order. Model: for every (send, socket) the relation No/May/Must from the script; every receipt must return a count <= the buffer offered and bytes equal to some send's payload cut to that buffer; a receipt naming its send (>= 1 byte delivered) must be May/Must, first of its (send, socket), with the expected source address (when the call reports one); receipts of 0 bytes (empty payload, or empty buffer) must be matched one-to-one (bipartite matching per socket) with sends that target the socket, are empty after the cut, carry the reported origin, were sent no later than the receipt and were not received there by name; every Must pair must be received by name or matched to a 0-byte receipt unless more datagrams were addressed to the socket than the capacity. A bounded-exhaustive sub-tier runs every receive style x payload lengths x buffer length on a two-datagram exchange. Non-trivial = a send fanned out to >= 2 sockets, or overflow was possible, or a connected-peer filter rejected something. Distinct by scenario hash.",
        &[
            "fail_rate 0, no partitions/holds",
            "one task per socket does all receives; concurrent readers of one socket are not generated",
            "fewer than 256 sends per run, so the first payload byte identifies the send",
            "exactly-one is asserted only for sockets that existed during the whole delivery window with a stable connect state and to which no more datagrams were addressed in the whole run than udp_capacity",
            "cases the property leaves open are May: own-host multicast members (loop option), loopback-bound senders sending off-host, sockets bound/dropped in the step of a broadcast",
        ],
    )
}

fn replay(_sub: &str, v: &Value) -> Result<Outcome, String> {
    replay_as::<Scenario>(v, &run)
}

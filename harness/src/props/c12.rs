//! C12 — turmoil::net pairs every connect with exactly one accept, or refuses
//! it.  DESIGN.md §6 C12.  SimDriver; all host actions are scheduled on the
//! harness' step counter so the model can work in whole steps.

use crate::engine::{replay_as, Ctx, Outcome, Tier};
use proptest::prelude::*;
use serde::{Deserialize, Serialize};
use serde_json::Value;
use std::cell::{Cell, RefCell};
use std::collections::{BTreeMap, BTreeSet};
use std::net::SocketAddr;
use std::rc::Rc;
use std::time::{Duration, SystemTime};
use tokio::io::{AsyncReadExt, AsyncWriteExt};
use turmoil::net::{TcpListener, TcpStream};

pub const PROP: super::Prop = super::Prop {
    id: "C12",
    level: "exploration",
    check,
    replay,
};

#[derive(Clone, Copy, Debug, Serialize, Deserialize, PartialEq, Eq)]
pub enum Target {
    /// the server's host name (from c0/c1: remote; from s: own address)
    Server,
    /// 127.0.0.1 / ::1 (only meaningful from s itself)
    Loopback,
    /// a port of the server nobody ever listens on
    DeadPort,
    /// an address no host owns
    Nowhere,
}

#[derive(Clone, Debug, Serialize, Deserialize)]
pub struct Conn {
    /// 0 = on the server host itself, 1 = c0, 2 = c1
    pub from: usize,
    pub step: u32,
    pub target: Target,
    /// give up after this many steps
    pub timeout_steps: Option<u32>,
}

#[derive(Clone, Debug, Serialize, Deserialize)]
pub struct Scenario {
    pub tick_ms: u32,
    pub lat_min: u32,
    pub lat_max: u32,
    pub seed: u64,
    pub v6: bool,
    pub random_order: bool,
    pub listen_localhost: bool,
    /// server timeline in steps
    pub bind_step: u32,
    pub accept_step: u32,
    pub drop_step: Option<u32>,
    pub rebind_step: Option<u32>,
    pub conns: Vec<Conn>,
    /// (step, kind): 0 hold, 1 release, 2 partition, 3 repair  between c0 and s
    pub faults: Vec<(u32, u8)>,
}

#[derive(Clone, Debug)]
struct ConnRes {
    ok: bool,
    kind: String,
    at_step: u64,
    local: Option<SocketAddr>,
    peer: Option<SocketAddr>,
}

#[derive(Clone, Debug)]
struct Acc {
    nonce: Option<u32>,
    local: SocketAddr,
    peer: SocketAddr,
    reported_peer: SocketAddr,
    at_step: u64,
    listener_gen: u32,
}

#[derive(Default)]
struct Shared {
    step: Cell<u64>,
    results: RefCell<BTreeMap<usize, ConnRes>>,
    accepted: RefCell<Vec<Acc>>,
    errors: RefCell<Vec<String>>,
    release: Cell<bool>,
    counts: RefCell<BTreeMap<String, usize>>,
    started: RefCell<BTreeMap<usize, u64>>,
}

const PORT: u16 = 9000;

async fn wait_step(sh: &Shared, k: u64) {
    while sh.step.get() < k {
        tokio::time::sleep(Duration::from_millis(1)).await;
    }
}

async fn server(sh: Rc<Shared>, sc: Scenario, own_conns: Vec<(usize, Conn)>) -> turmoil::Result {
    let any = match (sc.listen_localhost, sc.v6) {
        (true, false) => "127.0.0.1",
        (true, true) => "::1",
        (false, false) => "0.0.0.0",
        (false, true) => "::",
    };
    for (i, c) in own_conns {
        tokio::task::spawn_local(connector(sh.clone(), i, c, sc.v6));
    }
    // holder for accepted streams (dropped when the harness says so)
    let held: Rc<RefCell<Vec<TcpStream>>> = Default::default();
    let accept_loop = |lis: Rc<TcpListener>, gen: u32, sh: Rc<Shared>, held: Rc<RefCell<Vec<TcpStream>>>| async move {
        loop {
            match lis.accept().await {
                Ok((mut s, reported_peer)) => {
                    let at = sh.step.get();
                    let (local, peer) = (s.local_addr().unwrap(), s.peer_addr().unwrap());
                    let idx = {
                        let mut a = sh.accepted.borrow_mut();
                        a.push(Acc { nonce: None, local, peer, reported_peer, at_step: at, listener_gen: gen });
                        a.len() - 1
                    };
                    let (sh2, held2) = (sh.clone(), held.clone());
                    tokio::task::spawn_local(async move {
                        let mut b = [0u8; 4];
                        let got = tokio::select! {
                            r = s.read_exact(&mut b) => r.is_ok(),
                            _ = async { while !sh2.release.get() { tokio::time::sleep(Duration::from_millis(1)).await; } } => false,
                        };
                        if got {
                            sh2.accepted.borrow_mut()[idx].nonce = Some(u32::from_le_bytes(b));
                        }
                        if sh2.release.get() {
                            drop(s);
                        } else {
                            held2.borrow_mut().push(s);
                        }
                    });
                }
                Err(e) => {
                    sh.errors.borrow_mut().push(format!("accept: {e}"));
                    break;
                }
            }
        }
    };
    wait_step(&sh, sc.bind_step as u64).await;
    let lis = Rc::new(TcpListener::bind((any, PORT)).await?);
    let accepts_first = sc.drop_step.map(|d| sc.accept_step.max(sc.bind_step) < d).unwrap_or(true);
    let mut task = None;
    if accepts_first {
        wait_step(&sh, sc.accept_step.max(sc.bind_step) as u64).await;
        task = Some(tokio::task::spawn_local(accept_loop(lis.clone(), 0, sh.clone(), held.clone())));
    }
    if let Some(d) = sc.drop_step {
        wait_step(&sh, d as u64).await;
        if let Some(task) = task {
            task.abort();
            let _ = task.await;
        }
        drop(lis);
        if let Some(r) = sc.rebind_step {
            wait_step(&sh, r as u64).await;
            match TcpListener::bind((any, PORT)).await {
                Ok(l2) => {
                    tokio::task::spawn_local(accept_loop(Rc::new(l2), 1, sh.clone(), held.clone()));
                }
                Err(e) => sh.errors.borrow_mut().push(format!("re-bind after drop failed: {:?}", e.kind())),
            }
        }
    }
    while !sh.release.get() {
        tokio::time::sleep(Duration::from_millis(1)).await;
    }
    held.borrow_mut().clear();
    // report stream counts a few ticks later
    tokio::time::sleep(Duration::from_millis(sc.lat_max as u64 + 3 * sc.tick_ms as u64 + 2)).await;
    for h in ["s", "c0", "c1"] {
        sh.counts.borrow_mut().insert(h.to_string(), turmoil::established_tcp_stream_count_on(h));
    }
    std::future::pending().await
}

async fn connector(sh: Rc<Shared>, i: usize, c: Conn, v6: bool) {
    wait_step(&sh, c.step as u64).await;
    sh.started.borrow_mut().insert(i, sh.step.get());
    let fut = async {
        match c.target {
            Target::Server => TcpStream::connect(("s", PORT)).await,
            Target::Loopback => TcpStream::connect((if v6 { "::1" } else { "127.0.0.1" }, PORT)).await,
            Target::DeadPort => TcpStream::connect(("s", PORT + 1)).await,
            Target::Nowhere => TcpStream::connect((if v6 { "fe80::dead:1" } else { "192.168.222.1" }, PORT)).await,
        }
    };
    let r = match c.timeout_steps {
        None => fut.await,
        Some(w) => {
            let deadline = c.step as u64 + w as u64;
            tokio::select! {
                biased;
                r = fut => r,
                _ = wait_step(&sh, deadline) => Err(std::io::Error::new(std::io::ErrorKind::TimedOut, "gave up")),
            }
        }
    };
    let at = sh.step.get();
    match r {
        Ok(mut s) => {
            let res = ConnRes { ok: true, kind: String::new(), at_step: at, local: s.local_addr().ok(), peer: s.peer_addr().ok() };
            sh.results.borrow_mut().insert(i, res);
            let _ = s.write_all(&(i as u32).to_le_bytes()).await;
            while !sh.release.get() {
                tokio::time::sleep(Duration::from_millis(1)).await;
            }
            drop(s);
        }
        Err(e) => {
            sh.results.borrow_mut().insert(i, ConnRes { ok: false, kind: format!("{:?}", e.kind()), at_step: at, local: None, peer: None });
        }
    }
}

pub fn run(sc: &Scenario) -> Outcome {
    let mut out = Outcome::ok();
    let tick = sc.tick_ms.max(1) as u64;
    let lat_min = sc.lat_min.min(sc.lat_max) as u64;
    let lat_max = sc.lat_max.max(sc.lat_min) as u64;
    let sh = Rc::new(Shared::default());
    let mut b = turmoil::Builder::new();
    b.tick_duration(Duration::from_millis(tick))
        .min_message_latency(Duration::from_millis(lat_min))
        .max_message_latency(Duration::from_millis(lat_max))
        .epoch(SystemTime::UNIX_EPOCH + Duration::from_secs(1))
        .rng_seed(sc.seed)
        .simulation_duration(Duration::from_secs(1_000_000));
    if sc.v6 {
        b.ip_version(turmoil::IpVersion::V6);
    }
    if sc.random_order {
        b.enable_random_order();
    }
    let mut sim = b.build();
    let conns: Vec<(usize, Conn)> = sc
        .conns
        .iter()
        .cloned()
        .enumerate()
        .map(|(i, mut c)| {
            c.from %= 3;
            if c.target == Target::Loopback && c.from != 0 {
                c.target = Target::Server;
            }
            (i, c)
        })
        .collect();
    {
        let (sh, sc2) = (sh.clone(), sc.clone());
        let own: Vec<(usize, Conn)> = conns.iter().filter(|(_, c)| c.from == 0).cloned().collect();
        sim.host("s", move || server(sh.clone(), sc2.clone(), own.clone()));
    }
    for h in 1..=2usize {
        let mine: Vec<(usize, Conn)> = conns.iter().filter(|(_, c)| c.from == h).cloned().collect();
        let (sh, v6) = (sh.clone(), sc.v6);
        sim.host(format!("c{}", h - 1), move || {
            let (sh, mine) = (sh.clone(), mine.clone());
            async move {
                for (i, c) in mine {
                    tokio::task::spawn_local(connector(sh.clone(), i, c, v6));
                }
                std::future::pending::<()>().await;
                Ok(())
            }
        });
    }
    let last_event = conns
        .iter()
        .map(|(_, c)| c.step + c.timeout_steps.unwrap_or(0))
        .chain([sc.bind_step, sc.accept_step, sc.drop_step.unwrap_or(0), sc.rebind_step.unwrap_or(0)])
        .chain(sc.faults.iter().map(|f| f.0))
        .max()
        .unwrap_or(0) as u64;
    let settle = lat_max.div_ceil(tick) + 4;
    let mut held = false;
    let mut cut_windows: Vec<(u64, u64)> = Vec::new();
    let mut cut_from: Option<u64> = None;
    let mut fault_used = false;
    let run_until = last_event + 2 * settle + 2;
    for done in 0..run_until {
        for (at, k) in &sc.faults {
            if *at as u64 == done {
                fault_used = true;
                match k % 4 {
                    0 => {
                        sim.hold("c0", "s");
                        held = true;
                    }
                    1 => {
                        sim.release("c0", "s");
                        held = false;
                    }
                    2 => {
                        sim.partition("c0", "s");
                        if cut_from.is_none() {
                            cut_from = Some(done + 1);
                        }
                    }
                    _ => {
                        sim.repair("c0", "s");
                        if let Some(f) = cut_from.take() {
                            cut_windows.push((f, done));
                        }
                    }
                }
            }
        }
        sh.step.set(done + 1);
        if let Err(e) = sim.step() {
            out.fail("step-error", format!("{e}"));
            return out;
        }
    }
    if held {
        sim.release("c0", "s");
    }
    if let Some(f) = cut_from.take() {
        sim.repair("c0", "s");
        cut_windows.push((f, run_until));
    }
    let mut step_no = run_until;
    for _ in 0..(2 * settle) {
        step_no += 1;
        sh.step.set(step_no);
        let _ = sim.step();
    }
    // release everything and collect the stream counts
    sh.release.set(true);
    for _ in 0..(2 * settle + lat_max / tick + 6) {
        step_no += 1;
        sh.step.set(step_no);
        let _ = sim.step();
    }
    if !sh.errors.borrow().is_empty() {
        out.fail("unexpected-server-error", format!("{:?}", sh.errors.borrow()));
        return out;
    }

    // ---------------- oracle
    let results = sh.results.borrow();
    let accepted = sh.accepted.borrow();
    let started = sh.started.borrow();
    let exact = lat_min == lat_max && lat_min >= 1 && !fault_used && !sc.random_order;
    let ceil_l = lat_max.div_ceil(tick);
    let mut kinds = BTreeSet::new();
    let mut nonce_seen: BTreeMap<u32, usize> = BTreeMap::new();
    let mut phantom = 0usize;
    for (k, a) in accepted.iter().enumerate() {
        match a.nonce {
            Some(nn) => {
                if nonce_seen.insert(nn, k).is_some() {
                    out.fail("one-connect-accepted-twice", format!("nonce {nn} on two accepted streams: {accepted:?}"));
                    return out;
                }
            }
            None => phantom += 1,
        }
        if a.reported_peer != a.peer {
            out.fail("accept-returned-address-differs-from-stream-peer-addr", format!("{a:?}"));
            return out;
        }
    }
    let cancelled: Vec<usize> = conns.iter().filter(|(i, _)| results.get(i).map(|r| r.kind == "TimedOut").unwrap_or(false)).map(|(i, _)| *i).collect();
    let mut paired_phantoms = 0usize;
    let paired_by_addr: BTreeSet<u64> = BTreeSet::new();
    for (i, c) in &conns {
        let Some(r) = results.get(i) else {
            // never returned
            let cut = c.from == 1 && started.get(i).map(|s| cut_windows.iter().any(|(a, b)| s >= a && s <= b)).unwrap_or(false);
            let _ = cut;
            out.fail(
                "connect-never-returned",
                format!("connector {i} {c:?} started at step {:?} still pending after {step_no} steps (links healthy at the end)", started.get(i)),
            );
            return out;
        };
        kinds.insert(if r.ok { "ok".to_string() } else { r.kind.clone() });
        if r.ok {
            let by_nonce = nonce_seen.get(&(*i as u32)).copied();
            // under a hold/partition the nonce itself may be lost or delayed: pair by address then
            let by_addr = if fault_used {
                accepted.iter().position(|a| a.nonce.is_none() && Some(a.peer) == r.local && !paired_by_addr.contains(&a.at_step))
            } else {
                None
            };
            let Some(k) = by_nonce.or(by_addr) else {
                out.fail("successful-connect-was-never-accepted", format!("connector {i} {c:?} -> {r:?}; accepted {accepted:?}"));
                return out;
            };
            if by_nonce.is_none() {
                paired_phantoms += 1;
            }
            let a = &accepted[k];
            if Some(a.peer) != r.local {
                out.fail("accepted-peer-addr-differs-from-connector-local-addr", format!("connector {i}: {r:?}; accepted {a:?}"));
                return out;
            }
            if Some(a.local) != r.peer {
                out.fail("accepted-local-addr-differs-from-connector-peer-addr", format!("connector {i}: {r:?}; accepted {a:?}"));
                return out;
            }
            if c.target == Target::Loopback && !a.local.ip().is_loopback() {
                out.fail("loopback-connection-lost-loopback-address", format!("{a:?}"));
                return out;
            }
            if matches!(c.target, Target::DeadPort | Target::Nowhere) {
                out.fail("connect-without-listener-succeeded", format!("connector {i} {c:?}"));
                return out;
            }
            if sc.listen_localhost && c.from != 0 {
                out.fail("remote-connect-reached-localhost-listener", format!("connector {i} {c:?}"));
                return out;
            }
            if sc.listen_localhost && c.from == 0 && c.target == Target::Server && !sc.v6 {
                // own public address does not match a 127.0.0.1 bind
                out.fail("public-address-connect-reached-localhost-listener", format!("connector {i} {c:?}"));
                return out;
            }
        } else {
            if r.kind != "ConnectionRefused" && r.kind != "TimedOut" {
                out.fail("failed-connect-wrong-error-kind", format!("connector {i} {c:?}: {}", r.kind));
                return out;
            }
            if nonce_seen.contains_key(&(*i as u32)) {
                out.fail("failed-connect-was-accepted-with-data", format!("connector {i}"));
                return out;
            }
        }
        // immediate refusals
        if matches!(c.target, Target::DeadPort | Target::Nowhere) {
            let may_be_held0 = fault_used && c.from == 1 && c.target == Target::DeadPort;
            if r.ok || !may_be_held0 && r.kind == "TimedOut" && c.timeout_steps.map(|w| w as u64 > ceil_l + 3).unwrap_or(false) {
                out.fail("connect-without-listener-not-refused", format!("connector {i} {c:?}: {r:?}"));
                return out;
            }
            let may_be_held = fault_used && c.from == 1 && c.target == Target::DeadPort;
            if !may_be_held && !r.ok && r.kind == "ConnectionRefused" && r.at_step > started[i] + ceil_l + 2 {
                out.fail("refusal-too-late", format!("connector {i} {c:?} started {} refused at {}", started[i], r.at_step));
                return out;
            }
        }
        // partition: connect started while c0->s is cut must be refused
        if c.from == 1 && c.target == Target::Server {
            let st = started[i];
            if cut_windows.iter().any(|(a, b2)| st >= *a && st <= *b2) && r.ok {
                out.fail("connect-across-partition-succeeded", format!("connector {i} started at step {st}, cut windows {cut_windows:?}"));
                return out;
            }
        }
    }

    if phantom > cancelled.len() + paired_phantoms {
        out.fail(
            "accepted-stream-without-a-successful-connector",
            format!("{phantom} accepted streams never carried a nonce; {} connectors gave up, {paired_phantoms} were paired by address under a fault; accepted {accepted:?}", cancelled.len()),
        );
        return out;
    }

    // ---------------- exact model (fixed latency >= 1 ms, no faults, fixed host order)
    if exact {
        let b_ = sc.bind_step as u64;
        let d_ = sc.drop_step.map(|d| d as u64);
        // a listener dropped before its accept step never accepts
        let s_ = if d_.map(|d| (sc.accept_step.max(sc.bind_step) as u64) < d).unwrap_or(true) { sc.accept_step.max(sc.bind_step) as u64 } else { u64::MAX / 2 };
        let r_ = sc.rebind_step.map(|r| r as u64);
        let mut expected_order: Vec<(u64, usize)> = Vec::new();
        for (i, c) in &conns {
            if !matches!(c.target, Target::Server | Target::Loopback) {
                continue;
            }
            let a = started[i];
            // delivery step of the SYN at the server (start of its turn)
            let local = c.from == 0;
            let j = if local { a + 1 } else { a + ceil_l.max(1) };
            // does the bind address match?
            let addr_ok = if !sc.listen_localhost {
                true
            } else {
                local && c.target == Target::Loopback
            };
            // listener state as of the delivery
            #[derive(PartialEq, Debug)]
            enum Exp {
                Refused,
                Accepted,
                Either,
            }
            let within_first = j > b_ && d_.map(|d| j <= d).unwrap_or(true);
            let within_second = match (d_, r_) {
                (Some(_), Some(r)) => j > r,
                _ => false,
            };
            let mut exp = if !addr_ok {
                Exp::Refused
            } else if within_first {
                // queued; accepted at max(j, s) unless the listener is dropped first
                let acc_at = j.max(s_);
                match d_ {
                    Some(d) if acc_at > d => Exp::Refused,
                    Some(d) if acc_at + 1 >= d => Exp::Either,
                    _ => Exp::Accepted,
                }
            } else if within_second {
                Exp::Accepted
            } else {
                // boundary steps (delivery in the very step of bind / re-bind) can go either way
                let near = |x: u64| j + 1 >= x && j <= x + 1;
                if near(b_) || r_.map(near).unwrap_or(false) {
                    Exp::Either
                } else {
                    Exp::Refused
                }
            };
            // loopback deliveries ride on a sleep(tick) task: one step of slack
            if local && exp != Exp::Either {
                let near = |x: u64| j + 1 >= x && j <= x + 1;
                if near(b_) || d_.map(near).unwrap_or(false) || r_.map(near).unwrap_or(false) {
                    exp = Exp::Either;
                }
            }
            // a connector that gives up
            let r = &results[i];
            if let Some(w) = c.timeout_steps {
                let give_up = a + w as u64;
                let acc_at = j.max(s_);
                if exp == Exp::Accepted && give_up <= acc_at + 2 {
                    exp = Exp::Either;
                }
                if r.kind == "TimedOut" {
                    if exp == Exp::Accepted {
                        out.fail("connect-still-pending-although-accepting-listener", format!("connector {i} {c:?}: gave up at step {give_up}, SYN delivered at {j}, accepting since {s_}"));
                        return out;
                    }
                    continue;
                }
            }
            match exp {
                Exp::Accepted => {
                    if !r.ok {
                        out.fail("connect-refused-although-listener-accepting", format!("connector {i} {c:?} (SYN sent step {a}, delivered step {j}; bind {b_} accept {s_} drop {d_:?} rebind {r_:?}): {r:?}"));
                        return out;
                    }
                    expected_order.push((j, *i));
                }
                Exp::Refused => {
                    if r.ok {
                        out.fail("connect-succeeded-without-live-listener", format!("connector {i} {c:?} (SYN sent step {a}, delivered step {j}; bind {b_} accept {s_} drop {d_:?} rebind {r_:?})"));
                        return out;
                    }
                    // promptness: refused no later than the drop / the delivery + 2 steps
                    let by = d_.filter(|d| j <= *d).map(|d| d.max(j)).unwrap_or(j) + 2;
                    if r.kind == "ConnectionRefused" && r.at_step > by {
                        out.fail("refusal-too-late", format!("connector {i}: SYN delivered step {j}, refused at step {} (expected by {by})", r.at_step));
                        return out;
                    }
                }
                Exp::Either => {
                    if r.ok {
                        expected_order.push((j, *i));
                    }
                }
            }
        }
        // accept order = arrival order (different delivery steps only; remote SYNs only)
        let pos: BTreeMap<u32, usize> = accepted.iter().enumerate().filter_map(|(k, a)| a.nonce.map(|n| (n, k))).collect();
        for x in &expected_order {
            for y in &expected_order {
                let (cx, cy) = (&conns[x.1].1, &conns[y.1].1);
                if cx.from == 0 || cy.from == 0 {
                    continue;
                }
                if x.0 + 1 < y.0 {
                    if let (Some(px), Some(py)) = (pos.get(&(x.1 as u32)), pos.get(&(y.1 as u32))) {
                        if accepted[*px].listener_gen == accepted[*py].listener_gen && px > py {
                            out.fail("accept-order-differs-from-arrival-order", format!("connector {} (SYN delivered step {}) accepted after connector {} (delivered step {})", x.1, x.0, y.1, y.0));
                            return out;
                        }
                    }
                }
            }
        }
        out.label("exact-model");
    }

    // ---------------- stream counts back to baseline
    let counts = sh.counts.borrow();
    if counts.len() == 3 {
        for (h, n) in counts.iter() {
            if *n != 0 {
                out.fail("stream-still-counted-after-both-ends-dropped", format!("host {h}: established_tcp_stream_count_on = {n} after every stream was dropped; results {results:?}"));
                return out;
            }
        }
    } else {
        out.fail("harness-counts-missing", format!("{counts:?}"));
        return out;
    }

    if sc.drop_step.is_some() {
        out.label("listener-drop");
    }
    if sc.rebind_step.is_some() {
        out.label("rebind");
    }
    if !cancelled.is_empty() {
        out.label("connector-gave-up");
    }
    if fault_used {
        out.label("hold-or-partition");
    }
    if sc.listen_localhost {
        out.label("localhost-bind");
    }
    if conns.iter().any(|(_, c)| c.from == 0) {
        out.label("same-host-connector");
    }
    if sc.v6 {
        out.label("v6");
    }
    if lat_min != lat_max {
        out.label("ranged-latency");
    }
    for k in &kinds {
        out.label(format!("result:{k}"));
    }
    out.count("connects", conns.len() as u64);
    out.count("accepted streams", accepted.len() as u64);
    // non-trivial: >= 2 connectors pending at once and >= 1 refusal or cancellation
    let mut overlap = false;
    for (i, _) in &conns {
        for (j2, _) in &conns {
            if i < j2 {
                if let (Some(ri), Some(rj)) = (results.get(i), results.get(j2)) {
                    let (si, sj) = (started[i], started[j2]);
                    if si <= rj.at_step && sj <= ri.at_step {
                        overlap = true;
                    }
                }
            }
        }
    }
    out.nontrivial = overlap && (kinds.contains("ConnectionRefused") || kinds.contains("TimedOut"));
    out
}

pub fn strategy() -> BoxedStrategy<Scenario> {
    let lat = prop_oneof![
        3 => (1u32..=8).prop_map(|v| (v, v)),
        2 => (0u32..=4, 1u32..=12).prop_map(|(a, d)| (a, a + d)),
    ];
    (
        (1u32..=3, lat, any::<u64>(), any::<bool>(), prop_oneof![4 => Just(false), 1 => Just(true)], prop_oneof![4 => Just(false), 1 => Just(true)]),
        (1u32..12, 0u32..14, prop_oneof![1 => Just(None), 1 => (4u32..30).prop_map(Some)], prop_oneof![1 => Just(None), 1 => (1u32..12).prop_map(Some)]),
        proptest::collection::vec(
            (
                0usize..3,
                1u32..36,
                prop_oneof![8 => Just(Target::Server), 2 => Just(Target::Loopback), 1 => Just(Target::DeadPort), 1 => Just(Target::Nowhere)],
                prop_oneof![3 => Just(None), 1 => (0u32..14).prop_map(Some)],
            ),
            1..8,
        ),
        prop_oneof![
            5 => Just(vec![]),
            1 => (2u32..30, 1u32..10).prop_map(|(a, d)| vec![(a, 0u8), (a + d, 1u8)]),
            1 => (2u32..30, 1u32..10).prop_map(|(a, d)| vec![(a, 2u8), (a + d, 3u8)]),
        ],
    )
        .prop_map(|((tick_ms, (lat_min, lat_max), seed, v6, random_order, listen_localhost), (bind_step, acc_off, drop_off, rebind_off), conns, faults)| {
            let accept_step = bind_step + acc_off;
            let drop_step = drop_off.map(|d| bind_step + d);
            let rebind_step = match (drop_step, rebind_off) {
                (Some(d), Some(r)) => Some(d + r),
                _ => None,
            };
            Scenario {
                tick_ms,
                lat_min,
                lat_max,
                seed,
                v6,
                random_order,
                listen_localhost,
                bind_step,
                accept_step,
                drop_step,
                rebind_step,
                conns: conns.into_iter().map(|(from, step, target, timeout_steps)| Conn { from, step, target, timeout_steps }).collect(),
                faults,
            }
        })
        .boxed()
}

/// Clamp a structurally decoded scenario into the generator's domain (fuzz tier).
pub fn fuzz_sanitize(sc: &mut Scenario) -> bool {
    sc.tick_ms = 1 + sc.tick_ms % 3;
    sc.lat_min %= 9;
    sc.lat_max = sc.lat_min + sc.lat_max % 13;
    if sc.lat_min == sc.lat_max && sc.lat_min == 0 {
        sc.lat_min = 1;
        sc.lat_max = 1;
    }
    sc.bind_step = 1 + sc.bind_step % 11;
    sc.accept_step = sc.bind_step + sc.accept_step % 14;
    sc.drop_step = sc.drop_step.map(|d| sc.bind_step + 4 + d % 26);
    sc.rebind_step = match (sc.drop_step, sc.rebind_step) {
        (Some(d), Some(r)) => Some(d + 1 + r % 11),
        _ => None,
    };
    sc.conns.truncate(7);
    for c in sc.conns.iter_mut() {
        c.from %= 3;
        c.step = 1 + c.step % 35;
        c.timeout_steps = c.timeout_steps.map(|w| w % 14);
    }
    let first = sc.faults.first().cloned();
    sc.faults = match first {
        Some((a, k)) => {
            let base = 2 + a % 28;
            let d = 1 + (a >> 8) % 9;
            if k % 2 == 0 {
                vec![(base, 0), (base + d, 1)]
            } else {
                vec![(base, 2), (base + d, 3)]
            }
        }
        None => vec![],
    };
    !sc.conns.is_empty()
}

fn check(tier: Tier, seed: u64) -> i32 {
    let ctx = Ctx::new("C12", tier, seed, "exploration");
    ctx.replay_corpus(&replay);
    ctx.random("pairing", tier.pick(10_000, 150_000), &|| strategy(), &run);
    ctx.finish(
        "random scenarios: a server timeline (bind, start accepting, optional listener drop and re-bind) and 1-7 connectors on the server's own host (own address, 127.0.0.1/::1) and on two remote hosts, started at generated steps, some giving up after a generated number of steps, some aimed at a dead port or an address nobody owns; wildcard or localhost bind, v4/v6, fixed or ranged latency, hold/release or partition/repair around the handshake, random host order. Every successful connector writes its index, every accepted stream reads it. Oracle: nonce bijection (each success accepted exactly once, accepted streams without a connector only for connectors that gave up), mirrored addresses, ConnectionRefused for dead ports / unknown addresses / cut direction / localhost listeners, no connect left pending, stream counts back to 0 after all streams were dropped; for fixed latency >= 1 ms without faults an exact step-level model of the listener timeline decides accept-vs-refuse, refusal promptness and accept order = arrival order. Non-trivial = >= 2 connectors pending at once and >= 1 refusal or give-up. Distinct by scenario hash.",
        &[
            "pending requests stay far below tcp_capacity (64)",
            "events that fall in the very step of a bind / drop / re-bind, or within 2 steps of a give-up, are admitted either way (documented race)",
            "accept order is only asserted for remote connectors whose SYNs are delivered at least 2 steps apart, under fixed latency",
        ],
    )
}

fn replay(_sub: &str, v: &Value) -> Result<Outcome, String> {
    replay_as::<Scenario>(v, &run)
}

//! C12 — turmoil::net pairs every connect with exactly one accept, or refuses
//! it.  DESIGN.md §6 C12.  SimDriver; all host actions are scheduled on the
//! harness' step counter so the model can work in whole steps.

use crate::engine::{normalize, replay_as, take_last_panic, Ctx, Outcome, Tier};
use proptest::prelude::*;
use serde::{Deserialize, Serialize};
use serde_json::Value;
use std::cell::{Cell, RefCell};
use std::collections::{BTreeMap, BTreeSet};
use std::net::{IpAddr, Ipv6Addr, SocketAddr, SocketAddrV6};
use std::pin::Pin;
use std::rc::Rc;
use std::task::Poll;
use std::time::{Duration, SystemTime};
use tokio::io::{AsyncReadExt, AsyncWriteExt};
use turmoil::net::{TcpListener, TcpStream};

pub const PROP: super::Prop = super::Prop {
    id: "C12",
    level: "exploration",
    check,
    replay,
};

#[derive(Clone, Copy, Debug, Serialize, Deserialize, PartialEq, Eq)]
pub enum Target {
    /// the server's host name (from c0/c1: remote; from s: own address)
    Server,
    /// 127.0.0.1 / ::1 (only meaningful from s itself)
    Loopback,
    /// a port of the server nobody ever listens on
    DeadPort,
    /// an address no host owns
    Nowhere,
}

#[derive(Clone, Debug, Serialize, Deserialize)]
pub struct Conn {
    /// 0 = on the server host itself, 1 = c0, 2 = c1
    pub from: usize,
    pub step: u32,
    pub target: Target,
    /// give up after this many steps
    pub timeout_steps: Option<u32>,
    /// Same-host connectors only (`from == 0`): how the connect call is
    /// ordered against the server's own action (bind / start accepting /
    /// listener drop / re-bind) of the same step.  0 = free-running task (the
    /// order is whatever tokio's timer wheel yields, the model allows a step
    /// of slack), 1 = the server task issues the connect (polls the connect
    /// future once) right BEFORE its own action of that step, 2 = right AFTER.
    #[serde(default)]
    pub order: u8,
    /// IPv6 only: scope id carried by the destination `SocketAddrV6`
    /// (`fe80::1%3`).  Only applied while finding F-C12-1 is not recorded as
    /// "known" (or in the probe scenario).
    #[serde(default)]
    pub scope: u32,
}

/// One task that calls `accept()` on the (Rc-shared) first listener.
#[derive(Clone, Debug, Serialize, Deserialize)]
pub struct Acceptor {
    /// first `accept()` call this many steps after `accept_step`
    pub start_off: u32,
    /// what it does once `accept()` has returned a stream (which it hands to
    /// a reader task that holds it): `None` = busy with that connection for
    /// good, never calls accept again; `Some(0)` = calls accept again at once
    /// (an accept loop); `Some(k)` = busy for k steps, then calls accept again
    pub again: Option<u32>,
}

#[derive(Clone, Debug, Serialize, Deserialize)]
pub struct Scenario {
    pub tick_ms: u32,
    pub lat_min: u32,
    pub lat_max: u32,
    pub seed: u64,
    pub v6: bool,
    pub random_order: bool,
    pub listen_localhost: bool,
    /// server timeline in steps
    pub bind_step: u32,
    pub accept_step: u32,
    pub drop_step: Option<u32>,
    pub rebind_step: Option<u32>,
    pub conns: Vec<Conn>,
    /// (step, kind): 0 hold, 1 release, 2 partition, 3 repair  between c0 and s;
    /// any sequence: an entry (t, k) is applied from the Sim handle after step t
    /// and before step t + 1, entries with the same t in list order
    pub faults: Vec<(u32, u8)>,
    /// The tasks accepting on the first listener (shared through an Rc), each
    /// parked in `accept()` concurrently with the others.  Empty = the
    /// classic single accept loop started at `accept_step`.  Non-empty: the
    /// listener is dropped at the end of the run (after the observation
    /// window), so that requests nobody was left to accept are refused.
    #[serde(default)]
    pub acceptors: Vec<Acceptor>,
    /// set for the probe scenario of a known finding: avoid rules are off and
    /// the failure signature gets the prefix `probe:<name>:`
    #[serde(default)]
    pub probe: Option<String>,
}

/// Ids of the C12 findings recorded with status "known" in
/// known_findings.json (under VERIF_ROOT).  The avoid rule of a finding is
/// active only while it is listed as "known"; with status "fixed" (or no
/// entry) the random tier generates the triggering shape and asserts the full
/// clause.
pub fn is_known(id: &str) -> bool {
    static KNOWN: std::sync::OnceLock<Vec<String>> = std::sync::OnceLock::new();
    KNOWN
        .get_or_init(|| crate::engine::load_findings().into_iter().filter(|f| f.property == "C12" && f.status == "known").map(|f| f.id).collect())
        .iter()
        .any(|k| k == id)
}

#[derive(Clone, Debug)]
struct ConnRes {
    ok: bool,
    kind: String,
    at_step: u64,
    local: Option<SocketAddr>,
    peer: Option<SocketAddr>,
}

#[derive(Clone, Debug)]
struct Acc {
    nonce: Option<u32>,
    local: SocketAddr,
    peer: SocketAddr,
    reported_peer: SocketAddr,
    at_step: u64,
    listener_gen: u32,
    /// which acceptor task returned it
    by: usize,
}

#[derive(Default)]
struct Shared {
    step: Cell<u64>,
    results: RefCell<BTreeMap<usize, ConnRes>>,
    accepted: RefCell<Vec<Acc>>,
    errors: RefCell<Vec<String>>,
    release: Cell<bool>,
    counts: RefCell<BTreeMap<String, usize>>,
    started: RefCell<BTreeMap<usize, u64>>,
    /// every `accept()` call on a listener: (listener generation, acceptor,
    /// step of the call, step of its return if it returned)
    spans: RefCell<Vec<(u32, usize, u64, Option<u64>)>>,
    /// step in which the first listener was dropped (scenario drop step, or
    /// the end-of-run drop of a scenario with an acceptor pool)
    gen0_dropped: Cell<Option<u64>>,
}

const PORT: u16 = 9000;

/// Harness assumption: a request sent to the connector's own host (own
/// address or 127.0.0.1 / ::1) reaches that host's listener table no earlier
/// than the step after the connect call and no later than `LOCAL_K` steps
/// after it.  Nothing in the property text or the rustdoc says how long a
/// same-host message takes (or that same-host messages keep their order), so
/// no clause may depend on WHICH step of that range it is: a verdict is only
/// asserted when every admissible delivery step yields it.  The upper end is
/// needed for the promptness clauses only ("refused / accepted by step ..").
const LOCAL_K: u64 = 4;

async fn wait_step(sh: &Shared, k: u64) {
    while sh.step.get() < k {
        tokio::time::sleep(Duration::from_millis(1)).await;
    }
}

type HeldStreams = Rc<RefCell<Vec<TcpStream>>>;

/// One accepting task.  `again`: see [`Acceptor::again`] (`Some(0)` = the
/// classic accept loop).
async fn accept_loop(lis: Rc<TcpListener>, gen: u32, who: usize, again: Option<u32>, sh: Rc<Shared>, held: HeldStreams) {
    loop {
        let span = {
            let mut sp = sh.spans.borrow_mut();
            sp.push((gen, who, sh.step.get(), None));
            sp.len() - 1
        };
        match lis.accept().await {
            Ok((mut s, reported_peer)) => {
                let at = sh.step.get();
                sh.spans.borrow_mut()[span].3 = Some(at);
                let (local, peer) = (s.local_addr().unwrap(), s.peer_addr().unwrap());
                let idx = {
                    let mut a = sh.accepted.borrow_mut();
                    a.push(Acc { nonce: None, local, peer, reported_peer, at_step: at, listener_gen: gen, by: who });
                    a.len() - 1
                };
                let (sh2, held2) = (sh.clone(), held.clone());
                tokio::task::spawn_local(async move {
                    let mut b = [0u8; 4];
                    let got = tokio::select! {
                        r = s.read_exact(&mut b) => r.is_ok(),
                        _ = async { while !sh2.release.get() { tokio::time::sleep(Duration::from_millis(1)).await; } } => false,
                    };
                    if got {
                        sh2.accepted.borrow_mut()[idx].nonce = Some(u32::from_le_bytes(b));
                    }
                    if sh2.release.get() {
                        drop(s);
                    } else {
                        held2.borrow_mut().push(s);
                    }
                });
                match again {
                    None => break,
                    Some(0) => {}
                    Some(w) => wait_step(&sh, at + w as u64).await,
                }
            }
            Err(e) => {
                sh.errors.borrow_mut().push(format!("accept: {e}"));
                break;
            }
        }
    }
}

/// What the server task does, in this order within one step: connects it
/// issues itself BEFORE its own action (phase 0), its own actions (phase 1),
/// connects it issues AFTER them (phase 2).
#[derive(Clone, Debug)]
enum Act {
    Conn(usize, Conn),
    Bind,
    StartAccept(usize, Option<u32>),
    DropListener,
    Rebind,
}

/// The accepting tasks of the first listener that get to start: (index,
/// step of the first accept() call, behaviour after a return).  A task whose
/// start is not before the listener drop never starts.
fn acceptor_plan(sc: &Scenario) -> Vec<(usize, u32, Option<u32>)> {
    let acc_step = sc.accept_step.max(sc.bind_step);
    let alive = |s: u32| sc.drop_step.map(|d| s < d).unwrap_or(true);
    if sc.acceptors.is_empty() {
        return if alive(acc_step) { vec![(0, acc_step, Some(0))] } else { vec![] };
    }
    sc.acceptors.iter().enumerate().map(|(k, a)| (k, acc_step + a.start_off, a.again)).filter(|x| alive(x.1)).collect()
}

async fn server(sh: Rc<Shared>, sc: Scenario, own_conns: Vec<(usize, Conn)>) -> turmoil::Result {
    let any = match (sc.listen_localhost, sc.v6) {
        (true, false) => "127.0.0.1",
        (true, true) => "::1",
        (false, false) => "0.0.0.0",
        (false, true) => "::",
    };
    // holder for accepted streams (dropped when the harness says so)
    let held: HeldStreams = Default::default();
    let mut agenda: Vec<(u32, u8, usize, Act)> = Vec::new();
    for (i, c) in own_conns {
        match c.order {
            0 => {
                tokio::task::spawn_local(connector(sh.clone(), i, c, sc.v6));
            }
            1 => agenda.push((c.step, 0, i, Act::Conn(i, c))),
            _ => agenda.push((c.step, 2, i, Act::Conn(i, c))),
        }
    }
    agenda.push((sc.bind_step, 1, 0, Act::Bind));
    let pool = !sc.acceptors.is_empty();
    for (k, start, again) in acceptor_plan(&sc) {
        agenda.push((start, 1, 4 + k, Act::StartAccept(k, again)));
    }
    if let Some(d) = sc.drop_step {
        agenda.push((d, 1, 2, Act::DropListener));
        if let Some(r) = sc.rebind_step {
            agenda.push((r, 1, 3, Act::Rebind));
        }
    }
    agenda.sort_by_key(|x| (x.0, x.1, x.2));
    let mut lis: Option<Rc<TcpListener>> = None;
    let mut tasks: Vec<tokio::task::JoinHandle<()>> = Vec::new();
    for (step, _, _, act) in agenda {
        wait_step(&sh, step as u64).await;
        match act {
            Act::Conn(i, c) => {
                // run the connector up to its first suspension point (the
                // connect call has registered the socket and sent the SYN by
                // then) inside this task, so that its order against the
                // server's own action of this step is exactly the agenda's;
                // then let it continue as a task of its own.
                let mut fut: Pin<Box<dyn std::future::Future<Output = ()>>> = Box::pin(connector(sh.clone(), i, c, sc.v6));
                let done = std::future::poll_fn(|cx| Poll::Ready(fut.as_mut().poll(cx).is_ready())).await;
                if !done {
                    tokio::task::spawn_local(fut);
                }
            }
            Act::Bind => {
                lis = Some(Rc::new(TcpListener::bind((any, PORT)).await?));
            }
            Act::StartAccept(k, again) => {
                if let Some(l) = &lis {
                    tasks.push(tokio::task::spawn_local(accept_loop(l.clone(), 0, k, again, sh.clone(), held.clone())));
                }
            }
            Act::DropListener => {
                for task in tasks.drain(..) {
                    task.abort();
                    let _ = task.await;
                }
                sh.gen0_dropped.set(Some(sh.step.get()));
                drop(lis.take());
            }
            Act::Rebind => match TcpListener::bind((any, PORT)).await {
                Ok(l2) => {
                    tokio::task::spawn_local(accept_loop(Rc::new(l2), 1, 0, Some(0), sh.clone(), held.clone()));
                }
                Err(e) => sh.errors.borrow_mut().push(format!("re-bind after drop failed: {:?}", e.kind())),
            },
        }
    }
    while !sh.release.get() {
        tokio::time::sleep(Duration::from_millis(1)).await;
    }
    held.borrow_mut().clear();
    // an acceptor pool may leave requests queued that nobody is left to
    // accept: dropping the listener refuses them
    if pool && lis.is_some() {
        for task in tasks.drain(..) {
            task.abort();
            let _ = task.await;
        }
        sh.gen0_dropped.set(Some(sh.step.get()));
        drop(lis.take());
    }
    // report stream counts a few ticks later
    tokio::time::sleep(Duration::from_millis(sc.lat_max as u64 + 3 * sc.tick_ms as u64 + 2)).await;
    for h in ["s", "c0", "c1"] {
        sh.counts.borrow_mut().insert(h.to_string(), turmoil::established_tcp_stream_count_on(h));
    }
    // keep the listener until the host is torn down
    let _keep = lis;
    std::future::pending().await
}

async fn connector(sh: Rc<Shared>, i: usize, c: Conn, v6: bool) {
    wait_step(&sh, c.step as u64).await;
    sh.started.borrow_mut().insert(i, sh.step.get());
    let fut = async {
        if v6 && c.scope != 0 {
            // the same destinations, spelled as a SocketAddrV6 with a scope id
            let ip = match c.target {
                Target::Server | Target::DeadPort => match turmoil::lookup("s") {
                    IpAddr::V6(a) => a,
                    IpAddr::V4(_) => unreachable!("v6 simulation"),
                },
                Target::Loopback => Ipv6Addr::LOCALHOST,
                Target::Nowhere => "fe80::dead:1".parse().unwrap(),
            };
            let port = if c.target == Target::DeadPort { PORT + 1 } else { PORT };
            return TcpStream::connect(SocketAddr::V6(SocketAddrV6::new(ip, port, 0, c.scope))).await;
        }
        match c.target {
            Target::Server => TcpStream::connect(("s", PORT)).await,
            Target::Loopback => TcpStream::connect((if v6 { "::1" } else { "127.0.0.1" }, PORT)).await,
            Target::DeadPort => TcpStream::connect(("s", PORT + 1)).await,
            Target::Nowhere => TcpStream::connect((if v6 { "fe80::dead:1" } else { "192.168.222.1" }, PORT)).await,
        }
    };
    let r = match c.timeout_steps {
        None => fut.await,
        Some(w) => {
            let deadline = c.step as u64 + w as u64;
            tokio::select! {
                biased;
                r = fut => r,
                _ = wait_step(&sh, deadline) => Err(std::io::Error::new(std::io::ErrorKind::TimedOut, "gave up")),
            }
        }
    };
    let at = sh.step.get();
    match r {
        Ok(mut s) => {
            let res = ConnRes { ok: true, kind: String::new(), at_step: at, local: s.local_addr().ok(), peer: s.peer_addr().ok() };
            sh.results.borrow_mut().insert(i, res);
            let _ = s.write_all(&(i as u32).to_le_bytes()).await;
            while !sh.release.get() {
                tokio::time::sleep(Duration::from_millis(1)).await;
            }
            drop(s);
        }
        Err(e) => {
            sh.results.borrow_mut().insert(i, ConnRes { ok: false, kind: format!("{:?}", e.kind()), at_step: at, local: None, peer: None });
        }
    }
}

// ---------------------------------------------------------------- link model

/// What the documentation lets us know about one of the two link conditions.
#[derive(Clone, Copy, PartialEq, Eq, Debug)]
enum Tri {
    No,
    Yes,
    Maybe,
}

/// Fate of a connection request sent from c0 to s, as far as the property text
/// and the rustdoc of hold / release / partition / repair determine it.
#[derive(Clone, Copy, PartialEq, Eq, Debug)]
enum Fate {
    /// reaches the server host at the start of its turn in a step in lo..=hi
    Delivered { lo: u64, hi: u64 },
    /// dropped by a partition; the connector can see the refusal from step `at`
    Dropped { at: u64 },
    /// the documentation does not decide it
    Uncertain,
}

/// `ops` = (t, kind) in application order, applied after step t and before
/// step t + 1.  The request is sent during step `a`; on a healthy link it
/// stays on the link (where a hold / partition catches it) at least until
/// after step a+lo_off-1 and at most until after step a+hi_off-1, and reaches
/// the server no earlier than step a+first_off.  (A request with latency 0 is
/// off the link at once: lo_off = 0.)
///
/// Documented facts used: `partition` = "all messages sent between them are
/// dropped" (and the property text: a connect across a partitioned direction
/// is refused instead of hanging) — this holds for a request that is in
/// flight *or parked by a hold* when the partition is set; `hold` = messages
/// are held "until release is called"; `release` = "all held messages are
/// immediately delivered"; `repair` ends a partition.  Left open by the
/// documentation (=> Maybe / Uncertain): whether hold survives partition or
/// repair, whether a partition survives hold or release, whether repair lets
/// parked messages go.
fn syn_fate(ops: &[(u64, u8)], a: u64, lo_off: u64, hi_off: u64, first_off: u64) -> (Fate, &'static str) {
    #[derive(Clone, Copy)]
    enum St {
        NotSent,
        Flight(u64, u64),
        Parked,
    }
    let (mut held, mut cut) = (Tri::No, Tri::No);
    let mut st = St::NotSent;
    let mut tag: &'static str = "plain";
    // "immediately delivered" leaves open whether a released message can
    // still be caught by a hold / partition issued at the same instant
    let mut released_at: Option<u64> = None;
    let send = |held: Tri, cut: Tri, tag: &mut &'static str| -> Result<St, (Fate, &'static str)> {
        match (held, cut) {
            (Tri::No, Tri::No) => Ok(St::Flight(a + lo_off, a + hi_off)),
            (Tri::Yes, Tri::No) => {
                *tag = "sent-into-hold";
                Ok(St::Parked)
            }
            (Tri::No, Tri::Yes) => Err((Fate::Dropped { at: a }, "sent-into-partition")),
            _ => Err((Fate::Uncertain, "sent-into-undocumented-link-state")),
        }
    };
    for &(t, k) in ops {
        if t >= a {
            if let St::NotSent = st {
                st = match send(held, cut, &mut tag) {
                    Ok(s) => s,
                    Err(e) => return e,
                };
            }
            match st {
                St::Flight(lo, hi) => {
                    if t >= hi {
                        // certainly delivered before this op
                    } else if released_at == Some(t) && matches!(k % 4, 0 | 2) {
                        return (Fate::Uncertain, "hold-or-partition-at-the-instant-of-release");
                    } else if t < lo {
                        match k % 4 {
                            0 => {
                                st = St::Parked;
                                tag = "held-in-flight";
                            }
                            2 => return (Fate::Dropped { at: t + 1 }, if tag == "plain" { "partitioned-in-flight" } else { "released-then-partitioned" }),
                            _ => {}
                        }
                    } else if matches!(k % 4, 0 | 2) {
                        return (Fate::Uncertain, "hold-or-partition-while-maybe-delivered");
                    }
                }
                St::Parked => match k % 4 {
                    0 => {}
                    1 => {
                        st = St::Flight(t + 1, t + 1);
                        released_at = Some(t);
                        tag = "parked-then-released";
                    }
                    2 => return (Fate::Dropped { at: t + 1 }, "parked-then-partitioned"),
                    _ => return (Fate::Uncertain, "repair-while-parked"),
                },
                St::NotSent => unreachable!(),
            }
        }
        match k % 4 {
            0 => {
                held = Tri::Yes;
                if cut == Tri::Yes {
                    cut = Tri::Maybe;
                }
            }
            1 => {
                held = Tri::No;
                if cut == Tri::Yes {
                    cut = Tri::Maybe;
                }
            }
            2 => {
                cut = Tri::Yes;
                if held == Tri::Yes {
                    held = Tri::Maybe;
                }
            }
            _ => {
                cut = Tri::No;
                if held == Tri::Yes {
                    held = Tri::Maybe;
                }
            }
        }
    }
    if let St::NotSent = st {
        st = match send(held, cut, &mut tag) {
            Ok(s) => s,
            Err(e) => return e,
        };
    }
    match st {
        St::Flight(lo, hi) => (Fate::Delivered { lo: lo.max(a + first_off), hi }, tag),
        _ => (Fate::Uncertain, "parked-at-the-end"),
    }
}

fn norm(a: SocketAddr) -> SocketAddr {
    SocketAddr::new(a.ip(), a.port())
}

/// One simulation step; a panic inside turmoil (host code runs inside
/// `Sim::step`) becomes a failure with a location-free signature.
fn guarded_step(sim: &mut turmoil::Sim) -> Result<(), (String, String)> {
    match std::panic::catch_unwind(std::panic::AssertUnwindSafe(|| sim.step())) {
        Ok(Ok(_)) => Ok(()),
        Ok(Err(e)) => Err(("step-error".to_string(), format!("{e}"))),
        Err(_) => {
            let msg = take_last_panic().unwrap_or_else(|| "<unknown panic>".into());
            let short = msg.split(" @ ").next().unwrap_or("").to_string();
            Err((format!("panic-in-step: {}", normalize(&short)), msg))
        }
    }
}

pub fn run(sc: &Scenario) -> Outcome {
    let mut out = run_inner(sc);
    if let (Some(p), Some(f)) = (&sc.probe, out.failure.as_mut()) {
        f.signature = format!("probe:{p}:{}", f.signature);
    }
    out
}

fn run_inner(sc0: &Scenario) -> Outcome {
    let mut out = Outcome::ok();
    // hand-written / fuzzed timelines: keep bind < drop < re-bind
    let mut sc = sc0.clone();
    sc.drop_step = sc.drop_step.map(|d| d.max(sc.bind_step + 1));
    sc.rebind_step = match (sc.drop_step, sc.rebind_step) {
        (Some(d), Some(r)) => Some(r.max(d + 1)),
        _ => None,
    };
    sc.acceptors.truncate(3);
    for a in sc.acceptors.iter_mut() {
        a.start_off %= 8;
        a.again = a.again.map(|w| w % 8);
    }
    let sc = &sc;
    let tick = sc.tick_ms.max(1) as u64;
    let lat_min = sc.lat_min.min(sc.lat_max) as u64;
    let lat_max = sc.lat_max.max(sc.lat_min) as u64;
    let sh = Rc::new(Shared::default());
    let mut b = turmoil::Builder::new();
    b.tick_duration(Duration::from_millis(tick))
        .min_message_latency(Duration::from_millis(lat_min))
        .max_message_latency(Duration::from_millis(lat_max))
        .epoch(SystemTime::UNIX_EPOCH + Duration::from_secs(1))
        .rng_seed(sc.seed)
        .simulation_duration(Duration::from_secs(1_000_000));
    if sc.v6 {
        b.ip_version(turmoil::IpVersion::V6);
    }
    if sc.random_order {
        b.enable_random_order();
    }
    let mut sim = b.build();
    // F-C12-1 (a destination SocketAddrV6 with a scope id makes accept()
    // panic): avoided while recorded as "known", asserted otherwise
    let scope_on = sc.v6 && (sc.probe.is_some() || !is_known("F-C12-1"));
    let mut scope_avoided = false;
    let conns: Vec<(usize, Conn)> = sc
        .conns
        .iter()
        .cloned()
        .enumerate()
        .map(|(i, mut c)| {
            c.from %= 3;
            if c.target == Target::Loopback && c.from != 0 {
                c.target = Target::Server;
            }
            c.order = if c.from == 0 { c.order % 3 } else { 0 };
            if !sc.v6 {
                c.scope = 0;
            }
            if c.scope != 0 && !scope_on {
                c.scope = 0;
                scope_avoided = true;
            }
            (i, c)
        })
        .collect();
    if scope_avoided {
        out.exclude("F-C12-1");
    }
    {
        let (sh, sc2) = (sh.clone(), sc.clone());
        let own: Vec<(usize, Conn)> = conns.iter().filter(|(_, c)| c.from == 0).cloned().collect();
        sim.host("s", move || server(sh.clone(), sc2.clone(), own.clone()));
    }
    for h in 1..=2usize {
        let mine: Vec<(usize, Conn)> = conns.iter().filter(|(_, c)| c.from == h).cloned().collect();
        let (sh, v6) = (sh.clone(), sc.v6);
        sim.host(format!("c{}", h - 1), move || {
            let (sh, mine) = (sh.clone(), mine.clone());
            async move {
                for (i, c) in mine {
                    tokio::task::spawn_local(connector(sh.clone(), i, c, v6));
                }
                std::future::pending::<()>().await;
                Ok(())
            }
        });
    }
    let last_event = conns
        .iter()
        .map(|(_, c)| c.step + c.timeout_steps.unwrap_or(0))
        .chain([sc.bind_step, sc.accept_step, sc.drop_step.unwrap_or(0), sc.rebind_step.unwrap_or(0)])
        .chain(sc.faults.iter().map(|f| f.0))
        .max()
        .unwrap_or(0) as u64;
    // a task that pauses between its accept() calls works the queue off slowly
    let drain = sc.acceptors.iter().filter_map(|a| a.again).max().map(|w| (w as u64 + 1) * (conns.len() as u64 + 1) + sc.acceptors.iter().map(|a| a.start_off as u64).max().unwrap_or(0)).unwrap_or(0);
    let last_event = last_event + drain;
    let settle = lat_max.div_ceil(tick) + 4;
    // the link-control history exactly as applied (time order, list order within one instant)
    let mut ops: Vec<(u64, u8)> = sc.faults.iter().map(|(t, k)| (*t as u64, k % 4)).collect();
    ops.sort_by_key(|o| o.0);
    let fault_used = !ops.is_empty();
    let run_until = last_event + 2 * settle + 2;
    let mut next_op = 0usize;
    for done in 0..run_until {
        while next_op < ops.len() && ops[next_op].0 == done {
            match ops[next_op].1 {
                0 => sim.hold("c0", "s"),
                1 => sim.release("c0", "s"),
                2 => sim.partition("c0", "s"),
                _ => sim.repair("c0", "s"),
            }
            next_op += 1;
        }
        sh.step.set(done + 1);
        if let Err((sig, detail)) = guarded_step(&mut sim) {
            out.fail(sig, detail);
            return out;
        }
    }
    // leave the link healthy: end a partition, then let parked messages go
    if fault_used {
        sim.repair("c0", "s");
        sim.release("c0", "s");
        ops.push((run_until, 3));
        ops.push((run_until, 1));
    }
    let mut step_no = run_until;
    for _ in 0..(2 * settle) {
        step_no += 1;
        sh.step.set(step_no);
        if let Err((sig, detail)) = guarded_step(&mut sim) {
            out.fail(sig, detail);
            return out;
        }
    }
    // release everything and collect the stream counts
    sh.release.set(true);
    for _ in 0..(2 * settle + lat_max / tick + 6) {
        step_no += 1;
        sh.step.set(step_no);
        if let Err((sig, detail)) = guarded_step(&mut sim) {
            out.fail(sig, detail);
            return out;
        }
    }
    if !sh.errors.borrow().is_empty() {
        out.fail("unexpected-server-error", format!("{:?}", sh.errors.borrow()));
        return out;
    }

    // ---------------- oracle
    let results = sh.results.borrow();
    let accepted = sh.accepted.borrow();
    let started = sh.started.borrow();
    let exact_remote = lat_min == lat_max && lat_min >= 1 && !sc.random_order;
    let ceil_l = lat_max.div_ceil(tick);
    let lo_off = lat_min.div_ceil(tick);
    let hi_off = ceil_l.max(1);
    // fixed host order: s runs before c0 / c1, a request sent in step a is seen by s in step a + 1 at the earliest
    let first_off = if sc.random_order { 0 } else { 1 };
    let mut kinds = BTreeSet::new();
    let mut nonce_seen: BTreeMap<u32, usize> = BTreeMap::new();
    let mut phantom = 0usize;
    for (k, a) in accepted.iter().enumerate() {
        match a.nonce {
            Some(nn) => {
                if nonce_seen.insert(nn, k).is_some() {
                    out.fail("one-connect-accepted-twice", format!("nonce {nn} on two accepted streams: {accepted:?}"));
                    return out;
                }
            }
            None => phantom += 1,
        }
        if a.reported_peer != a.peer {
            out.fail("accept-returned-address-differs-from-stream-peer-addr", format!("{a:?}"));
            return out;
        }
    }
    // fate of every remote request on its link (only c0 <-> s has a history)
    let no_ops: Vec<(u64, u8)> = Vec::new();
    let mut fates: BTreeMap<usize, (Fate, &'static str)> = BTreeMap::new();
    for (i, c) in &conns {
        if c.from != 0 && matches!(c.target, Target::Server | Target::DeadPort) {
            if let Some(a) = started.get(i) {
                let f = syn_fate(if c.from == 1 { &ops } else { &no_ops }, *a, lo_off, hi_off, first_off);
                if c.from == 1 && fault_used {
                    out.label(format!("syn:{}", f.1));
                }
                fates.insert(*i, f);
            }
        }
    }
    let cancelled: Vec<usize> = conns.iter().filter(|(i, _)| results.get(i).map(|r| r.kind == "TimedOut").unwrap_or(false)).map(|(i, _)| *i).collect();
    let mut paired_phantoms = 0usize;
    let mut paired_by_addr: BTreeSet<usize> = BTreeSet::new();
    // successful connector -> index of its accepted stream
    let mut pair_of: BTreeMap<usize, usize> = BTreeMap::new();
    for (i, c) in &conns {
        let Some(r) = results.get(i) else {
            // never returned
            out.fail(
                "connect-never-returned",
                format!("connector {i} {c:?} started at step {:?} still pending after {step_no} steps (link history {ops:?}, healthy at the end; fate {:?})", started.get(i), fates.get(i)),
            );
            return out;
        };
        kinds.insert(if r.ok { "ok".to_string() } else { r.kind.clone() });
        let give_up = c.timeout_steps.map(|w| started[i] + w as u64);
        if r.ok {
            let by_nonce = nonce_seen.get(&(*i as u32)).copied();
            // under a hold/partition the nonce itself may be lost or delayed: pair by address then
            let by_addr = if fault_used {
                accepted.iter().enumerate().position(|(k, a)| a.nonce.is_none() && Some(norm(a.peer)) == r.local.map(norm) && !paired_by_addr.contains(&k))
            } else {
                None
            };
            let Some(k) = by_nonce.or(by_addr) else {
                out.fail("successful-connect-was-never-accepted", format!("connector {i} {c:?} -> {r:?}; accepted {accepted:?}"));
                return out;
            };
            if by_nonce.is_none() {
                paired_phantoms += 1;
                paired_by_addr.insert(k);
            }
            pair_of.insert(*i, k);
            let a = &accepted[k];
            // scope id / flowinfo are not part of the mirrored (ip, port) pair
            if Some(norm(a.peer)) != r.local.map(norm) {
                out.fail("accepted-peer-addr-differs-from-connector-local-addr", format!("connector {i}: {r:?}; accepted {a:?}"));
                return out;
            }
            if Some(norm(a.local)) != r.peer.map(norm) {
                out.fail("accepted-local-addr-differs-from-connector-peer-addr", format!("connector {i}: {r:?}; accepted {a:?}"));
                return out;
            }
            if c.target == Target::Loopback && !a.local.ip().is_loopback() {
                out.fail("loopback-connection-lost-loopback-address", format!("{a:?}"));
                return out;
            }
            if matches!(c.target, Target::DeadPort | Target::Nowhere) {
                out.fail("connect-without-listener-succeeded", format!("connector {i} {c:?}"));
                return out;
            }
            if sc.listen_localhost && c.from != 0 {
                out.fail("remote-connect-reached-localhost-listener", format!("connector {i} {c:?}"));
                return out;
            }
            if sc.listen_localhost && c.from == 0 && c.target == Target::Server && !sc.v6 {
                // own public address does not match a 127.0.0.1 bind
                out.fail("public-address-connect-reached-localhost-listener", format!("connector {i} {c:?}"));
                return out;
            }
        } else {
            if r.kind != "ConnectionRefused" && r.kind != "TimedOut" {
                out.fail("failed-connect-wrong-error-kind", format!("connector {i} {c:?}: {}", r.kind));
                return out;
            }
            if nonce_seen.contains_key(&(*i as u32)) {
                out.fail("failed-connect-was-accepted-with-data", format!("connector {i}"));
                return out;
            }
        }
        // nobody listens there: refused as soon as the request arrives (or at once)
        if matches!(c.target, Target::DeadPort | Target::Nowhere) {
            let st = started[i];
            let due: Option<u64> = match (c.target, c.from) {
                (Target::Nowhere, _) => Some(st),
                // same-host: delivered somewhere in st+1 ..= st+LOCAL_K
                (_, 0) => Some(st + LOCAL_K),
                _ => match fates.get(i).map(|f| f.0) {
                    Some(Fate::Delivered { hi, .. }) => Some(hi),
                    Some(Fate::Dropped { at }) => Some(at),
                    _ => None,
                },
            };
            if let Some(due) = due {
                if r.kind == "TimedOut" && give_up.map(|g| g > due + 3).unwrap_or(false) {
                    out.fail("connect-without-listener-not-refused", format!("connector {i} {c:?}: {r:?} (refusal due by step {due})"));
                    return out;
                }
                if r.kind == "ConnectionRefused" && r.at_step > due + 2 {
                    out.fail("refusal-too-late", format!("connector {i} {c:?} started {st} refused at {} (due by step {due})", r.at_step));
                    return out;
                }
            }
        }
        // the link history decides what may happen to a request from c0 / c1
        if let Some((fate, how)) = fates.get(i) {
            let st = started[i];
            match *fate {
                Fate::Dropped { at } => {
                    if r.ok {
                        out.fail(
                            "connect-across-partition-succeeded",
                            format!("connector {i} {c:?} started at step {st}: its request was {how} (dropped by step {at}), link history {ops:?}; result {r:?}"),
                        );
                        return out;
                    }
                    if r.kind == "TimedOut" && give_up.map(|g| g > at + 2).unwrap_or(false) {
                        out.fail(
                            "connect-pending-across-partition-instead-of-refused",
                            format!("connector {i} {c:?} started at step {st}: its request was {how} (dropped by step {at}), link history {ops:?}; still pending when it gave up at step {give_up:?}"),
                        );
                        return out;
                    }
                    if r.kind == "ConnectionRefused" && r.at_step > at + 2 {
                        out.fail("refusal-too-late", format!("connector {i} {c:?} started {st}: request {how} by step {at}, refused only at step {} (link history {ops:?})", r.at_step));
                        return out;
                    }
                }
                Fate::Delivered { lo, .. } => {
                    if r.ok && r.at_step < lo {
                        out.fail(
                            "connect-completed-before-its-request-could-arrive",
                            format!("connector {i} {c:?} started at step {st}: request ({how}) cannot reach the server before step {lo}, connect returned Ok in step {} (link history {ops:?})", r.at_step),
                        );
                        return out;
                    }
                    if r.kind == "ConnectionRefused" && r.at_step < lo {
                        out.fail(
                            "connect-refused-before-its-request-could-arrive",
                            format!("connector {i} {c:?} started at step {st}: request ({how}) cannot reach the server before step {lo} and no partition dropped it, refused in step {} (link history {ops:?})", r.at_step),
                        );
                        return out;
                    }
                }
                Fate::Uncertain => {}
            }
        }
    }

    // ---------------- admissible delivery steps (lo ..= hi) of a request at
    // the server host.  Remote: the range the link history yields.  Same
    // host: the step after the connect call ..= LOCAL_K steps after it; the
    // upper end is tightened by observation - a request was delivered no
    // later than the step in which it was accepted (the connect returned Ok)
    // or in which the connect was refused (a refusal is the answer to the
    // delivered request: nobody bound, or the listener dropped with the
    // request queued).  A connector that gave up tells nothing.
    let arrival = |i: &usize, c: &Conn| -> Option<(u64, u64)> {
        let a = *started.get(i)?;
        if c.from == 0 {
            let lo = a + 1;
            let mut hi = a + LOCAL_K;
            if let Some(r) = results.get(i) {
                let seen = match pair_of.get(i) {
                    Some(k) => Some(accepted[*k].at_step.min(r.at_step)),
                    None if r.ok || r.kind == "ConnectionRefused" => Some(r.at_step),
                    None => None,
                };
                if let Some(t) = seen {
                    hi = hi.min(t).max(lo);
                }
            }
            Some((lo, hi))
        } else {
            match fates.get(i).map(|f| f.0) {
                Some(Fate::Delivered { lo, hi }) => Some((lo, hi.max(lo))),
                _ => None,
            }
        }
    };

    // ---------------- no request waits in the queue while a task is parked
    // in accept().  accept() takes the oldest live request or parks; a
    // delivered request wakes a parked acceptor in the same step.  So a
    // request that has certainly been delivered (by step j) and is neither
    // accepted, refused nor given up on through the end of step X cannot
    // coexist with an accept() call that was made by step p and has not
    // returned through the end of step X, for X = max(j, p) + 1 (one step of
    // slack).  Holds for any number of tasks sharing the listener, whatever
    // each does between its accept() calls.
    {
        let spans = sh.spans.borrow();
        let end_of_gen0 = sh.gen0_dropped.get().unwrap_or(step_no);
        for (i, c) in &conns {
            if !matches!(c.target, Target::Server | Target::Loopback) {
                continue;
            }
            let (Some(a), Some(r)) = (started.get(i), results.get(i)) else { continue };
            // latest step in which the request reaches the server: the END
            // of its admissible range (same-host: how long the delivery
            // takes within the range is not asserted)
            let j_hi = if c.from == 0 {
                *a + LOCAL_K
            } else {
                match fates.get(i).map(|f| f.0) {
                    Some(Fate::Delivered { hi, .. }) => hi,
                    _ => continue,
                }
            };
            // first step in which the request is certainly no longer waiting
            let t_end = match pair_of.get(i) {
                Some(k) => accepted[*k].at_step,
                None => r.at_step,
            };
            for &(gen, who, p, q) in spans.iter() {
                let q_eff = q.unwrap_or(if gen == 0 { end_of_gen0 } else { step_no });
                let m = j_hi.max(p);
                if t_end.min(q_eff) >= m + 2 {
                    out.fail(
                        "connect-left-waiting-while-a-task-is-parked-in-accept",
                        format!(
                            "connector {i} {c:?}: connect called in step {a}, request delivered by step {j_hi}, still waiting through step {} ({}); acceptor {who} of listener #{gen} called accept() in step {p} and was parked in it until step {q:?} (listener dropped / run ended at step {q_eff}); acceptors {:?}; all accept() calls (listener, acceptor, called, returned) {:?}; accepted {accepted:?}",
                            t_end.min(q_eff) - 1,
                            if r.ok { format!("accepted in step {t_end}") } else { format!("{} in step {}", r.kind, r.at_step) },
                            sc.acceptors,
                            *spans
                        ),
                    );
                    return out;
                }
            }
        }
    }

    if phantom > cancelled.len() + paired_phantoms {
        out.fail(
            "accepted-stream-without-a-successful-connector",
            format!("{phantom} accepted streams never carried a nonce; {} connectors gave up, {paired_phantoms} were paired by address under a fault; accepted {accepted:?}", cancelled.len()),
        );
        return out;
    }

    // ---------------- step model of the listener timeline.  Remote
    // requests: fixed latency >= 1 ms, fixed host order, delivery step known
    // from the link history.  Same-host requests: always (they never touch a
    // link), but their delivery step is only known as a range (see
    // `arrival`): the verdict of every admissible delivery step is computed
    // and one is asserted only when they all agree.
    {
        let b_ = sc.bind_step as u64;
        let d_ = sc.drop_step.map(|d| d as u64);
        // a listener dropped before its accept step never accepts
        // With one accept loop a queued request is taken in step max(j, s).
        // With a pool of accepting tasks it is taken no earlier than
        // max(j, s_lo), s_lo = the first accept() call of any task, and no
        // later than max(j, s_) where s_ = the start of the first task that
        // loops without a pause (it drains the queue), or the start of the
        // last task when there are at least as many tasks as requests that
        // can ever reach the listener (every task takes at least one live
        // request); otherwise it may wait until the listener goes away.
        const NEVER: u64 = u64::MAX / 2;
        let plan = acceptor_plan(sc);
        let n_req = conns.iter().filter(|(_, c)| matches!(c.target, Target::Server | Target::Loopback)).count();
        let s_lo = plan.iter().map(|x| x.1 as u64).min().unwrap_or(NEVER);
        let s_ = plan
            .iter()
            .filter(|x| x.2 == Some(0))
            .map(|x| x.1 as u64)
            .chain(if !plan.is_empty() && n_req <= plan.len() { plan.iter().map(|x| x.1 as u64).max() } else { None })
            .min()
            .unwrap_or(NEVER);
        let r_ = sc.rebind_step.map(|r| r as u64);
        // listener state as of the delivery
        #[derive(PartialEq, Clone, Copy, Debug)]
        enum Exp {
            Refused,
            Accepted,
            Either,
        }
        // (first admissible delivery step, last admissible delivery step, connector)
        let mut expected_order: Vec<(u64, u64, usize)> = Vec::new();
        let mut local_checked = false;
        for (i, c) in &conns {
            if !matches!(c.target, Target::Server | Target::Loopback | Target::DeadPort) {
                continue;
            }
            let a = started[i];
            let local = c.from == 0;
            // sequenced by the server task: the order against the server's
            // own action of the same step is exact
            let seq = local && c.order != 0;
            // admissible delivery steps of the SYN at the server
            let (j_lo, j_hi) = if local {
                match arrival(i, c) {
                    Some(x) => x,
                    None => continue,
                }
            } else {
                if !exact_remote {
                    continue;
                }
                match arrival(i, c) {
                    Some((lo, hi)) if lo == hi => (lo, hi),
                    _ => continue,
                }
            };
            if local {
                local_checked = true;
            }
            // does the bind address match?
            let addr_ok = if c.target == Target::DeadPort {
                false
            } else if !sc.listen_localhost {
                true
            } else {
                local && c.target == Target::Loopback
            };
            // The verdict if the request is delivered in step j.  A remote
            // request is handed over at the start of the server's turn,
            // before any server code of that step; a same-host request is
            // handed over by a task during step j, unordered against the
            // server's own action of step j (sequenced connectors) or within
            // a step of it (free-running connectors).
            let verdict = |j: u64| -> Exp {
                let near = |x: u64| if seq { j == x } else { j + 1 >= x && j <= x + 1 };
                let within_first = j > b_ && d_.map(|d| j <= d).unwrap_or(true);
                let within_second = match (d_, r_) {
                    (Some(_), Some(r)) => j > r,
                    _ => false,
                };
                let exp = if !addr_ok {
                    Exp::Refused
                } else if within_first {
                    // queued; accepted in max(j, s_lo) ..= max(j, s_) unless the listener is dropped first
                    let acc_at = j.max(s_);
                    match d_ {
                        Some(d) if j.max(s_lo) > d => Exp::Refused,
                        Some(d) if acc_at + 1 >= d => Exp::Either,
                        None if acc_at >= NEVER => Exp::Either,
                        _ => Exp::Accepted,
                    }
                } else if within_second {
                    Exp::Accepted
                } else {
                    // boundary steps (delivery in the very step of bind / re-bind) can go either way
                    let near_remote = |x: u64| j + 1 >= x && j <= x + 1;
                    if !local && (near_remote(b_) || r_.map(near_remote).unwrap_or(false)) {
                        Exp::Either
                    } else {
                        Exp::Refused
                    }
                };
                if local && addr_ok && exp != Exp::Either && (near(b_) || d_.map(near).unwrap_or(false) || r_.map(near).unwrap_or(false)) {
                    Exp::Either
                } else {
                    exp
                }
            };
            // asserted only when every admissible delivery step agrees
            let mut exp = verdict(j_lo);
            for j in j_lo + 1..=j_hi {
                if verdict(j) != exp {
                    exp = Exp::Either;
                    break;
                }
            }
            if local {
                out.label(match exp {
                    Exp::Accepted => "same-host:every-admissible-delivery-step:accepted",
                    Exp::Refused => "same-host:every-admissible-delivery-step:refused",
                    Exp::Either => "same-host:delivery-steps-disagree-or-race",
                });
            }
            // a connector that gives up
            let r = &results[i];
            // refusal due: the latest admissible delivery, or the drop of the
            // listener it may have been queued at, + 2 steps
            let by = (j_lo..=j_hi).map(|j| d_.filter(|d| j <= *d).map(|d| d.max(j)).unwrap_or(j)).max().unwrap_or(j_hi) + 2;
            if let Some(w) = c.timeout_steps {
                let give_up = a + w as u64;
                let acc_at = j_hi.max(s_);
                if exp == Exp::Accepted && give_up <= acc_at + 2 {
                    exp = Exp::Either;
                }
                if r.kind == "TimedOut" {
                    if exp == Exp::Accepted {
                        out.fail("connect-still-pending-although-accepting-listener", format!("connector {i} {c:?}: gave up at step {give_up}, SYN delivered in steps {j_lo}..={j_hi}, accepting since {s_}"));
                        return out;
                    }
                    if exp == Exp::Refused && give_up > by + 1 {
                        out.fail(
                            "connect-still-pending-although-nobody-can-accept-it",
                            format!("connector {i} {c:?}: gave up at step {give_up}; SYN delivered in steps {j_lo}..={j_hi}, refusal due by step {by} (bind {b_} accept {s_} drop {d_:?} rebind {r_:?})"),
                        );
                        return out;
                    }
                    continue;
                }
            }
            match exp {
                Exp::Accepted => {
                    if !r.ok {
                        out.fail(
                            "connect-refused-although-listener-accepting",
                            format!(
                                "connector {i} {c:?} (connect called in step {a}, order {} against the server's own action of that step; SYN delivered in steps {j_lo}..={j_hi}, a bound listener with an accepting task in every one of them; bind {b_} accept {s_} drop {d_:?} rebind {r_:?}): {r:?}",
                                c.order
                            ),
                        );
                        return out;
                    }
                    expected_order.push((j_lo, j_hi, *i));
                }
                Exp::Refused => {
                    if r.ok {
                        out.fail(
                            "connect-succeeded-without-live-listener",
                            format!("connector {i} {c:?} (SYN sent step {a}, delivered in steps {j_lo}..={j_hi}, no matching listener in any of them; bind {b_} accept {s_} drop {d_:?} rebind {r_:?})"),
                        );
                        return out;
                    }
                    // promptness: refused no later than the drop / the delivery + 2 steps
                    if r.kind == "ConnectionRefused" && r.at_step > by {
                        out.fail("refusal-too-late", format!("connector {i}: SYN delivered in steps {j_lo}..={j_hi}, refused at step {} (expected by {by})", r.at_step));
                        return out;
                    }
                }
                Exp::Either => {
                    if r.ok {
                        expected_order.push((j_lo, j_hi, *i));
                    }
                }
            }
            if seq {
                let same_step_as = |x: u64| a == x;
                if same_step_as(b_) || r_.map(same_step_as).unwrap_or(false) {
                    out.label(if c.order == 1 { "same-host:connect-just-before-bind" } else { "same-host:connect-just-after-bind" });
                }
                if d_.map(same_step_as).unwrap_or(false) {
                    out.label(if c.order == 1 { "same-host:connect-just-before-listener-drop" } else { "same-host:connect-just-after-listener-drop" });
                }
            }
        }
        // accept order = arrival order, asserted only when the admissible
        // delivery ranges are disjoint with a step between them (same-host
        // requests may overtake each other within their ranges)
        let pos: BTreeMap<u32, usize> = accepted.iter().enumerate().filter_map(|(k, a)| a.nonce.map(|n| (n, k))).collect();
        for x in &expected_order {
            for y in &expected_order {
                if x.1 + 1 < y.0 {
                    if let (Some(px), Some(py)) = (pos.get(&(x.2 as u32)), pos.get(&(y.2 as u32))) {
                        if accepted[*px].listener_gen == accepted[*py].listener_gen && px > py {
                            out.fail(
                                "accept-order-differs-from-arrival-order",
                                format!("connector {} (SYN delivered in steps {}..={}) accepted after connector {} (delivered in steps {}..={}); accepted {accepted:?}", x.2, x.0, x.1, y.2, y.0, y.1),
                            );
                            return out;
                        }
                        if conns[x.2].1.from == 0 || conns[y.2].1.from == 0 {
                            out.label("accept-order:checked-with-same-host-request");
                        }
                    }
                }
            }
        }
        if exact_remote {
            out.label(if fault_used { "exact-model:with-link-history" } else { "exact-model" });
        }
        if local_checked {
            out.label("exact-model:same-host");
        }
    }

    // ---------------- stream counts back to baseline
    let counts = sh.counts.borrow();
    if counts.len() == 3 {
        for (h, n) in counts.iter() {
            if *n != 0 {
                out.fail("stream-still-counted-after-both-ends-dropped", format!("host {h}: established_tcp_stream_count_on = {n} after every stream was dropped; results {results:?}"));
                return out;
            }
        }
    } else {
        out.fail("harness-counts-missing", format!("{counts:?}"));
        return out;
    }

    if !sc.acceptors.is_empty() {
        let spans = sh.spans.borrow();
        let end_of_gen0 = sh.gen0_dropped.get().unwrap_or(step_no);
        out.label(format!("pool:{}-acceptors", sc.acceptors.len()));
        for a in &sc.acceptors {
            out.label(match a.again {
                None => "pool:has-accept-once-then-busy",
                Some(0) => "pool:has-accept-loop",
                Some(_) => "pool:has-accept-pause-accept",
            });
        }
        // requests reaching the server in one and the same step while
        // several tasks are parked in accept()
        let mut arrivals: BTreeMap<u64, (usize, BTreeSet<usize>)> = BTreeMap::new();
        for (i, c) in &conns {
            if !matches!(c.target, Target::Server | Target::Loopback) {
                continue;
            }
            // (labels only: nominal delivery step of a same-host request)
            let j = if c.from == 0 {
                started.get(i).map(|a| a + 1)
            } else {
                match fates.get(i).map(|f| f.0) {
                    Some(Fate::Delivered { lo, hi }) if lo == hi => Some(lo),
                    _ => None,
                }
            };
            if let Some(j) = j {
                let e = arrivals.entry(j).or_default();
                e.0 += 1;
                e.1.insert(c.from);
            }
        }
        let (mut burst, mut burst_multi_host, mut more, mut fewer) = (false, false, false, false);
        for (j, (n, hosts)) in &arrivals {
            let parked = spans.iter().filter(|x| x.0 == 0 && x.2 < *j && x.3.unwrap_or(end_of_gen0) >= *j).count();
            if *n >= 2 && parked >= 2 {
                burst = true;
                burst_multi_host |= hosts.len() >= 2;
                more |= *n > parked;
                fewer |= *n < parked;
            }
        }
        if burst {
            out.label("pool:same-step-arrivals-onto-several-parked-acceptors");
            out.label(if burst_multi_host { "pool:same-step-arrivals:from-several-hosts" } else { "pool:same-step-arrivals:from-one-host" });
        }
        if more {
            out.label("pool:same-step-arrivals:more-than-parked-acceptors");
        }
        if fewer {
            out.label("pool:same-step-arrivals:fewer-than-parked-acceptors");
        }
        if sh.gen0_dropped.get().is_some() && sc.drop_step.is_none() && results.values().any(|r| r.kind == "ConnectionRefused" && Some(r.at_step) >= sh.gen0_dropped.get()) {
            out.label("pool:request-outlived-every-acceptor");
        }
        if accepted.iter().filter(|a| a.listener_gen == 0).map(|a| a.by).collect::<BTreeSet<_>>().len() >= 2 {
            out.label("pool:streams-accepted-by-several-tasks");
        }
    }
    if sc.drop_step.is_some() {
        out.label("listener-drop");
    }
    if sc.rebind_step.is_some() {
        out.label("rebind");
    }
    if !cancelled.is_empty() {
        out.label("connector-gave-up");
    }
    if fault_used {
        out.label("hold-or-partition");
        out.label(format!("link-history:{}-ops", sc.faults.len().min(4)));
    }
    if sc.listen_localhost {
        out.label("localhost-bind");
    }
    if conns.iter().any(|(_, c)| c.from == 0) {
        out.label("same-host-connector");
    }
    if conns.iter().any(|(_, c)| c.from == 0 && c.order != 0) {
        out.label("same-host:sequenced");
    }
    if conns.iter().any(|(_, c)| c.scope != 0) {
        out.label("v6-scope-id");
    }
    if sc.v6 {
        out.label("v6");
    }
    if lat_min != lat_max {
        out.label("ranged-latency");
    }
    for k in &kinds {
        out.label(format!("result:{k}"));
    }
    out.count("connects", conns.len() as u64);
    out.count("accepted streams", accepted.len() as u64);
    // non-trivial: >= 2 connectors pending at once and >= 1 refusal or cancellation
    let mut overlap = false;
    for (i, _) in &conns {
        for (j2, _) in &conns {
            if i < j2 {
                if let (Some(ri), Some(rj)) = (results.get(i), results.get(j2)) {
                    let (si, sj) = (started[i], started[j2]);
                    if si <= rj.at_step && sj <= ri.at_step {
                        overlap = true;
                    }
                }
            }
        }
    }
    out.nontrivial = overlap && (kinds.contains("ConnectionRefused") || kinds.contains("TimedOut"));
    out
}

fn conn_strategy() -> impl Strategy<Value = (Conn, u8)> {
    (
        0usize..3,
        1u32..36,
        prop_oneof![8 => Just(Target::Server), 3 => Just(Target::Loopback), 1 => Just(Target::DeadPort), 1 => Just(Target::Nowhere)],
        prop_oneof![3 => Just(None), 1 => (0u32..14).prop_map(Some)],
        prop_oneof![1 => Just(0u8), 2 => Just(1u8), 2 => Just(2u8)],
        0u8..8,
        prop_oneof![7 => Just(0u32), 1 => 1u32..5],
    )
        .prop_map(|(from, step, target, timeout_steps, order, snap, scope)| (Conn { from, step, target, timeout_steps, order, scope }, snap))
}

pub fn strategy() -> BoxedStrategy<Scenario> {
    let lat = prop_oneof![
        3 => (1u32..=8).prop_map(|v| (v, v)),
        2 => (0u32..=4, 1u32..=12).prop_map(|(a, d)| (a, a + d)),
    ];
    // link-control histories: (anchored, [(time or offset, kind)])
    let faults = prop_oneof![
        8 => Just((false, Vec::<(i32, u8)>::new())),
        1 => (2i32..30, 1i32..10).prop_map(|(a, d)| (false, vec![(a, 0u8), (a + d, 1u8)])),
        1 => (2i32..30, 1i32..10).prop_map(|(a, d)| (false, vec![(a, 2u8), (a + d, 3u8)])),
        // 1-4 hold / release / partition / repair calls in any order, placed
        // around the start of the first connector (which is then on c0)
        5 => proptest::collection::vec((-4i32..=10, 0u8..4), 1..=4).prop_map(|v| (true, v)),
        // the request is parked by a hold set shortly before the connect (or
        // caught in flight by one set right after it), then 1-3 more calls
        3 => (-3i32..=0, proptest::collection::vec((0i32..=8, 0u8..4), 1..=3)).prop_map(|(h, mut v)| {
            v.insert(0, (h, 0u8));
            (true, v)
        }),
    ];
    // who accepts on the first listener: the classic single loop, or 1-3
    // tasks sharing it, each accepting once / again after a pause / in a
    // loop; then often a burst of 2-5 connects from one or several hosts
    let acceptor = (prop_oneof![3 => Just(0u32), 1 => 0u32..4], prop_oneof![5 => Just(None), 2 => Just(Some(0u32)), 3 => (1u32..8).prop_map(Some)]).prop_map(|(start_off, again)| Acceptor { start_off, again });
    let burst_from = prop_oneof![
        2 => proptest::collection::vec(Just(1usize), 2..=5),
        2 => proptest::collection::vec(1usize..3, 2..=5),
        1 => proptest::collection::vec(0usize..3, 2..=5),
    ];
    let pool = prop_oneof![
        5 => Just((Vec::<Acceptor>::new(), true, None)),
        4 => (
            proptest::collection::vec(acceptor, 1..=3),
            any::<bool>(),
            prop_oneof![1 => Just(None), 4 => (0u32..12, prop_oneof![4 => Just(false), 1 => Just(true)], burst_from).prop_map(Some)],
        ),
    ];
    (
        (1u32..=3, lat, any::<u64>(), any::<bool>(), prop_oneof![4 => Just(false), 1 => Just(true)], prop_oneof![4 => Just(false), 1 => Just(true)]),
        (1u32..12, 0u32..14, prop_oneof![1 => Just(None), 1 => (4u32..30).prop_map(Some)], prop_oneof![1 => Just(None), 1 => (1u32..12).prop_map(Some)]),
        proptest::collection::vec(conn_strategy(), 1..8),
        faults,
        pool,
    )
        .prop_map(|((tick_ms, (lat_min, lat_max), seed, v6, random_order, listen_localhost), (bind_step, acc_off, drop_off, rebind_off), conns, (anchored, fl), (acceptors, keep_drop, burst))| {
            let accept_step = bind_step + acc_off;
            let drop_off = if acceptors.is_empty() || keep_drop { drop_off } else { None };
            let drop_step = drop_off.map(|d| bind_step + d);
            let rebind_step = match (drop_step, rebind_off) {
                (Some(d), Some(r)) => Some(d + r),
                _ => None,
            };
            let mut conns: Vec<Conn> = conns
                .into_iter()
                .map(|(mut c, snap)| {
                    // same-host connectors: often in the very step of a server action
                    if c.from == 0 {
                        match snap {
                            4 => c.step = bind_step,
                            5 => c.step = rebind_step.unwrap_or(bind_step),
                            6 => c.step = drop_step.unwrap_or(bind_step),
                            7 => c.step = bind_step.saturating_sub(1).max(1),
                            _ => {}
                        }
                    }
                    c
                })
                .collect();
            // a burst of connects called in one step (or in consecutive
            // steps) by connectors on the given hosts
            if let (false, Some((after, spread, froms))) = (acceptors.is_empty(), burst) {
                let at = accept_step + after;
                for (n, from) in froms.into_iter().enumerate() {
                    let c = Conn { from, step: at + if spread { n as u32 } else { 0 }, target: if from == 0 && n % 2 == 1 { Target::Loopback } else { Target::Server }, timeout_steps: None, order: 0, scope: 0 };
                    if n < conns.len() {
                        conns[n] = c;
                    } else if conns.len() < 7 {
                        conns.push(c);
                    }
                }
            }
            let faults: Vec<(u32, u8)> = if anchored {
                conns[0].from = 1;
                if conns[0].target != Target::DeadPort {
                    conns[0].target = Target::Server;
                }
                let a = conns[0].step as i32;
                let mut f: Vec<(u32, u8)> = fl.into_iter().map(|(off, k)| ((a + off).max(0) as u32, k)).collect();
                f.sort_by_key(|x| x.0);
                f
            } else {
                fl.into_iter().map(|(t, k)| (t as u32, k)).collect()
            };
            Scenario { tick_ms, lat_min, lat_max, seed, v6, random_order, listen_localhost, bind_step, accept_step, drop_step, rebind_step, conns, faults, acceptors, probe: None }
        })
        .boxed()
}

fn base_scenario() -> Scenario {
    Scenario {
        tick_ms: 1,
        lat_min: 3,
        lat_max: 3,
        seed: 1,
        v6: false,
        random_order: false,
        listen_localhost: false,
        bind_step: 1,
        accept_step: 1,
        drop_step: None,
        rebind_step: None,
        conns: vec![],
        faults: vec![],
        acceptors: vec![],
        probe: None,
    }
}

/// Every link-control history of 1..=3 calls (hold / release / partition /
/// repair) placed before the connect, while the request is on the link, and
/// after it was due, around one connector on c0 (with and without a give-up
/// deadline) and a second connector that starts after the history.
fn link_history_space() -> Vec<Scenario> {
    // connector at step 6, fixed latency 3 ticks: on the link during t = 6, 7, 8
    let slots: [u32; 4] = [3, 6, 7, 10];
    let mut v = Vec::new();
    for n in 1..=3usize {
        let mut idx = vec![0usize; n];
        'kinds: loop {
            // idx = kinds in base 4
            let kinds: Vec<u8> = idx.iter().map(|k| *k as u8).collect();
            // non-decreasing slot choices
            let mut sl = vec![0usize; n];
            'slots: loop {
                if sl.windows(2).all(|w| w[0] <= w[1]) {
                    for timeout in [None, Some(12u32)] {
                        let mut sc = base_scenario();
                        sc.faults = kinds.iter().zip(sl.iter()).map(|(k, s)| (slots[*s], *k)).collect();
                        sc.conns = vec![
                            Conn { from: 1, step: 6, target: Target::Server, timeout_steps: timeout, order: 0, scope: 0 },
                            Conn { from: 1, step: 14, target: Target::Server, timeout_steps: None, order: 0, scope: 0 },
                            Conn { from: 2, step: 6, target: Target::Server, timeout_steps: None, order: 0, scope: 0 },
                        ];
                        v.push(sc);
                    }
                }
                let mut p = 0;
                loop {
                    if p == n {
                        break 'slots;
                    }
                    sl[p] += 1;
                    if sl[p] < slots.len() {
                        break;
                    }
                    sl[p] = 0;
                    p += 1;
                }
            }
            let mut p = 0;
            loop {
                if p == n {
                    break 'kinds;
                }
                idx[p] += 1;
                if idx[p] < 4 {
                    break;
                }
                idx[p] = 0;
                p += 1;
            }
        }
    }
    v
}

/// Same-host connect against bind / re-bind / listener drop: every target
/// (loopback, own address), bind address (wildcard, localhost), IP version,
/// tick, position of the connect call relative to the server's action (two
/// steps before .. two steps after, and within the same step just before /
/// just after it).
fn bind_order_space() -> Vec<Scenario> {
    let mut v = Vec::new();
    for v6 in [false, true] {
        for listen_localhost in [false, true] {
            for target in [Target::Loopback, Target::Server] {
                for tick_ms in [1u32, 3] {
                    // which server action the connect is placed against: 0 bind, 1 re-bind, 2 drop
                    for against in 0..3u8 {
                        for off in -2i32..=2 {
                            for order in [1u8, 2] {
                                for timeout in [None, Some(6u32)] {
                                    let mut sc = base_scenario();
                                    sc.v6 = v6;
                                    sc.listen_localhost = listen_localhost;
                                    sc.tick_ms = tick_ms;
                                    sc.bind_step = 5;
                                    sc.accept_step = 5;
                                    if against > 0 {
                                        sc.drop_step = Some(12);
                                        sc.rebind_step = Some(16);
                                    }
                                    let at = match against {
                                        0 => 5,
                                        1 => 16,
                                        _ => 12,
                                    };
                                    sc.conns = vec![Conn { from: 0, step: (at + off) as u32, target, timeout_steps: timeout, order, scope: 0 }];
                                    v.push(sc);
                                }
                            }
                        }
                    }
                }
            }
        }
    }
    v
}

/// Several tasks sharing one listener: every pool of 1..=3 accepting tasks
/// (each accepting once and staying busy / again after a pause / in a loop),
/// 1..=4 connects called in one step or in consecutive steps, from one remote
/// host, from two remote hosts alternately (equal latency: their requests
/// arrive in the same step) or from the listener's own host, with the tasks
/// parked in accept() before the requests arrive or calling it afterwards.
fn acceptor_pool_space() -> Vec<Scenario> {
    let modes: [Option<u32>; 3] = [None, Some(0), Some(3)];
    let mut v = Vec::new();
    for n_acc in 1..=3usize {
        for code in 0..3usize.pow(n_acc as u32) {
            let acceptors: Vec<Acceptor> = (0..n_acc).map(|k| Acceptor { start_off: 0, again: modes[(code / 3usize.pow(k as u32)) % 3] }).collect();
            for n_syn in 1..=4usize {
                for pattern in 0..3usize {
                    for spread in [false, true] {
                        for parked_first in [true, false] {
                            let mut sc = base_scenario();
                            sc.bind_step = 2;
                            sc.accept_step = if parked_first { 2 } else { 16 };
                            sc.acceptors = acceptors.clone();
                            sc.conns = (0..n_syn)
                                .map(|n| Conn {
                                    from: match pattern {
                                        0 => 1,
                                        1 => 1 + n % 2,
                                        _ => 0,
                                    },
                                    step: 8 + if spread { n as u32 } else { 0 },
                                    target: if pattern == 2 && n % 2 == 1 { Target::Loopback } else { Target::Server },
                                    timeout_steps: None,
                                    order: 0,
                                    scope: 0,
                                })
                                .collect();
                            v.push(sc);
                        }
                    }
                }
            }
        }
    }
    v
}

/// Probe for F-C12-1: one connector whose destination carries a scope id.
pub fn probe_scope_id() -> Scenario {
    let mut sc = base_scenario();
    sc.v6 = true;
    sc.conns = vec![Conn { from: 1, step: 3, target: Target::Server, timeout_steps: None, order: 0, scope: 3 }];
    sc.probe = Some("v6-scope-id".into());
    sc
}

/// Clamp a structurally decoded scenario into the generator's domain (fuzz tier).
pub fn fuzz_sanitize(sc: &mut Scenario) -> bool {
    sc.tick_ms = 1 + sc.tick_ms % 3;
    sc.lat_min %= 9;
    sc.lat_max = sc.lat_min + sc.lat_max % 13;
    if sc.lat_min == sc.lat_max && sc.lat_min == 0 {
        sc.lat_min = 1;
        sc.lat_max = 1;
    }
    sc.bind_step = 1 + sc.bind_step % 11;
    sc.accept_step = sc.bind_step + sc.accept_step % 14;
    sc.drop_step = sc.drop_step.map(|d| sc.bind_step + 4 + d % 26);
    sc.rebind_step = match (sc.drop_step, sc.rebind_step) {
        (Some(d), Some(r)) => Some(d + 1 + r % 11),
        _ => None,
    };
    sc.conns.truncate(7);
    for c in sc.conns.iter_mut() {
        c.from %= 3;
        c.step = 1 + c.step % 35;
        c.timeout_steps = c.timeout_steps.map(|w| w % 14);
        c.order %= 3;
        c.scope %= 5;
    }
    // any history of up to 4 hold / release / partition / repair calls
    sc.faults.truncate(4);
    for f in sc.faults.iter_mut() {
        f.0 %= 48;
        f.1 %= 4;
    }
    sc.faults.sort_by_key(|f| f.0);
    sc.acceptors.truncate(3);
    for a in sc.acceptors.iter_mut() {
        a.start_off %= 4;
        a.again = a.again.map(|w| w % 8);
    }
    sc.probe = None;
    !sc.conns.is_empty()
}

fn check(tier: Tier, seed: u64) -> i32 {
    let ctx = Ctx::new("C12", tier, seed, "exploration");
    ctx.replay_corpus(&replay);
    let lh = link_history_space();
    let lh_desc = format!(
        "{} scenarios: every sequence of 1..=3 hold / release / partition / repair calls on the link c0-s, each placed before the connect, at one of two instants while the request is on the link (latency 3 ticks), or after it was due; one connector on c0 with and without a give-up deadline, a second one after the history, a control connector on c1; listener bound and accepting throughout",
        lh.len()
    );
    ctx.exhaustive("link-histories", &lh_desc, Box::new(lh.into_iter()), &run);
    let bo = bind_order_space();
    let bo_desc = format!(
        "{} scenarios: one same-host connector (127.0.0.1 / ::1 or the host's own address) x wildcard / localhost bind x v4 / v6 x tick 1 / 3 ms, its connect call issued by the server task two steps before .. two steps after a bind, a re-bind or a listener drop and, within the same step, just before or just after that action; with and without a give-up deadline",
        bo.len()
    );
    ctx.exhaustive("bind-connect-order", &bo_desc, Box::new(bo.into_iter()), &run);
    let ap = acceptor_pool_space();
    let ap_desc = format!(
        "{} scenarios: every pool of 1..=3 tasks sharing one listener through an Rc (each accepting once and then staying busy with its stream / calling accept again after 3 steps / looping) x 1..=4 connects called in one step or in consecutive steps x connectors all on c0 / alternately on c0 and c1 (equal latency) / on the listener's own host (own address and 127.0.0.1) x tasks parked in accept() before the requests arrive or calling accept() only afterwards; fixed latency 3 ticks; the listener is dropped at the end of the run",
        ap.len()
    );
    ctx.exhaustive("acceptor-pools", &ap_desc, Box::new(ap.into_iter()), &run);
    ctx.random("pairing", tier.pick(24_000, 300_000), &|| strategy(), &run);
    ctx.finish(
        "random scenarios: a server timeline (bind, start accepting, optional listener drop and re-bind; accepting is done by one accept loop or, in 4 of 9 scenarios, by a pool of 1-3 tasks that share the listener through an Rc and are parked in accept() concurrently, each started 0-3 steps after the accept step and, after a stream was returned to it, either staying busy with it for good, calling accept again after 1-7 steps, or looping at once; a pool scenario usually gets a burst of 2-5 connects called in one step, or in consecutive steps, by connectors on one remote host, on both remote hosts or on any host, 0-11 steps after the accept step, so that several requests reach the listener in the same step while several, fewer or more tasks are parked; the listener of a pool scenario is dropped at the end of the run so that requests nobody is left to accept are refused) and 1-7 connectors on the server's own host (own address, 127.0.0.1/::1; free-running, or issued by the server task itself just before / just after its own bind / drop / re-bind of the same step) and on two remote hosts, started at generated steps, some giving up after a generated number of steps, some aimed at a dead port or an address nobody owns; wildcard or localhost bind, v4/v6 (v6 destinations optionally as SocketAddrV6 with a scope id unless F-C12-1 is recorded as known), fixed or ranged latency, a history of up to 4 hold / release / partition / repair calls in any order around the first connector's request (or a hold/release or partition/repair pair anywhere), random host order; plus three bounded-exhaustive families (link histories around one pending connect; same-host connect against bind / re-bind / drop; pools of accepting tasks against bursts of connects). Every successful connector writes its index, every accepted stream reads it. Oracle: nonce bijection (each success accepted exactly once, accepted streams without a connector only for connectors that gave up), mirrored addresses, ConnectionRefused for dead ports / unknown addresses / localhost listeners, no connect left pending, stream counts back to 0 after all streams were dropped; a model of the link history decides for every request from c0 whether it is dropped by a partition (sent into one, or in flight / parked by a hold when it is set: the connect must be refused, promptly, never succeed, never stay pending), parked until a release, or delivered in a known step range (no Ok and no refusal before that), leaving open what the documentation leaves open; a step-level model of the listener timeline decides accept-vs-refuse, refusal promptness and accept order = arrival order for remote requests under fixed latency >= 1 ms and fixed host order (delivery step known exactly), and for same-host requests always, over a RANGE of admissible delivery steps (the step after the connect call ..= 4 steps after it, the upper end tightened by observation: delivered no later than the step in which the request was accepted or the connect refused): the verdict (must succeed / must be refused) is computed for every admissible delivery step from the listener state at that step - not the state when connect was called - and asserted only when all of them agree (e.g. connect issued just before a bind of the same step, listener then bound with an accepting task throughout: must succeed; nobody bound during the whole range: must be refused, by the end of the range + 2 steps); accept order between two requests is asserted when their delivery ranges are disjoint with a step between them (same-host requests included); with a pool of accepting tasks the model bounds the accept step of a queued request between the first accept() call of any task and the start of the first looping task (or of the last task when there are at least as many tasks as requests), and admits a request waiting until the listener goes away otherwise; for every accept() call of every task (called in step p, returned in step q or never) and every request certainly delivered by step j (the END of its delivery range: link-history range for remote, connect step + 4 for same-host requests): the request is not still waiting (neither accepted, refused nor given up on) after step max(j, p) + 1 while that call has not returned - no connect is left waiting in the queue while a task is parked in accept(). Non-trivial = >= 2 connectors pending at once and >= 1 refusal or give-up. Distinct by scenario hash.",
        &[
            "pending requests stay far below tcp_capacity (64)",
            "events that fall in the very step of a bind / drop / re-bind (free-running same-host connectors: within one step of it), or within 2 steps of a give-up, are admitted either way (documented race)",
            "a request that reaches a bound listener while every accepting task is busy (not inside accept()) may wait for as long as that lasts: the property text bounds the wait only while somebody is accepting; such requests are refused by the end-of-run listener drop",
            "accept order is only asserted for requests whose admissible delivery ranges lie at least 2 steps apart (remote: under fixed latency; same-host: range as below)",
            "same-host delivery latency is not asserted: a request to the connector's own host (own address or 127.0.0.1 / ::1) is assumed to be delivered no earlier than the step after the connect call and no later than 4 steps after it (harness constant LOCAL_K; the only timing assumption, needed for the promptness clauses), and same-host requests may overtake each other; no verdict depends on which step of the range it is",
            "link conditions the rustdoc leaves open are not asserted: whether a hold survives partition / repair, whether a partition survives hold / release, whether repair lets parked messages go, hold / partition at the very instant of a release or while the request may already have been delivered",
            "only two-way partition / repair (the one-way variants are documented as unsupported together with hold)",
        ],
    )
}

fn replay(_sub: &str, v: &Value) -> Result<Outcome, String> {
    replay_as::<Scenario>(v, &run)
}

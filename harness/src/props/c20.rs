//! C20 — barriers observe every matching trigger once and suspend only when
//! asked.  DESIGN.md §6 C20.
//!
//! Two sub-checks:
//!
//! * `manual` (Manual driver): 1-4 trigger tasks (plain `async fn`s running
//!   scripts of `trigger(v).await` / `trigger_noop(v)` / progress bumps) and
//!   test-side actions (build a barrier with a reaction and a value-set
//!   condition, poll `wait()`, cancel a pending `wait()`, drop a reported
//!   handle, drop a barrier, cancel a task) are interleaved by a generated
//!   schedule.  Every future is polled by hand with a counting waker, so the
//!   harness owns the schedule completely.  A registry-list reference model
//!   is stepped in lock-step and compared after every action.
//! * `fs-hook` (SimDriver): a `turmoil::Sim` with `corruption_probability`
//!   (mostly 1.0), hosts reading files through the std/tokio fs shims; the
//!   reads detect the flipped byte themselves (they know the file contents),
//!   and the test observes `Barrier<FsCorruption>`s built/dropped/drained
//!   between steps.  Every corruption a read experienced must be reported
//!   once, in order, to the earliest-created live matching barrier; reads
//!   without a live matching barrier proceed unaffected.
//!   The barriers carry all three reactions: every read call runs under
//!   `catch_unwind` inside the host software, a read whose corruption event
//!   meets a Panic barrier first (or a Suspend barrier: `trigger_noop` is
//!   documented to panic on those) must panic with the pinned message, a
//!   read that comes back corrupted must not have had one, and nothing is
//!   reported for a panicked read.
//!
//! Barriers live in a thread-local registry: every case owns its barriers in
//! RAII containers (`World` / local `Vec`) which are dropped on every exit
//! path including unwinding, so nothing leaks from one case into the next on
//! the same worker thread.

use crate::engine::{normalize, pick, replay_as, Ctx, Outcome, Tier};
use proptest::prelude::*;
use serde::{Deserialize, Serialize};
use serde_json::Value;
use std::any::Any;
use std::cell::{Cell, RefCell};
use std::collections::VecDeque;
use std::future::Future;
use std::panic::{catch_unwind, AssertUnwindSafe};
use std::pin::Pin;
use std::rc::Rc;
use std::sync::atomic::{AtomicU64, Ordering};
use std::sync::Arc;
use std::task::{Context, Poll, Wake, Waker};
use std::time::Duration;
use turmoil::barriers::{trigger, trigger_noop, Barrier, Reaction, Triggered};
use turmoil::fs::FsCorruption;

pub const PROP: super::Prop = super::Prop {
    id: "C20",
    level: "exploration",
    check,
    replay,
};

/// Messages pinned by /repo/crates/turmoil/tests/barriers.rs (`should_panic(expected = ..)`).
const MSG_PANIC: &str = "Injected panic from barrier";
const MSG_NOOP_ON_SUSPEND: &str = "trigger_noop() cannot be used with Reaction::Suspend";

// ---------------------------------------------------------------------------
// Scenario (manual sub-check)
// ---------------------------------------------------------------------------

#[derive(Clone, Copy, Debug, Serialize, Deserialize, PartialEq, Eq)]
pub enum React {
    Noop,
    Suspend,
    Panic,
}

impl Default for React {
    fn default() -> Self {
        React::Noop
    }
}

impl React {
    fn real(self) -> Reaction {
        match self {
            React::Noop => Reaction::Noop,
            React::Suspend => Reaction::Suspend,
            React::Panic => Reaction::Panic,
        }
    }
}

/// One step of a trigger task.  `kind` selects one of two distinct Rust
/// trigger types (`Val<0>` / `Val<1>`); a barrier only ever matches triggers
/// of its own type.
#[derive(Clone, Debug, Serialize, Deserialize)]
pub enum TOp {
    Trigger { kind: u8, v: u8 },
    TriggerNoop { kind: u8, v: u8 },
    Bump,
    /// `n` triggers of the same value in a row (`trigger(v).await` when
    /// `sync` is false, `trigger_noop(v)` when true) with nothing else in
    /// between: the number of reports that pile up on a barrier before the
    /// test collects them is a dimension of its own.  The interpreter
    /// expands a burst into `n` single steps (see `flatten`), so the model,
    /// the progress counters and the identities (`op` = index in the
    /// expanded script) treat every trigger of a burst individually.
    Burst { kind: u8, v: u8, n: u16, sync: bool },
}

/// Upper bounds applied by the interpreter (replayed / fuzzed scenarios may
/// carry anything): one burst, and one task's expanded script.
const MAX_BURST: usize = 12_000;
const MAX_FLAT: usize = 40_000;

/// Expand bursts into single trigger steps.
fn flatten(ops: &[TOp]) -> Vec<TOp> {
    let mut flat = Vec::new();
    for op in ops {
        match *op {
            TOp::Burst { kind, v, n, sync } => {
                let n = (n as usize).min(MAX_BURST).min(MAX_FLAT.saturating_sub(flat.len()));
                for _ in 0..n {
                    flat.push(if sync {
                        TOp::TriggerNoop { kind, v }
                    } else {
                        TOp::Trigger { kind, v }
                    });
                }
            }
            ref o => {
                if flat.len() < MAX_FLAT {
                    flat.push(o.clone())
                }
            }
        }
    }
    flat
}

#[derive(Clone, Debug, Serialize, Deserialize)]
pub enum Act {
    /// poll one of the tasks that are still alive
    Poll(u16),
    /// `Barrier::<Val<kind>>::build(react, |t| set.contains(&t.v))`
    Build { react: React, kind: u8, set: Vec<u8> },
    /// poll `wait()` once on one of the live barriers (a pending `wait()`
    /// future is kept and re-polled by the next Wait on the same barrier)
    Wait(u16),
    /// drop a pending `wait()` future without completing it
    CancelWait(u16),
    /// drop one of the `Triggered` handles the test currently holds
    DropHandle(u16),
    /// drop one of the live barriers; `drain` = first poll `wait()` until it
    /// is Pending (so the full queue is compared before it disappears)
    DropBarrier { which: u16, drain: bool },
    /// drop a task's future (task cancellation)
    Kill(u16),
    /// collect ALL reports queued on one live barrier: poll `wait()` until
    /// it is Pending, comparing every report with the model; the barrier
    /// stays live
    Drain(u16),
}

#[derive(Clone, Debug, Serialize, Deserialize)]
pub struct Scenario {
    pub tasks: Vec<Vec<TOp>>,
    pub sched: Vec<Act>,
}

// ---------------------------------------------------------------------------
// Manual driver: counting waker, hand-polled futures, self-contained slots
// ---------------------------------------------------------------------------

struct CountWaker(AtomicU64);

impl Wake for CountWaker {
    fn wake(self: Arc<Self>) {
        self.0.fetch_add(1, Ordering::SeqCst);
    }
    fn wake_by_ref(self: &Arc<Self>) {
        self.0.fetch_add(1, Ordering::SeqCst);
    }
}

fn new_waker() -> Arc<CountWaker> {
    Arc::new(CountWaker(AtomicU64::new(0)))
}

fn wakes(w: &Arc<CountWaker>) -> u64 {
    w.0.load(Ordering::SeqCst)
}

type WaitFut<T> = Pin<Box<dyn Future<Output = Option<Triggered<T>>>>>;

/// A barrier plus (optionally) its pending `wait()` future.  `wait()`
/// borrows the barrier mutably, so the barrier is kept behind a raw pointer
/// that is only freed after the future is gone.
struct Slot<T: Any + Send> {
    fut: Option<WaitFut<T>>,
    barrier: *mut Barrier<T>,
}

impl<T: Any + Send> Slot<T> {
    fn new(b: Barrier<T>) -> Self {
        Slot {
            fut: None,
            barrier: Box::into_raw(Box::new(b)),
        }
    }

    fn poll_wait(&mut self, cx: &mut Context<'_>) -> Poll<Option<Triggered<T>>> {
        if self.fut.is_none() {
            // SAFETY: `barrier` is a live heap allocation owned by this slot;
            // at most one future borrows it at a time and the future is
            // dropped (in `cancel`, on completion, or in Drop) strictly
            // before the allocation is freed.
            let b: &'static mut Barrier<T> = unsafe { &mut *self.barrier };
            self.fut = Some(Box::pin(b.wait()));
        }
        let r = self.fut.as_mut().unwrap().as_mut().poll(cx);
        if r.is_ready() {
            self.fut = None;
        }
        r
    }

    fn cancel(&mut self) {
        self.fut = None;
    }
}

impl<T: Any + Send> Drop for Slot<T> {
    fn drop(&mut self) {
        self.fut = None;
        // SAFETY: allocated by Box::into_raw in `new`, freed exactly once.
        unsafe { drop(Box::from_raw(self.barrier)) };
    }
}

#[derive(Clone, Debug, PartialEq, Eq)]
struct Ident {
    kind: u8,
    v: u8,
    task: usize,
    op: usize,
}

#[derive(Clone, Debug)]
struct Val<const K: u8> {
    v: u8,
    task: usize,
    op: usize,
}

trait AnySlot {
    /// Poll `wait()`; on Ready(Some) return the identity of the reported
    /// trigger (read through `Deref`) and the type-erased handle.
    fn poll_wait_any(&mut self, cx: &mut Context<'_>) -> Poll<Option<(Ident, Box<dyn Any>)>>;
    fn cancel_wait(&mut self);
}

impl<const K: u8> AnySlot for Slot<Val<K>> {
    fn poll_wait_any(&mut self, cx: &mut Context<'_>) -> Poll<Option<(Ident, Box<dyn Any>)>> {
        match self.poll_wait(cx) {
            Poll::Pending => Poll::Pending,
            Poll::Ready(None) => Poll::Ready(None),
            Poll::Ready(Some(h)) => {
                let id = Ident {
                    kind: K,
                    v: h.v,
                    task: h.task,
                    op: h.op,
                };
                Poll::Ready(Some((id, Box::new(h))))
            }
        }
    }
    fn cancel_wait(&mut self) {
        self.cancel()
    }
}

fn build_slot(react: React, kind: u8, set: Vec<u8>) -> Box<dyn AnySlot> {
    fn mk<const K: u8>(react: React, set: Vec<u8>) -> Box<dyn AnySlot> {
        let cond = move |t: &Val<K>| set.contains(&t.v);
        Box::new(Slot::new(match react {
            // `Barrier::new` is documented as `build(Reaction::Noop, ..)`
            React::Noop => Barrier::new(cond),
            r => Barrier::build(r.real(), cond),
        }))
    }
    if kind == 0 {
        mk::<0>(react, set)
    } else {
        mk::<1>(react, set)
    }
}

#[derive(Default)]
struct TaskLog {
    started: Cell<usize>,
    done: Cell<usize>,
    bumps: Cell<u32>,
}

/// The "source code": a script interpreted inside a plain async fn.
async fn task_body(id: usize, ops: Vec<TOp>, log: Rc<TaskLog>) {
    for (k, op) in ops.iter().enumerate() {
        log.started.set(k + 1);
        match *op {
            TOp::Trigger { kind, v } => {
                if kind == 0 {
                    trigger(Val::<0> { v, task: id, op: k }).await
                } else {
                    trigger(Val::<1> { v, task: id, op: k }).await
                }
            }
            TOp::TriggerNoop { kind, v } => {
                if kind == 0 {
                    trigger_noop(Val::<0> { v, task: id, op: k })
                } else {
                    trigger_noop(Val::<1> { v, task: id, op: k })
                }
            }
            TOp::Bump => log.bumps.set(log.bumps.get() + 1),
            TOp::Burst { .. } => unreachable!("bursts are expanded by flatten()"),
        }
        log.done.set(k + 1);
    }
}

struct RealTask {
    fut: Option<Pin<Box<dyn Future<Output = ()>>>>,
    log: Rc<TaskLog>,
    waker: Arc<CountWaker>,
    /// wake count right after the last poll
    mark: u64,
}

struct RealBarrier {
    mid: usize,
    slot: Box<dyn AnySlot>,
    waker: Arc<CountWaker>,
    mark: u64,
}

struct RealHandle {
    h: Box<dyn Any>,
}

enum Polled {
    Pending,
    Ready,
    Panicked(String),
}

fn panic_text(p: Box<dyn Any + Send>) -> String {
    if let Some(s) = p.downcast_ref::<&str>() {
        s.to_string()
    } else if let Some(s) = p.downcast_ref::<String>() {
        s.clone()
    } else {
        "<non-string panic>".into()
    }
}

// ---------------------------------------------------------------------------
// Reference model: registry list
// ---------------------------------------------------------------------------

#[derive(Clone, Debug)]
struct MEntry {
    ident: Ident,
    /// the trigger came through `trigger()` on a Suspend barrier: the task
    /// `ident.task` is held until the handle is dropped
    suspends: bool,
}

struct MBarrier {
    react: React,
    kind: u8,
    set: Vec<u8>,
    live: bool,
    queue: VecDeque<MEntry>,
    /// a `wait()` future exists whose last poll returned Pending
    pending_wait: bool,
}

#[derive(Clone, Copy, Debug, PartialEq, Eq)]
enum TSt {
    Runnable,
    /// blocked in `trigger()` at op `pc`.  `released`: its handle has been
    /// dropped.  `orphan`: the barrier was dropped while the trigger was
    /// still unreported — the property does not say what happens then, so
    /// the model follows the observation.
    Suspended {
        released: bool,
        orphan: bool,
        extra_polls: u32,
    },
    Done,
    Panicked,
    Killed,
}

#[derive(Clone, Copy, Debug, PartialEq, Eq)]
enum Dec {
    Bump,
    Unmatched,
    Noop,
    Suspend,
    Panic,
    NoopOnSuspend,
}

struct MTask {
    pc: usize,
    bumps: u32,
    st: TSt,
    dec: Vec<Option<Dec>>,
}

enum Exp {
    Pending,
    Ready,
    Panic(&'static str),
}

#[derive(Default)]
struct Stats {
    overlap_hits: u32,
    late_releases: u32,
    delivered: u32,
    unmatched: u32,
    after_drop: u32,
    type_mismatch: u32,
    suspends: u32,
    panics: u32,
    noop_on_suspend: u32,
    orphans: u32,
    wait_woken: u32,
    task_woken: u32,
    reported: u32,
    spurious_polls: u32,
    kills: u32,
    noop_sync: u32,
    /// largest number of uncollected reports on one barrier
    max_queue: u32,
    /// deliveries (async / sync) onto a barrier that already held >= 1024
    /// uncollected reports
    deep_async: u32,
    deep_sync: u32,
    drains: u32,
}

/// Depth from which a queue counts as "deep" for the class labels.
const DEEP: usize = 1024;

struct Model {
    barriers: Vec<MBarrier>,
    tasks: Vec<MTask>,
    handles: Vec<MEntry>,
    st: Stats,
}

impl Model {
    fn note_depth(&mut self, b: usize) {
        let d = self.barriers[b].queue.len() as u32;
        if d > self.st.max_queue {
            self.st.max_queue = d;
        }
    }

    /// earliest-created live barrier of the right type whose set holds `v`
    fn lookup(&mut self, kind: u8, v: u8) -> Option<usize> {
        let mut first = None;
        let mut n = 0;
        let mut dead_match = false;
        let mut other_type = false;
        for (i, b) in self.barriers.iter().enumerate() {
            let val_match = b.set.contains(&v);
            if b.live && val_match && b.kind != kind {
                other_type = true;
            }
            if b.kind == kind && val_match {
                if b.live {
                    n += 1;
                    if first.is_none() {
                        first = Some(i);
                    }
                } else {
                    dead_match = true;
                }
            }
        }
        if n >= 2 {
            self.st.overlap_hits += 1;
        }
        if first.is_none() {
            self.st.unmatched += 1;
            if dead_match {
                self.st.after_drop += 1;
            }
            if other_type {
                self.st.type_mismatch += 1;
            }
        }
        first
    }

    /// Step task `i` through one poll.  `progressed` is only consulted for
    /// orphaned suspensions (behaviour unspecified by the property).
    fn poll(&mut self, i: usize, ops: &[TOp], progressed: bool) -> Exp {
        match self.tasks[i].st {
            TSt::Suspended {
                released,
                orphan,
                extra_polls,
            } => {
                let go = released || (orphan && progressed);
                if !go {
                    self.tasks[i].st = TSt::Suspended {
                        released,
                        orphan,
                        extra_polls: extra_polls + 1,
                    };
                    self.st.spurious_polls += 1;
                    return Exp::Pending;
                }
                self.tasks[i].pc += 1;
                self.tasks[i].st = TSt::Runnable;
            }
            TSt::Runnable => {}
            TSt::Done | TSt::Panicked | TSt::Killed => unreachable!("dead task polled"),
        }
        loop {
            let pc = self.tasks[i].pc;
            if pc >= ops.len() {
                self.tasks[i].st = TSt::Done;
                return Exp::Ready;
            }
            match ops[pc] {
                TOp::Bump => {
                    self.tasks[i].bumps += 1;
                    self.tasks[i].dec[pc] = Some(Dec::Bump);
                    self.tasks[i].pc += 1;
                }
                TOp::Trigger { kind, v } => {
                    let ident = Ident {
                        kind,
                        v,
                        task: i,
                        op: pc,
                    };
                    match self.lookup(kind, v) {
                        None => {
                            self.tasks[i].dec[pc] = Some(Dec::Unmatched);
                            self.tasks[i].pc += 1;
                        }
                        Some(b) => match self.barriers[b].react {
                            React::Noop => {
                                if self.barriers[b].queue.len() >= DEEP {
                                    self.st.deep_async += 1;
                                }
                                self.barriers[b].queue.push_back(MEntry {
                                    ident,
                                    suspends: false,
                                });
                                self.note_depth(b);
                                self.st.delivered += 1;
                                self.tasks[i].dec[pc] = Some(Dec::Noop);
                                self.tasks[i].pc += 1;
                            }
                            React::Suspend => {
                                if self.barriers[b].queue.len() >= DEEP {
                                    self.st.deep_async += 1;
                                }
                                self.barriers[b].queue.push_back(MEntry {
                                    ident,
                                    suspends: true,
                                });
                                self.note_depth(b);
                                self.st.delivered += 1;
                                self.st.suspends += 1;
                                self.tasks[i].dec[pc] = Some(Dec::Suspend);
                                self.tasks[i].st = TSt::Suspended {
                                    released: false,
                                    orphan: false,
                                    extra_polls: 0,
                                };
                                return Exp::Pending;
                            }
                            React::Panic => {
                                self.st.panics += 1;
                                self.tasks[i].dec[pc] = Some(Dec::Panic);
                                self.tasks[i].st = TSt::Panicked;
                                return Exp::Panic(MSG_PANIC);
                            }
                        },
                    }
                }
                TOp::Burst { .. } => unreachable!("bursts are expanded by flatten()"),
                TOp::TriggerNoop { kind, v } => {
                    let ident = Ident {
                        kind,
                        v,
                        task: i,
                        op: pc,
                    };
                    match self.lookup(kind, v) {
                        None => {
                            self.tasks[i].dec[pc] = Some(Dec::Unmatched);
                            self.tasks[i].pc += 1;
                        }
                        Some(b) => match self.barriers[b].react {
                            React::Noop => {
                                if self.barriers[b].queue.len() >= DEEP {
                                    self.st.deep_sync += 1;
                                }
                                self.barriers[b].queue.push_back(MEntry {
                                    ident,
                                    suspends: false,
                                });
                                self.note_depth(b);
                                self.st.delivered += 1;
                                self.st.noop_sync += 1;
                                self.tasks[i].dec[pc] = Some(Dec::Noop);
                                self.tasks[i].pc += 1;
                            }
                            React::Suspend => {
                                self.st.noop_on_suspend += 1;
                                self.tasks[i].dec[pc] = Some(Dec::NoopOnSuspend);
                                self.tasks[i].st = TSt::Panicked;
                                return Exp::Panic(MSG_NOOP_ON_SUSPEND);
                            }
                            React::Panic => {
                                self.st.panics += 1;
                                self.tasks[i].dec[pc] = Some(Dec::Panic);
                                self.tasks[i].st = TSt::Panicked;
                                return Exp::Panic(MSG_PANIC);
                            }
                        },
                    }
                }
            }
        }
    }
}

// ---------------------------------------------------------------------------
// World = real side + model, stepped in lock-step
// ---------------------------------------------------------------------------

type Fail = (String, String);

/// First entries of a model queue (queues can hold thousands of entries).
fn qhead(q: &VecDeque<MEntry>) -> String {
    let head: Vec<&Ident> = q.iter().take(6).map(|e| &e.ident).collect();
    format!("(len {}) first {:?}", q.len(), head)
}

struct World<'a> {
    sc: &'a Scenario,
    /// the tasks' scripts with bursts expanded (what the tasks and the model run)
    flat: Rc<Vec<Vec<TOp>>>,
    // field order = drop order: handles, tasks, then barriers
    handles: Vec<RealHandle>,
    tasks: Vec<RealTask>,
    live: Vec<RealBarrier>,
    m: Model,
}

impl<'a> World<'a> {
    fn new(sc: &'a Scenario) -> Self {
        let flat: Rc<Vec<Vec<TOp>>> = Rc::new(sc.tasks.iter().map(|ops| flatten(ops)).collect());
        let tasks = flat
            .iter()
            .enumerate()
            .map(|(i, ops)| {
                let log = Rc::new(TaskLog::default());
                RealTask {
                    fut: Some(Box::pin(task_body(i, ops.clone(), log.clone()))),
                    log,
                    waker: new_waker(),
                    mark: 0,
                }
            })
            .collect();
        let mtasks = flat
            .iter()
            .map(|ops| MTask {
                pc: 0,
                bumps: 0,
                st: TSt::Runnable,
                dec: vec![None; ops.len()],
            })
            .collect();
        World {
            sc,
            flat,
            handles: Vec::new(),
            tasks,
            live: Vec::new(),
            m: Model {
                barriers: Vec::new(),
                tasks: mtasks,
                handles: Vec::new(),
                st: Stats::default(),
            },
        }
    }

    fn alive_tasks(&self) -> Vec<usize> {
        (0..self.tasks.len())
            .filter(|&i| self.tasks[i].fut.is_some())
            .collect()
    }

    fn poll_task(&mut self, i: usize) -> Result<(), Fail> {
        let flat = self.flat.clone();
        let ops: &[TOp] = &flat[i];
        let script = &self.sc.tasks[i];
        let before_done = self.tasks[i].log.done.get();
        // ---- real
        let polled = {
            let t = &mut self.tasks[i];
            let waker = Waker::from(t.waker.clone());
            let mut cx = Context::from_waker(&waker);
            let fut = t.fut.as_mut().unwrap();
            let r = catch_unwind(AssertUnwindSafe(|| fut.as_mut().poll(&mut cx)));
            t.mark = wakes(&t.waker);
            match r {
                Ok(Poll::Pending) => Polled::Pending,
                Ok(Poll::Ready(())) => {
                    t.fut = None;
                    Polled::Ready
                }
                Err(p) => {
                    t.fut = None;
                    // this panic is handled here; do not let the engine's
                    // panic hook attribute it to a later, unrelated panic
                    crate::engine::take_last_panic();
                    Polled::Panicked(panic_text(p))
                }
            }
        };
        let real_done = self.tasks[i].log.done.get();
        let real_started = self.tasks[i].log.started.get();
        let real_bumps = self.tasks[i].log.bumps.get();
        // ---- model
        let was = self.m.tasks[i].st;
        let progressed = real_done > before_done || matches!(polled, Polled::Ready);
        let exp = self.m.poll(i, ops, progressed);
        let mt = &self.m.tasks[i];
        let ctx = |what: &str| {
            format!(
                "task {i} script {script:?} ({} steps with bursts expanded; step numbers below count expanded steps): {what}; real: steps completed {real_done}, started {real_started}, bumps {real_bumps}; model: steps completed {}, bumps {}, state before poll {was:?}",
                ops.len(), mt.pc, mt.bumps
            )
        };
        // ---- compare progress first (most specific signatures)
        if real_done > mt.pc {
            // the real task went past an op the model says must hold it
            let sig = match mt.dec.get(mt.pc).copied().flatten() {
                Some(Dec::Suspend) => match was {
                    TSt::Suspended { .. } => "suspend: task proceeded although its Triggered handle has not been dropped",
                    _ => "suspend: trigger() on a Suspend barrier did not hold the task",
                },
                Some(Dec::Panic) => "panic: Panic barrier did not panic the triggering code",
                Some(Dec::NoopOnSuspend) => "trigger_noop on a Suspend barrier did not panic",
                _ => "progress: task ran further than the model allows",
            };
            return Err((sig.into(), ctx("task ran too far")));
        }
        if real_done < mt.pc {
            let blocked = real_done;
            let sig = match mt.dec.get(blocked).copied().flatten() {
                Some(Dec::Unmatched) => "unmatched trigger did not return immediately",
                Some(Dec::Noop) => "noop: Noop barrier blocked the triggering code",
                Some(Dec::Suspend) => "suspend: task did not proceed on its first poll after the handle was dropped",
                _ => "progress: task ran less far than the model requires",
            };
            let extra = match &polled {
                Polled::Panicked(m) => format!(" (panicked: {m})"),
                _ => String::new(),
            };
            if let Polled::Panicked(m) = &polled {
                return Err((
                    format!("unexpected panic in triggering code: {}", normalize(m)),
                    ctx(&format!("stopped at op {blocked}{extra}")),
                ));
            }
            return Err((sig.into(), ctx(&format!("stopped at op {blocked}"))));
        }
        if real_bumps != mt.bumps {
            return Err((
                "progress: bump counter differs from model".into(),
                ctx("bump mismatch"),
            ));
        }
        match (&exp, &polled) {
            (Exp::Pending, Polled::Pending) | (Exp::Ready, Polled::Ready) => {}
            (Exp::Panic(want), Polled::Panicked(got)) => {
                if !got.contains(want) {
                    return Err((
                        "panic: triggering code panicked with an unexpected message".into(),
                        ctx(&format!("expected message containing {want:?}, got {got:?}")),
                    ));
                }
            }
            (Exp::Panic(want), _) => {
                let sig = if *want == MSG_PANIC {
                    "panic: Panic barrier did not panic the triggering code"
                } else {
                    "trigger_noop on a Suspend barrier did not panic"
                };
                return Err((sig.into(), ctx("expected a panic")));
            }
            (_, Polled::Panicked(got)) => {
                return Err((
                    format!("unexpected panic in triggering code: {}", normalize(got)),
                    ctx(&format!("panic {got:?}")),
                ));
            }
            (Exp::Pending, Polled::Ready) => {
                return Err((
                    "suspend: task completed although it should be held".into(),
                    ctx("Ready instead of Pending"),
                ));
            }
            (Exp::Ready, Polled::Pending) => {
                return Err((
                    "progress: task finished its script but its future is Pending".into(),
                    ctx("Pending instead of Ready"),
                ));
            }
        }
        self.check_wait_wakes("after a task poll")
    }

    /// A pending `wait()` must have been woken once its barrier has something
    /// queued.
    fn check_wait_wakes(&self, when: &str) -> Result<(), Fail> {
        for rb in &self.live {
            let mb = &self.m.barriers[rb.mid];
            if mb.pending_wait && !mb.queue.is_empty() {
                if wakes(&rb.waker) <= rb.mark {
                    return Err((
                        "wait: pending wait() was not woken by a matching trigger".into(),
                        format!(
                            "{when}: barrier #{} has {} queued trigger(s) in the model, its wait() future returned Pending earlier and its waker was never called",
                            rb.mid,
                            mb.queue.len()
                        ),
                    ));
                }
            }
        }
        Ok(())
    }

    /// Poll `wait()` once on live barrier position `pos`.  Returns whether a
    /// trigger was reported.
    fn wait_once(&mut self, pos: usize) -> Result<bool, Fail> {
        let rb = &mut self.live[pos];
        let mid = rb.mid;
        let was_pending = self.m.barriers[mid].pending_wait;
        let waker = Waker::from(rb.waker.clone());
        let mut cx = Context::from_waker(&waker);
        let r = rb.slot.poll_wait_any(&mut cx);
        rb.mark = wakes(&rb.waker);
        // only needed to word a failure: skip the search when the report is
        // the one the model expects (queues can hold thousands of entries)
        let elsewhere = match &r {
            Poll::Ready(Some((id, _)))
                if self.m.barriers[mid].queue.front().map(|f| &f.ident) != Some(id) =>
            {
                self.m
                    .barriers
                    .iter()
                    .enumerate()
                    .position(|(k, b)| k != mid && b.queue.iter().any(|e| e.ident == *id))
            }
            _ => None,
        };
        let mb = &mut self.m.barriers[mid];
        match r {
            Poll::Pending => {
                if let Some(front) = mb.queue.front() {
                    return Err((
                        "wait: matching trigger not reported (wait() Pending with a queued trigger)".into(),
                        format!(
                            "barrier #{mid} (react {:?}, kind {}, set {:?}): model queue front {:?}, len {}",
                            mb.react,
                            mb.kind,
                            mb.set,
                            front.ident,
                            mb.queue.len()
                        ),
                    ));
                }
                mb.pending_wait = true;
                Ok(false)
            }
            Poll::Ready(None) => Err((
                "wait: returned None on a live barrier".into(),
                format!("barrier #{mid}: model queue {}", qhead(&mb.queue)),
            )),
            Poll::Ready(Some((id, h))) => {
                // keep the handle alive (RAII) whatever the verdict is
                self.handles.push(RealHandle { h });
                let Some(front) = mb.queue.pop_front() else {
                    self.m.handles.push(MEntry {
                        ident: id.clone(),
                        suspends: false,
                    });
                    let sig = if elsewhere.is_some() {
                        "wait: trigger reported to a barrier other than the earliest-created live match"
                    } else if !mb.set.contains(&id.v) || mb.kind != id.kind {
                        "wait: reported a trigger that does not match the barrier's condition"
                    } else {
                        "wait: reported a trigger the model does not queue on this barrier (duplicate or stray)"
                    };
                    return Err((
                        sig.into(),
                        format!(
                            "barrier #{mid} (react {:?}, kind {}, set {:?}) reported {id:?}; model queue empty; model has it queued on barrier {elsewhere:?}",
                            mb.react, mb.kind, mb.set
                        ),
                    ));
                };
                self.m.handles.push(front.clone());
                if front.ident != id {
                    let later = mb.queue.iter().any(|e| e.ident == id);
                    let sig = if later {
                        "wait: triggers reported out of trigger order (or one was skipped)"
                    } else if elsewhere.is_some() {
                        "wait: trigger reported to a barrier other than the earliest-created live match"
                    } else {
                        "wait: reported a trigger the model does not queue on this barrier (duplicate or stray)"
                    };
                    return Err((
                        sig.into(),
                        format!(
                            "barrier #{mid}: reported {id:?}, model expected {:?}, rest of model queue {}",
                            front.ident,
                            qhead(&mb.queue)
                        ),
                    ));
                }
                if was_pending {
                    self.m.st.wait_woken += 1;
                }
                mb.pending_wait = false;
                self.m.st.reported += 1;
                Ok(true)
            }
        }
    }

    fn drop_handle(&mut self, j: usize) -> Result<(), Fail> {
        let rh = self.handles.remove(j);
        let me = self.m.handles.remove(j);
        self.release(rh, me)
    }

    /// Drop one `Triggered` handle (already taken out of the lists).
    fn release(&mut self, rh: RealHandle, me: MEntry) -> Result<(), Fail> {
        drop(rh);
        if !me.suspends {
            return Ok(());
        }
        let i = me.ident.task;
        if let TSt::Suspended {
            released: false,
            orphan,
            extra_polls,
        } = self.m.tasks[i].st
        {
            if self.m.tasks[i].pc != me.ident.op {
                return Ok(()); // handle of an earlier, already finished suspension
            }
            self.m.tasks[i].st = TSt::Suspended {
                released: true,
                orphan,
                extra_polls,
            };
            if extra_polls > 0 {
                self.m.st.late_releases += 1;
            }
            let t = &self.tasks[i];
            if t.fut.is_some() {
                if wakes(&t.waker) <= t.mark {
                    return Err((
                        "suspend: dropping the Triggered handle did not wake the suspended task".into(),
                        format!("task {i} suspended at op {} ({:?}); waker calls {} (unchanged since its last poll)", me.ident.op, me.ident, t.mark),
                    ));
                }
                self.m.st.task_woken += 1;
            }
        }
        Ok(())
    }

    fn drain(&mut self, pos: usize) -> Result<(), Fail> {
        while self.wait_once(pos)? {}
        self.m.st.drains += 1;
        Ok(())
    }

    fn drop_barrier(&mut self, pos: usize) {
        let rb = self.live.remove(pos);
        let mid = rb.mid;
        drop(rb);
        let mb = &mut self.m.barriers[mid];
        mb.live = false;
        mb.pending_wait = false;
        let q: Vec<MEntry> = mb.queue.drain(..).collect();
        for e in q {
            if !e.suspends {
                continue;
            }
            let t = &mut self.m.tasks[e.ident.task];
            if let TSt::Suspended {
                released: false,
                extra_polls,
                ..
            } = t.st
            {
                if t.pc == e.ident.op {
                    t.st = TSt::Suspended {
                        released: false,
                        orphan: true,
                        extra_polls,
                    };
                    self.m.st.orphans += 1;
                }
            }
        }
    }

    fn apply(&mut self, act: &Act) -> Result<(), Fail> {
        match act {
            Act::Poll(i) => {
                let alive = self.alive_tasks();
                if alive.is_empty() {
                    return Ok(());
                }
                self.poll_task(alive[pick(*i, alive.len())])
            }
            Act::Kill(i) => {
                let alive = self.alive_tasks();
                if alive.is_empty() {
                    return Ok(());
                }
                let t = alive[pick(*i, alive.len())];
                self.tasks[t].fut = None;
                self.m.tasks[t].st = TSt::Killed;
                self.m.st.kills += 1;
                Ok(())
            }
            Act::Build { react, kind, set } => {
                let kind = kind % 2;
                let slot = build_slot(*react, kind, set.clone());
                self.m.barriers.push(MBarrier {
                    react: *react,
                    kind,
                    set: set.clone(),
                    live: true,
                    queue: VecDeque::new(),
                    pending_wait: false,
                });
                self.live.push(RealBarrier {
                    mid: self.m.barriers.len() - 1,
                    slot,
                    waker: new_waker(),
                    mark: 0,
                });
                Ok(())
            }
            Act::Wait(b) => {
                if self.live.is_empty() {
                    return Ok(());
                }
                let pos = pick(*b, self.live.len());
                self.wait_once(pos).map(|_| ())
            }
            Act::Drain(b) => {
                if self.live.is_empty() {
                    return Ok(());
                }
                let pos = pick(*b, self.live.len());
                self.drain(pos)
            }
            Act::CancelWait(b) => {
                if self.live.is_empty() {
                    return Ok(());
                }
                let pos = pick(*b, self.live.len());
                self.live[pos].slot.cancel_wait();
                self.m.barriers[self.live[pos].mid].pending_wait = false;
                Ok(())
            }
            Act::DropHandle(h) => {
                if self.handles.is_empty() {
                    return Ok(());
                }
                let j = pick(*h, self.handles.len());
                self.drop_handle(j)
            }
            Act::DropBarrier { which, drain } => {
                if self.live.is_empty() {
                    return Ok(());
                }
                let pos = pick(*which, self.live.len());
                if *drain {
                    self.drain(pos)?;
                }
                self.drop_barrier(pos);
                Ok(())
            }
        }
    }

    /// Deterministic epilogue: everything still queued must be reported
    /// (exactly the model queues), then all handles and barriers are dropped
    /// and every remaining task must run to completion in a single poll —
    /// all its remaining triggers match no live barrier.
    fn finale(&mut self) -> Result<(), Fail> {
        for pos in 0..self.live.len() {
            self.drain(pos)?;
        }
        // oldest handle first (as `drop_handle(0)` repeated, without the
        // quadratic cost when thousands of handles are held)
        let hs = std::mem::take(&mut self.handles);
        let ms = std::mem::take(&mut self.m.handles);
        for (rh, me) in hs.into_iter().zip(ms) {
            self.release(rh, me)?;
        }
        while !self.live.is_empty() {
            self.drop_barrier(0);
        }
        for i in self.alive_tasks() {
            self.poll_task(i)?;
            if self.tasks[i].fut.is_some() {
                // still pending: only legal for an orphaned suspension
                match self.m.tasks[i].st {
                    TSt::Suspended { orphan: true, .. } => {}
                    st => {
                        return Err((
                            "finale: task still pending with no barrier and no handle left".into(),
                            format!("task {i} model state {st:?}"),
                        ))
                    }
                }
            }
        }
        Ok(())
    }
}

pub fn run(sc: &Scenario) -> Outcome {
    let mut out = Outcome::ok();
    let mut w = World::new(sc);
    let mut failed = None;
    for (n, act) in sc.sched.iter().enumerate() {
        if let Err((sig, det)) = w.apply(act) {
            failed = Some((sig, format!("at schedule step {n} ({act:?}): {det}")));
            break;
        }
    }
    if failed.is_none() {
        if let Err((sig, det)) = w.finale() {
            failed = Some((sig, format!("in the epilogue: {det}")));
        }
    }
    let st = &w.m.st;
    out.nontrivial = st.overlap_hits > 0 || st.late_releases > 0;
    let classes: [(&str, u32); 19] = [
        ("overlap-hit", st.overlap_hits),
        ("late-release", st.late_releases),
        ("delivered", st.delivered),
        ("unmatched", st.unmatched),
        ("unmatched-after-barrier-drop", st.after_drop),
        ("unmatched-other-type", st.type_mismatch),
        ("suspend", st.suspends),
        ("panic-reaction", st.panics),
        ("noop-on-suspend-panic", st.noop_on_suspend),
        ("orphaned-suspend", st.orphans),
        ("pending-wait-woken", st.wait_woken),
        ("suspended-task-woken", st.task_woken),
        ("reported", st.reported),
        ("poll-while-suspended", st.spurious_polls),
        ("task-killed", st.kills),
        ("trigger_noop-delivered", st.noop_sync),
        ("deep: trigger().await delivered onto >=1024 uncollected reports", st.deep_async),
        ("deep: trigger_noop delivered onto >=1024 uncollected reports", st.deep_sync),
        ("drain-all", st.drains),
    ];
    for (l, n) in classes {
        if n > 0 {
            out.label(l);
        }
    }
    out.count("triggers delivered (model)", st.delivered as u64);
    out.count("triggers reported by wait()", st.reported as u64);
    out.count("triggers unmatched", st.unmatched as u64);
    out.count("late releases", st.late_releases as u64);
    out.count("overlap hits", st.overlap_hits as u64);
    out.count("triggers delivered onto >=1024 uncollected reports", (st.deep_async + st.deep_sync) as u64);
    out.label(match st.max_queue {
        0 => "uncollected high-water 0",
        1..=8 => "uncollected high-water 1-8",
        9..=99 => "uncollected high-water 9-99",
        100..=1023 => "uncollected high-water 100-1023",
        1024 => "uncollected high-water 1024",
        1025..=4095 => "uncollected high-water 1025-4095",
        _ => "uncollected high-water >=4096",
    });
    if sc.tasks.iter().flatten().any(|o| matches!(o, TOp::Burst { sync: false, .. })) {
        out.label("script has an async burst");
    }
    if sc.tasks.iter().flatten().any(|o| matches!(o, TOp::Burst { sync: true, .. })) {
        out.label("script has a trigger_noop burst");
    }
    if w.m.barriers.iter().filter(|b| b.kind == 0).count() >= 2 {
        out.label(">=2 barriers");
    }
    if let Some((sig, det)) = failed {
        out.fail(sig, det);
    }
    drop(w);
    out
}

// ---------------------------------------------------------------------------
// Generators (manual)
// ---------------------------------------------------------------------------

fn arb_kind() -> impl Strategy<Value = u8> {
    prop_oneof![9 => Just(0u8), 1 => Just(1u8)]
}

/// Burst length: short runs mostly, then a heavy tail around the sizes where
/// a queue implementation is likely to change behaviour (powers of two and
/// their neighbours) up to 10 000.  `tail` = weight of the >= 100 part
/// against 100 for the rest.
fn arb_burst_len(tail: u32) -> impl Strategy<Value = u16> {
    prop_oneof![
        80 => 1u16..=8,
        20 => 9u16..=99,
        tail => prop_oneof![
            4 => Just(100u16),
            2 => Just(255u16),
            2 => Just(256u16),
            2 => Just(257u16),
            4 => Just(1000u16),
            4 => Just(1023u16),
            4 => Just(1024u16),
            4 => Just(1025u16),
            3 => 1026u16..=2100,
            3 => Just(3000u16),
            1 => Just(4097u16),
            1 => Just(10_000u16),
        ],
    ]
}

fn arb_burst(tail: u32) -> impl Strategy<Value = TOp> {
    (arb_kind(), 0u8..4, arb_burst_len(tail), prop_oneof![3 => Just(false), 2 => Just(true)])
        .prop_map(|(kind, v, n, sync)| TOp::Burst { kind, v, n, sync })
}

fn arb_top() -> impl Strategy<Value = TOp> {
    prop_oneof![
        14 => (arb_kind(), 0u8..4).prop_map(|(kind, v)| TOp::Trigger { kind, v }),
        2 => (arb_kind(), 0u8..4).prop_map(|(kind, v)| TOp::TriggerNoop { kind, v }),
        4 => Just(TOp::Bump),
        2 => arb_burst(3),
    ]
}

fn arb_react() -> impl Strategy<Value = React> {
    prop_oneof![
        5 => Just(React::Noop),
        5 => Just(React::Suspend),
        1 => Just(React::Panic),
    ]
}

fn arb_set() -> impl Strategy<Value = Vec<u8>> {
    // bitmask over the value domain 0..4; the empty set (matches nothing) is rare
    (0u8..16, any::<bool>()).prop_map(|(mask, allow_empty)| {
        let mask = if mask == 0 && !allow_empty { 0b0110 } else { mask };
        (0u8..4).filter(|b| mask & (1 << b) != 0).collect()
    })
}

fn arb_build() -> impl Strategy<Value = Act> {
    (arb_react(), arb_kind(), arb_set()).prop_map(|(react, kind, set)| Act::Build { react, kind, set })
}

fn arb_act() -> impl Strategy<Value = Act> {
    prop_oneof![
        12 => any::<u16>().prop_map(Act::Poll),
        5 => arb_build(),
        8 => any::<u16>().prop_map(Act::Wait),
        1 => any::<u16>().prop_map(Act::CancelWait),
        1 => any::<u16>().prop_map(Act::Drain),
        5 => any::<u16>().prop_map(Act::DropHandle),
        2 => (any::<u16>(), any::<bool>()).prop_map(|(which, drain)| Act::DropBarrier { which, drain }),
        1 => any::<u16>().prop_map(|i| if i % 4 == 0 { Act::Kill(i) } else { Act::Poll(i) }),
    ]
}

pub fn strategy() -> BoxedStrategy<Scenario> {
    (
        prop::collection::vec(prop::collection::vec(arb_top(), 1..7), 1..5),
        prop::collection::vec(arb_build(), 0..4),
        prop::collection::vec(arb_act(), 3..40),
    )
        .prop_map(|(tasks, mut pre, acts)| {
            pre.extend(acts);
            Scenario { tasks, sched: pre }
        })
        .boxed()
}

/// `manual-burst`: same scenario type, interpreter and oracle as `manual`,
/// but the generator concentrates on piles of uncollected reports: scripts
/// made mostly of bursts, 1-3 barriers built up front (mostly Noop with wide
/// value sets), short schedules that poll the tasks and collect rarely.
/// The epilogue of `run` collects ALL reports of every barrier and compares
/// count and order with the model.
pub fn strategy_burst() -> BoxedStrategy<Scenario> {
    let top = prop_oneof![
        6 => arb_burst(40),
        2 => (arb_kind(), 0u8..4).prop_map(|(kind, v)| TOp::Trigger { kind, v }),
        1 => (arb_kind(), 0u8..4).prop_map(|(kind, v)| TOp::TriggerNoop { kind, v }),
        1 => Just(TOp::Bump),
    ];
    let react = prop_oneof![8 => Just(React::Noop), 2 => Just(React::Suspend), 1 => Just(React::Panic)];
    let set = prop_oneof![
        3 => Just(vec![0u8, 1, 2, 3]),
        3 => arb_set(),
    ];
    let build = (react, arb_kind(), set).prop_map(|(react, kind, set)| Act::Build { react, kind, set });
    let act = prop_oneof![
        12 => any::<u16>().prop_map(Act::Poll),
        2 => any::<u16>().prop_map(Act::Wait),
        2 => any::<u16>().prop_map(Act::Drain),
        2 => any::<u16>().prop_map(Act::DropHandle),
        1 => arb_build(),
        1 => (any::<u16>(), any::<bool>()).prop_map(|(which, drain)| Act::DropBarrier { which, drain }),
        1 => any::<u16>().prop_map(Act::CancelWait),
    ];
    (
        prop::collection::vec(prop::collection::vec(top, 1..5), 1..4),
        prop::collection::vec(build, 1..4),
        prop::collection::vec(act, 2..16),
    )
        .prop_map(|(tasks, mut pre, acts)| {
            pre.extend(acts);
            Scenario { tasks, sched: pre }
        })
        .boxed()
}

// ---------------------------------------------------------------------------
// Sub-check 2: Sim + fs corruption hook (synchronous trigger_noop path)
// ---------------------------------------------------------------------------

#[derive(Clone, Debug, Serialize, Deserialize)]
pub enum FsOp {
    /// kind: 0 std read_at, 1 std seek+Read::read, 2 std fs::read (whole file),
    /// 3 tokio File::read_at, 4 tokio fs::read (whole file), 5 tokio seek+AsyncRead
    Read { file: u16, kind: u8, off: u8, len: u8 },
    /// sleep one tick (moves the following reads to a later step)
    Sleep,
    /// the same read `n` times in a row (a read loop): with corruption on,
    /// up to `n` hook triggers pile up before the test can collect any
    ReadBurst { file: u16, kind: u8, off: u8, len: u8, n: u16 },
}

/// Interpreter-side bound on one read burst (replayed / fuzzed input).
const MAX_READ_BURST: u16 = 12_000;

#[derive(Clone, Debug, Serialize, Deserialize)]
pub struct FsHost {
    /// contents of /f0, /f1, ... on this host
    pub files: Vec<Vec<u8>>,
    pub ops: Vec<FsOp>,
}

#[derive(Clone, Debug, Serialize, Deserialize)]
pub enum FsAct {
    /// `Barrier::new(|c: &FsCorruption| c.path is /f<i> for i in files)` for `Noop`,
    /// `Barrier::build(Reaction::Panic / Suspend, ..)` otherwise: the hook's trigger is the
    /// synchronous `trigger_noop`, so a corrupted read whose earliest live matching barrier is
    /// a Panic barrier must panic ("Injected panic from barrier"), and one that meets a
    /// Suspend barrier panics too (rustdoc of `trigger_noop`: "will panic if used with a
    /// barrier configured with Reaction::Suspend")
    Build {
        files: Vec<u8>,
        #[serde(default)]
        react: React,
    },
    /// drain (poll wait() until Pending), compare, then drop a live barrier
    Drop(u16),
    /// drain a live barrier and compare with the model queue
    Drain(u16),
}

#[derive(Clone, Debug, Serialize, Deserialize)]
pub struct FsScenario {
    pub seed: u64,
    /// corruption_probability = p4/4 (1..=4)
    pub p4: u8,
    /// short_read_probability = short4/4 (0..=2)
    pub short4: u8,
    pub hosts: Vec<FsHost>,
    /// (before this step, action)
    pub acts: Vec<(u8, FsAct)>,
}

#[derive(Clone, Debug)]
struct ReadRec {
    step: u32,
    host: usize,
    file: usize,
    kind: u8,
    off: u64,
    want: usize,
    res: Result<usize, String>,
    /// indices (within the read) of bytes that differ from the file contents
    diffs: Vec<usize>,
    /// the read call panicked (message); `res` is then `Ok(0)` and means nothing
    panicked: Option<String>,
}

/// Polls the inner future under `catch_unwind`: a panic raised by a poll of the read future
/// (the fs shims do the read, and with it the corruption hook's trigger, inside the first
/// poll) becomes `Err(message)` in the host software instead of taking the whole task down.
struct CatchPoll<F: Future>(Pin<Box<F>>);

impl<F: Future> Future for CatchPoll<F> {
    type Output = Result<F::Output, String>;
    fn poll(mut self: Pin<&mut Self>, cx: &mut Context<'_>) -> Poll<Self::Output> {
        let inner = self.0.as_mut();
        match catch_unwind(AssertUnwindSafe(|| inner.poll(cx))) {
            Ok(Poll::Ready(v)) => Poll::Ready(Ok(v)),
            Ok(Poll::Pending) => Poll::Pending,
            Err(p) => {
                let _ = crate::engine::take_last_panic();
                Poll::Ready(Err(panic_text(p)))
            }
        }
    }
}

fn fpath(f: usize) -> String {
    format!("/f{f}")
}

async fn fs_host(
    host: usize,
    h: FsHost,
    short: bool,
    // some barrier of the scenario has a Panic / Suspend reaction
    reactive: bool,
    step: Rc<Cell<u32>>,
    log: Rc<RefCell<Vec<ReadRec>>>,
) -> turmoil::Result {
    use std::mem::ManuallyDrop;
    use std::io::{Read, Seek, SeekFrom};
    use std::os::unix::fs::FileExt;
    use tokio::io::{AsyncReadExt, AsyncSeekExt};
    use turmoil::fs::shim::std::fs as sfs;
    use turmoil::fs::shim::tokio::fs as tfs;

    for (f, content) in h.files.iter().enumerate() {
        sfs::write(fpath(f), content)?;
    }
    for op in &h.ops {
        let (file, kind, off, len, reps) = match *op {
            FsOp::Sleep => {
                tokio::time::sleep(Duration::from_millis(1)).await;
                continue;
            }
            FsOp::Read { file, kind, off, len } => (file, kind, off, len, 1u16),
            FsOp::ReadBurst { file, kind, off, len, n } => (file, kind, off, len, n.min(MAX_READ_BURST)),
        };
        for _ in 0..reps {
            {
                let f = pick(file, h.files.len());
                let content = &h.files[f];
                let path = fpath(f);
                let mut kind = kind % 6;
                if short && kind == 2 {
                    kind = 0; // whole-file helpers discard the short count
                }
                if short && kind == 4 {
                    kind = 3;
                }
                // A panic injected through the hook unwinds out of the shim while it holds the
                // host's Fs lock and poisons it; a shim `File` dropped during that unwind
                // panics again in `File::drop` ("Fs mutex poisoned") and the double panic
                // aborts the process.  The whole-file helpers own such a handle internally, so
                // with a Panic / Suspend barrier in the scenario only the handle-based read
                // paths are used, through handles that are never dropped by an unwind
                // (`ManuallyDrop`; dropped by hand after a read that returned).
                if reactive && kind == 2 {
                    kind = 0;
                }
                if reactive && kind == 4 {
                    kind = 3;
                }
                let (off, want) = if kind == 2 || kind == 4 {
                    (0u64, content.len())
                } else {
                    (off as u64, len as usize)
                };
                let at = step.get();
                let mut buf = vec![0u8; want];
                let mut panicked: Option<String> = None;
                let mut sync_read = |f: &mut dyn FnMut() -> std::io::Result<usize>| -> std::io::Result<usize> {
                    match catch_unwind(AssertUnwindSafe(|| f())) {
                        Ok(r) => r,
                        Err(p) => {
                            let _ = crate::engine::take_last_panic();
                            panicked = Some(panic_text(p));
                            Ok(0)
                        }
                    }
                };
                let res: std::io::Result<usize> = match kind {
                    0 => match sfs::File::open(&path) {
                        Ok(file) => {
                            let file = ManuallyDrop::new(file);
                            let r = sync_read(&mut || file.read_at(&mut buf, off));
                            if panicked.is_none() {
                                drop(ManuallyDrop::into_inner(file));
                            }
                            r
                        }
                        Err(e) => Err(e),
                    },
                    1 => match sfs::File::open(&path) {
                        Ok(file) => {
                            let mut file = ManuallyDrop::new(file);
                            let r = match file.seek(SeekFrom::Start(off)) {
                                Ok(_) => sync_read(&mut || file.read(&mut buf)),
                                Err(e) => Err(e),
                            };
                            if panicked.is_none() {
                                drop(ManuallyDrop::into_inner(file));
                            }
                            r
                        }
                        Err(e) => Err(e),
                    },
                    2 => sync_read(&mut || {
                        sfs::read(&path).map(|v| {
                            buf = v;
                            buf.len()
                        })
                    }),
                    3 => match tfs::File::open(&path).await {
                        Ok(file) => {
                            let file = ManuallyDrop::new(file);
                            let r = match CatchPoll(Box::pin(file.read_at(&mut buf, off))).await {
                                Ok(r) => r,
                                Err(m) => {
                                    panicked = Some(m);
                                    Ok(0)
                                }
                            };
                            if panicked.is_none() {
                                drop(ManuallyDrop::into_inner(file));
                            }
                            r
                        }
                        Err(e) => Err(e),
                    },
                    4 => match CatchPoll(Box::pin(tfs::read(&path))).await {
                        Ok(r) => r.map(|v| {
                            buf = v;
                            buf.len()
                        }),
                        Err(m) => {
                            panicked = Some(m);
                            Ok(0)
                        }
                    },
                    _ => match tfs::File::open(&path).await {
                        Ok(file) => {
                            let mut file = ManuallyDrop::new(file);
                            let r = match file.seek(SeekFrom::Start(off)).await {
                                Ok(_) => match CatchPoll(Box::pin(file.read(&mut buf))).await {
                                    Ok(r) => r,
                                    Err(m) => {
                                        panicked = Some(m);
                                        Ok(0)
                                    }
                                },
                                Err(e) => Err(e),
                            };
                            if panicked.is_none() {
                                drop(ManuallyDrop::into_inner(file));
                            }
                            r
                        }
                        Err(e) => Err(e),
                    },
                };
                let mut diffs = Vec::new();
                if let Ok(n) = &res {
                    for k in 0..(*n).min(buf.len()) {
                        let expect = content.get(off as usize + k).copied();
                        if expect != Some(buf[k]) {
                            diffs.push(k);
                        }
                    }
                }
                log.borrow_mut().push(ReadRec {
                    step: at,
                    host,
                    file: f,
                    kind,
                    off,
                    want,
                    res: res.map_err(|e| e.to_string()),
                    diffs,
                    panicked: panicked.clone(),
                });
                if panicked.is_some() {
                    // The unwind went through the shim holding this host's Fs lock (poisoned
                    // on return): this host makes no further fs call and drops no handle.
                    return Ok(());
                }
            }
        }
    }
    Ok(())
}

#[derive(Clone, Debug, PartialEq, Eq)]
struct Ev {
    path: String,
    offset: u64,
    len: usize,
}

struct FsBarrier {
    slot: Option<Slot<FsCorruption>>,
    waker: Arc<CountWaker>,
    files: Vec<u8>,
    react: React,
    created: u32,
    /// step before which it was dropped
    dropped: Option<u32>,
    seen: Vec<Ev>,
    live: bool,
    /// steps before which the barrier was drained (collects the events of
    /// all earlier steps)
    drains: Vec<u32>,
}

pub fn run_fs(sc: &FsScenario) -> Outcome {
    let mut out = Outcome::ok();
    let p = sc.p4.clamp(1, 4) as f64 / 4.0;
    let sp = sc.short4.min(2) as f64 / 4.0;
    let mut b = turmoil::Builder::new();
    b.rng_seed(sc.seed)
        .epoch(std::time::UNIX_EPOCH + Duration::from_secs(1_700_000_000))
        .tick_duration(Duration::from_millis(1))
        .simulation_duration(Duration::from_secs(120));
    b.fs().corruption_probability(p).short_read_probability(sp);
    let mut sim = b.build();
    let step = Rc::new(Cell::new(0u32));
    let log: Rc<RefCell<Vec<ReadRec>>> = Rc::new(RefCell::new(Vec::new()));
    let reactive = sc.acts.iter().any(|(_, a)| matches!(a, FsAct::Build { react, .. } if *react != React::Noop));
    for (i, h) in sc.hosts.iter().enumerate() {
        sim.client(
            format!("h{i}"),
            fs_host(i, h.clone(), sp > 0.0, reactive, step.clone(), log.clone()),
        );
    }

    // barriers are owned here: dropped on every exit path (RAII)
    let mut bars: Vec<FsBarrier> = Vec::new();
    let drain = |fb: &mut FsBarrier| -> Result<(), Fail> {
        let waker = Waker::from(fb.waker.clone());
        let mut cx = Context::from_waker(&waker);
        loop {
            let Some(slot) = fb.slot.as_mut() else { return Ok(()) };
            match slot.poll_wait(&mut cx) {
                Poll::Pending => return Ok(()),
                Poll::Ready(None) => {
                    return Err((
                        "fs-hook: wait returned None on a live barrier".into(),
                        String::new(),
                    ))
                }
                Poll::Ready(Some(h)) => fb.seen.push(Ev {
                    path: h.path.to_string_lossy().to_string(),
                    offset: h.offset,
                    len: h.len,
                }),
            }
        }
    };
    let mut acts = sc.acts.clone();
    acts.sort_by_key(|(s, _)| *s); // stable: equal steps keep generated order
    let mut next_act = 0;
    let mut fail: Option<Fail> = None;
    let mut finished = false;
    const MAX_STEPS: u32 = 400;
    'steps: for s in 0..MAX_STEPS {
        step.set(s);
        while next_act < acts.len() && (acts[next_act].0 as u32 <= s || finished) {
            let live: Vec<usize> = (0..bars.len()).filter(|&i| bars[i].live).collect();
            match &acts[next_act].1 {
                FsAct::Build { files, react } => {
                    let set: Vec<String> = files.iter().map(|f| fpath(*f as usize)).collect();
                    let cond = move |c: &FsCorruption| set.iter().any(|p| c.path == std::path::Path::new(p));
                    let bar = match react {
                        React::Noop => Barrier::new(cond),
                        r => Barrier::build(r.real(), cond),
                    };
                    bars.push(FsBarrier {
                        slot: Some(Slot::new(bar)),
                        waker: new_waker(),
                        files: files.clone(),
                        react: *react,
                        created: s,
                        dropped: None,
                        seen: Vec::new(),
                        live: true,
                        drains: Vec::new(),
                    });
                }
                FsAct::Drain(i) if !live.is_empty() => {
                    let k = live[pick(*i, live.len())];
                    bars[k].drains.push(s);
                    if let Err(f) = drain(&mut bars[k]) {
                        fail = Some(f);
                        break 'steps;
                    }
                }
                FsAct::Drop(i) if !live.is_empty() => {
                    let k = live[pick(*i, live.len())];
                    bars[k].drains.push(s);
                    if let Err(f) = drain(&mut bars[k]) {
                        fail = Some(f);
                        break 'steps;
                    }
                    bars[k].live = false;
                    bars[k].dropped = Some(s);
                    // free the real barrier now; keep the record
                    bars[k].slot = None;
                }
                _ => {}
            }
            next_act += 1;
        }
        if finished {
            break;
        }
        match sim.step() {
            Ok(true) => finished = true,
            Ok(false) => {}
            Err(e) => {
                fail = Some((
                    "fs-hook: simulation/host failed".into(),
                    format!("step {s}: {e}"),
                ));
                break;
            }
        }
    }
    if fail.is_none() && !finished {
        fail = Some((
            "fs-hook: hosts did not finish".into(),
            format!("after {MAX_STEPS} steps"),
        ));
    }
    if fail.is_none() {
        for fb in bars.iter_mut().filter(|b| b.live) {
            if let Err(f) = drain(fb) {
                fail = Some(f);
                break;
            }
        }
    }

    // ---- oracle
    let log = log.borrow();
    let mut usable = true;
    let mut model: Vec<Vec<Ev>> = vec![Vec::new(); bars.len()];
    // step of every model event (parallel to `model`)
    let mut model_step: Vec<Vec<u32>> = vec![Vec::new(); bars.len()];
    let (mut events, mut unobserved, mut overlap, mut reads_n0, mut delivered) = (0u64, 0u64, 0u64, 0u64, 0u64);
    let (mut panicked_by_panic, mut panicked_by_suspend, mut shadowed) = (0u64, 0u64, 0u64);
    // a clause about Panic / Suspend barriers that rests on the reads' own corruption
    // detection: only raised when the per-read oracle is usable
    let mut react_fail: Option<Fail> = None;
    // barriers live during step `st` whose condition matches file `f`, in creation order
    let matching_at = |st: u32, f: usize| -> Vec<usize> {
        (0..bars.len())
            .filter(|&k| bars[k].created <= st && bars[k].dropped.map(|d| st < d).unwrap_or(true) && bars[k].files.contains(&(f as u8)))
            .collect()
    };
    if fail.is_none() {
        for r in log.iter() {
            let flen = sc.hosts[r.host].files[r.file].len();
            if let Some(msg) = &r.panicked {
                // "a Panic barrier panics the triggering code": the only admissible cause of a
                // panicking read is a corruption event whose earliest live matching barrier has
                // the Panic reaction (or Suspend: documented panic of trigger_noop)
                let m = matching_at(r.step, r.file);
                let first = m.first().map(|&k| bars[k].react);
                let (want, sig): (&str, &str) = match first {
                    Some(React::Panic) => {
                        panicked_by_panic += 1;
                        (MSG_PANIC, "fs-hook: read hit a Panic barrier but panicked with another message")
                    }
                    Some(React::Suspend) => {
                        panicked_by_suspend += 1;
                        (MSG_NOOP_ON_SUSPEND, "fs-hook: read hit a Suspend barrier but panicked with another message")
                    }
                    _ => {
                        fail = Some((
                            "fs-hook: read panicked although its earliest live matching barrier is not a Panic/Suspend barrier".into(),
                            format!("{r:?}: earliest live matching barrier {:?} (matching {m:?})", first),
                        ));
                        break;
                    }
                };
                if !msg.contains(want) {
                    fail = Some((sig.into(), format!("{r:?}: expected a message containing {want:?}")));
                    break;
                }
                if m.len() >= 2 {
                    overlap += 1;
                }
                // nothing is reported for it: the panic is raised before the value is sent
                continue;
            }
            match &r.res {
                Err(e) => {
                    fail = Some((
                        "fs-hook: read failed".into(),
                        format!("{r:?}: {e}"),
                    ));
                    break;
                }
                Ok(n) => {
                    let full = r.want.min(flen.saturating_sub(r.off as usize));
                    if sp == 0.0 && *n != full {
                        // not C20's business; the per-read oracle is unusable
                        usable = false;
                        out.label("fs: unexpected read count (oracle unusable)");
                    }
                    if *n == 0 {
                        reads_n0 += 1;
                    }
                    if r.diffs.len() > 1 {
                        usable = false;
                        out.label("fs: more than one corrupted byte in a read (oracle unusable)");
                    }
                    if r.diffs.len() == 1 {
                        events += 1;
                        let ev = Ev {
                            path: fpath(r.file),
                            offset: r.off + r.diffs[0] as u64,
                            len: 1,
                        };
                        // earliest-created barrier live during step r.step
                        let matching: Vec<usize> = matching_at(r.step, r.file);
                        if matching.len() >= 2 {
                            overlap += 1;
                        }
                        if matching.iter().skip(1).any(|&k| bars[k].react != React::Noop) && bars[matching[0]].react == React::Noop {
                            shadowed += 1;
                        }
                        match matching.first() {
                            Some(&k) if bars[k].react != React::Noop => {
                                // the read experienced the corruption (so the hook fired its
                                // trigger) and came back
                                if react_fail.is_none() {
                                    react_fail = Some((
                                        match bars[k].react {
                                            React::Panic => "fs-hook: corrupted read returned normally although its earliest live matching barrier has the Panic reaction",
                                            _ => "fs-hook: corrupted read returned normally although its earliest live matching barrier has the Suspend reaction (trigger_noop is documented to panic)",
                                        }
                                        .into(),
                                        format!("{r:?}: barrier #{k} (files {:?}, created before step {}, dropped before step {:?}); event {ev:?}", bars[k].files, bars[k].created, bars[k].dropped),
                                    ));
                                }
                            }
                            Some(&k) => {
                                delivered += 1;
                                model[k].push(ev);
                                model_step[k].push(r.step);
                            }
                            None => unobserved += 1,
                        }
                    }
                }
            }
        }
    }
    if fail.is_none() && usable {
        fail = react_fail;
    }
    if fail.is_none() && usable {
        for (k, fb) in bars.iter().enumerate() {
            if fb.seen != model[k] {
                let sig = if fb.seen.len() < model[k].len() {
                    "fs-hook: corruption event not reported to the earliest live matching barrier"
                } else if fb.seen.len() > model[k].len() {
                    "fs-hook: barrier reported more corruption events than the reads experienced"
                } else {
                    "fs-hook: reported corruption events differ from what the reads experienced"
                };
                // first position where the two sequences part, with a window
                // around it (a barrier can have thousands of events)
                let at = fb
                    .seen
                    .iter()
                    .zip(model[k].iter())
                    .position(|(a, b)| a != b)
                    .unwrap_or(fb.seen.len().min(model[k].len()));
                let win = |v: &[Ev]| -> String {
                    let lo = at.saturating_sub(2).min(v.len());
                    let hi = (at + 4).min(v.len());
                    format!("[{lo}..{hi}] = {:?}", &v[lo..hi])
                };
                let reads: String = if log.len() <= 48 {
                    format!("{:?}", &*log)
                } else {
                    format!("{} reads, first 12: {:?}", log.len(), &log[..12])
                };
                fail = Some((
                    sig.into(),
                    format!(
                        "barrier #{k} (files {:?}, created before step {}, dropped before step {:?}): reported {} event(s), reads experienced {}; sequences part at index {at}: reported{}, experienced{}; read log {reads}",
                        fb.files,
                        fb.created,
                        fb.dropped,
                        fb.seen.len(),
                        model[k].len(),
                        win(&fb.seen),
                        win(&model[k]),
                    ),
                ));
                break;
            }
        }
    }
    // largest number of events one barrier had to hold before a drain
    // collected them (model side)
    let mut max_batch = 0usize;
    for (k, fb) in bars.iter().enumerate() {
        let mut from = 0usize;
        for d in fb.drains.iter().copied().chain(std::iter::once(u32::MAX)) {
            let upto = from + model_step[k][from..].iter().take_while(|&&st| st < d).count();
            max_batch = max_batch.max(upto - from);
            from = upto;
        }
    }
    out.label(match max_batch {
        0 => "fs: uncollected high-water 0",
        1..=8 => "fs: uncollected high-water 1-8",
        9..=99 => "fs: uncollected high-water 9-99",
        100..=1023 => "fs: uncollected high-water 100-1023",
        1024 => "fs: uncollected high-water 1024",
        1025..=4095 => "fs: uncollected high-water 1025-4095",
        _ => "fs: uncollected high-water >=4096",
    });
    if sc.hosts.iter().any(|h| h.ops.iter().any(|o| matches!(o, FsOp::ReadBurst { .. }))) {
        out.label("fs: read burst");
    }
    out.nontrivial = delivered > 0 && (unobserved > 0 || overlap > 0);
    out.count("fs: corruption events experienced by reads", events);
    out.count("fs: events delivered to a barrier", delivered);
    out.count("fs: events with no live matching barrier", unobserved);
    out.count("fs: reads", log.len() as u64);
    if delivered > 0 {
        out.label("fs: delivered");
    }
    if unobserved > 0 {
        out.label("fs: event without live barrier");
    }
    if overlap > 0 {
        out.label("fs: overlap-hit");
    }
    out.count("fs: reads panicked by a Panic barrier", panicked_by_panic);
    out.count("fs: reads panicked by a Suspend barrier (trigger_noop)", panicked_by_suspend);
    if panicked_by_panic > 0 {
        out.label("fs: read panicked by Panic barrier");
    }
    if panicked_by_suspend > 0 {
        out.label("fs: read panicked by Suspend barrier");
    }
    if shadowed > 0 {
        out.label("fs: Panic/Suspend barrier shadowed by an earlier Noop barrier (event delivered)");
    }
    if (panicked_by_panic > 0 || panicked_by_suspend > 0) && delivered > 0 {
        out.label("fs: delivered and panicked in one run");
    }
    for k in 0..6u8 {
        if log.iter().any(|r| r.kind == k && r.panicked.is_some()) {
            out.label(format!("fs: panicked read kind {k}"));
        }
    }
    if reads_n0 > 0 {
        out.label("fs: zero-length read (no event)");
    }
    if bars.iter().any(|b| b.dropped.is_some()) {
        out.label("fs: barrier dropped mid-run");
    }
    if sc.hosts.len() > 1 {
        out.label("fs: 2 hosts");
    }
    if sp > 0.0 {
        out.label("fs: short reads on");
    }
    if p < 1.0 {
        out.label("fs: p<1");
    }
    for k in 0..6u8 {
        if log.iter().any(|r| r.kind == k && r.diffs.len() == 1) {
            out.label(format!("fs: corrupted read kind {k}"));
        }
    }
    if let Some((sig, det)) = fail {
        out.fail(sig, det);
    }
    drop(log);
    drop(bars);
    drop(sim);
    out
}

fn arb_fsop() -> impl Strategy<Value = FsOp> {
    prop_oneof![
        10 => (any::<u16>(), 0u8..6, 0u8..20, 0u8..20).prop_map(|(file, kind, off, len)| FsOp::Read { file, kind, off, len }),
        6 => Just(FsOp::Sleep),
        // mostly reads that start inside the file (off small, len >= 1) so
        // that a burst really produces events
        1 => (any::<u16>(), 0u8..6, prop_oneof![3 => Just(0u8), 1 => 0u8..20], 1u8..20, arb_burst_len(25))
            .prop_map(|(file, kind, off, len, n)| FsOp::ReadBurst { file, kind, off, len, n }),
    ]
}

fn arb_fshost() -> impl Strategy<Value = FsHost> {
    (
        prop::collection::vec(prop::collection::vec(any::<u8>(), 0..16), 1..4),
        prop::collection::vec(arb_fsop(), 1..10),
    )
        .prop_map(|(files, ops)| FsHost { files, ops })
}

fn arb_fsact() -> impl Strategy<Value = FsAct> {
    prop_oneof![
        6 => (1u8..8, prop_oneof![8 => Just(React::Noop), 2 => Just(React::Panic), 1 => Just(React::Suspend)])
            .prop_map(|(mask, react)| FsAct::Build { files: (0u8..3).filter(|b| mask & (1 << b) != 0).collect(), react }),
        2 => any::<u16>().prop_map(FsAct::Drop),
        2 => any::<u16>().prop_map(FsAct::Drain),
    ]
}

pub fn strategy_fs() -> BoxedStrategy<FsScenario> {
    (
        any::<u64>(),
        prop_oneof![6 => Just(4u8), 2 => Just(2u8), 1 => Just(1u8)],
        prop_oneof![5 => Just(0u8), 1 => Just(2u8)],
        prop::collection::vec(arb_fshost(), 1..3),
        prop::collection::vec((prop_oneof![3 => Just(0u8), 3 => 0u8..5], arb_fsact()), 0..7),
    )
        .prop_map(|(seed, p4, short4, hosts, acts)| FsScenario {
            seed,
            p4,
            short4,
            hosts,
            acts,
        })
        .boxed()
}

// ---------------------------------------------------------------------------

fn check(tier: Tier, seed: u64) -> i32 {
    let ctx = Ctx::new("C20", tier, seed, "exploration");
    ctx.replay_corpus(&replay);
    ctx.random("manual", tier.pick(400_000, 6_000_000), &|| strategy(), &run);
    ctx.random("manual-burst", tier.pick(30_000, 450_000), &|| strategy_burst(), &run);
    ctx.random("fs-hook", tier.pick(40_000, 600_000), &|| strategy_fs(), &run_fs);
    ctx.finish(
        "manual: 1-4 hand-polled trigger tasks (scripts of trigger().await / trigger_noop() / progress bumps / bursts of n identical async or synchronous triggers in a row, over 4 values x 2 trigger types; burst length 1-8 mostly, then 9-99 and a heavy tail 100, 255-257, 1000, 1023, 1024, 1025, ..2100, 3000, 4097, 10 000) interleaved by a generated schedule with test actions (build barrier with Noop/Suspend/Panic reaction and a value-set condition, poll wait(), cancel a pending wait(), drop a reported handle, drop a barrier with or without draining it, collect all reports of a barrier, cancel a task); a registry-list model (earliest-created live matching barrier receives the trigger, only it) is stepped in lock-step and compared after every action (task progress, panics, reported values and order, wake-ups), and an epilogue collects ALL remaining reports of every barrier (count and order against the model queues), drops everything and requires every remaining task to finish in one poll. Non-trivial = at least one trigger matched >= 2 live barriers at once, or a Suspend handle was dropped after the suspended task had been polled again at least once while held. manual-burst: same interpreter and oracle, generator concentrated on piles of uncollected reports (scripts mostly bursts, 1-3 barriers built up front, mostly Noop with wide sets, short schedules that collect rarely); the class labels give the largest number of uncollected reports on one barrier and the async / trigger_noop deliveries made onto >= 1024 uncollected reports. fs-hook: Sim with corruption_probability 1.0/0.5/0.25, 1-2 hosts reading 1-3 files through six std/tokio shim read paths (single reads and read loops of 1-10 000 identical reads), Barrier<FsCorruption> built (reaction Noop 8 : Panic 2 : Suspend 1)/drained/dropped between steps; every read call runs under catch_unwind in the host software: a read that panics must have a Panic (message 'Injected panic from barrier') or Suspend (documented trigger_noop panic) barrier as its earliest live matching barrier, a read that comes back corrupted must not, and nothing is reported for a panicked read; a host stops after its first panicked read; non-trivial = an event was delivered and (another event had no live matching barrier or two live barriers overlapped). Distinct by scenario hash.",
        &[
            "panic messages checked are the ones pinned by crates/turmoil/tests/barriers.rs (should_panic expected strings)",
            "a task suspended on a trigger whose barrier is dropped before wait() reported it is outside the property (no handle was ever reported): the model follows whatever the implementation does with that task",
            "trigger_noop against a Suspend barrier is generated as an expected-panic step of a task (documented panic) and, in fs-hook, as a Suspend barrier matching FsCorruption (the hook's trigger is trigger_noop, whose rustdoc says it panics on a Suspend barrier): the corrupted read must panic with that message",
            "fs-hook with a Panic/Suspend barrier in the scenario: the injected panic unwinds out of the fs shim while it holds the host's Fs lock (poisoned afterwards) and a shim File dropped by that unwind would panic again and abort the process, so these scenarios use only the handle-based read paths (whole-file helpers fs::read are mapped to read_at), keep the handle out of the unwind (ManuallyDrop) and the host makes no further fs call after its first panicked read",
            "fs-hook: reads detect corruption themselves by comparing with the known file contents; exactly one differing byte = one corruption event at offset read_offset+index, len 1",
            "fs-hook: only the turmoil-fs shim read paths are exercised; io_uring ring reads do not fire the hook (TODO in turmoil-io-uring/src/sim.rs) and make no trigger call, so they are outside this property",
            "no bound on the number of uncollected reports per barrier is documented (barriers rustdoc: Noop = 'source code continues immediately after trigger', trigger_noop = 'notify barriers about events without suspending execution'; property: 'a Noop barrier never blocks it', 'reported exactly once'), so the model queues are unbounded; bursts are capped at 12 000 triggers and 40 000 expanded steps per task",
            "futures are polled outside a tokio runtime (no coop budget), one thread per worker, registry is thread-local",
        ],
    )
}

fn replay(sub: &str, v: &Value) -> Result<Outcome, String> {
    let sub = sub.strip_prefix("replay:").unwrap_or(sub);
    if sub.starts_with("fs") {
        replay_as::<FsScenario>(v, &run_fs)
    } else {
        replay_as::<Scenario>(v, &run)
    }
}

// ---------------------------------------------------------------- coverage-guided tier

/// Fuzz-tier bounds (sub-domain of `strategy()`): one burst expands to at most
/// 1100 triggers and all scripts of a case together to at most 2400 steps
/// (two full bursts: a queue can pass 1024 and 2048 uncollected reports).
const FUZZ_MAX_BURST: u16 = 1100;
const FUZZ_MAX_STEPS: usize = 2400;

/// Clamp a byte-decoded scenario (engine::bytesde) into the domain of `strategy()` (sub
/// `manual`):
/// * 1..=4 tasks of 1..=6 ops; trigger type `kind` in {0,1}, value `v` in 0..4; burst
///   length out of `arb_burst_len`'s set restricted to <= 1100, i.e. 1..=99, 100, 255,
///   256, 257, 1000, 1023, 1024, 1025, 1026..=1100 (1101..=2100, 3000, 4097 and 10 000
///   are left to the random tier); the expanded steps of all scripts together stay
///   <= 2400 — a burst that does not fit is shortened to the largest admissible length
///   that does, or becomes a Bump when nothing is left;
/// * schedule: 3..=16 actions (the generator makes 0..=3 builds ++ 3..=39 of `arb_act`,
///   and `arb_act` contains `arb_build`, so every sequence of 3..=39 admissible actions
///   is in its domain; a shorter one is padded with Poll(0)); Build: kind in {0,1}, set =
///   ascending duplicate-free subset of 0..4 (the empty set is generated too); Kill only
///   with an index divisible by 4 (otherwise it is a Poll, as in `arb_act`); every other
///   index is any u16.
pub fn fuzz_sanitize(sc: &mut Scenario) -> bool {
    // admissible burst lengths between 100 and FUZZ_MAX_BURST, ascending
    fn tail() -> Vec<u16> {
        let mut t = vec![100u16, 255, 256, 257, 1000, 1023, 1024, 1025];
        t.extend(1026..=FUZZ_MAX_BURST);
        t
    }
    // largest admissible length <= cap (cap >= 1)
    fn fit(cap: usize, tail: &[u16]) -> u16 {
        if cap <= 99 {
            return cap as u16;
        }
        tail.iter().copied().filter(|&x| x as usize <= cap).max().unwrap_or(99)
    }
    let tail = tail();
    sc.tasks.truncate(4);
    if sc.tasks.is_empty() {
        sc.tasks.push(Vec::new());
    }
    // The byte decoder picks enum variants and small integers uniformly; the generator
    // prefers the first trigger type (9:1), plain `trigger().await` steps, short bursts
    // (1..=8 mostly) and Noop / Suspend reactions.  Spare bits of the decoded bytes
    // make a similar split; every value produced is inside the generator's domain.
    let kind_of = |k: u8| (k % 8 == 7) as u8;
    let mut budget = FUZZ_MAX_STEPS;
    for ops in sc.tasks.iter_mut() {
        ops.truncate(6);
        if ops.is_empty() {
            ops.push(TOp::Bump);
        }
        for op in ops.iter_mut() {
            // three quarters of the decoded trigger_noop steps become trigger().await
            if let TOp::TriggerNoop { kind, v } = *op {
                if (v >> 2) % 4 != 0 {
                    *op = TOp::Trigger { kind, v };
                }
            }
            match op {
                TOp::Trigger { kind, v } | TOp::TriggerNoop { kind, v } => {
                    *kind = kind_of(*kind);
                    *v %= 4;
                    budget = budget.saturating_sub(1);
                }
                TOp::Bump => budget = budget.saturating_sub(1),
                TOp::Burst { kind, v, n, .. } => {
                    *kind = kind_of(*kind);
                    *v %= 4;
                    let (lo, hi) = ((*n & 0xff) as usize, *n >> 8);
                    let want = match hi % 8 {
                        0..=4 => 1 + (lo % 8) as u16,
                        5 | 6 => 9 + (lo % 91) as u16,
                        _ => tail[lo % tail.len()],
                    };
                    if budget == 0 {
                        *op = TOp::Bump;
                    } else {
                        *n = fit((want as usize).min(budget), &tail);
                        budget -= *n as usize;
                    }
                }
            }
        }
    }
    sc.sched.truncate(39);
    for a in sc.sched.iter_mut() {
        // as `arb_act` does: a Kill whose index is not divisible by 4 is a Poll
        if let Act::Kill(i) = *a {
            if i % 4 != 0 {
                *a = Act::Poll(i);
            }
        }
        match a {
            Act::Build { react, kind, set } => {
                // three quarters of the decoded Panic reactions become Noop / Suspend
                if *react == React::Panic && (*kind >> 3) % 4 != 0 {
                    *react = if (*kind >> 5) & 1 == 0 { React::Noop } else { React::Suspend };
                }
                *kind = kind_of(*kind);
                let mask = set.iter().fold(0u8, |m, b| m | 1 << (b % 4));
                *set = (0u8..4).filter(|b| mask & (1 << b) != 0).collect();
            }
            Act::Kill(_) | Act::Poll(_) | Act::Wait(_) | Act::CancelWait(_) | Act::DropHandle(_) | Act::Drain(_) | Act::DropBarrier { .. } => {}
        }
    }
    while sc.sched.len() < 3 {
        sc.sched.push(Act::Poll(0));
    }
    true
}

//! C02 — turmoil::net TCP delivers an intact, ordered byte stream and then
//! EOF.  DESIGN.md §6 C02.  SimDriver + byte-FIFO model per direction and per
//! connection (sequences of connections between the same two endpoints).

use crate::engine::{replay_as, Ctx, Outcome, Tier};
use proptest::prelude::*;
use serde::{Deserialize, Serialize};
use serde_json::Value;
use std::cell::RefCell;
use std::rc::Rc;
use std::time::{Duration, SystemTime};
use tokio::io::{AsyncRead, AsyncReadExt, AsyncWrite, AsyncWriteExt};
use turmoil::net::{TcpListener, TcpStream};

pub const PROP: super::Prop = super::Prop {
    id: "C02",
    level: "exploration",
    check,
    replay,
};

#[derive(Clone, Copy, Debug, Serialize, Deserialize, PartialEq, Eq)]
pub enum PeerKind {
    Remote,
    SameHostOwnAddr,
    Loopback,
}

#[derive(Clone, Copy, Debug, Serialize, Deserialize, PartialEq, Eq)]
pub enum Mode {
    /// TcpStream::into_split, reader and writer in separate tasks
    IntoSplit,
    /// tokio::io::split over the whole TcpStream, two tasks
    TokioSplit,
    /// one task: try_write+writable for all writes, shutdown, then read/peek to EOF
    WholeSeq,
}

#[derive(Clone, Copy, Debug, Serialize, Deserialize, PartialEq, Eq)]
pub enum Close {
    Shutdown,
    DropWriteHalf,
}

/// When an endpoint writes relative to its reading.
#[derive(Clone, Copy, Debug, Default, Serialize, Deserialize, PartialEq, Eq)]
pub enum Reply {
    /// split modes: reader and writer run concurrently; WholeSeq: all writes + shutdown, then reads
    #[default]
    Concurrent,
    /// request/response: the endpoint first reads (to EOF, or to its `reader_quits_after` count
    /// without ever reading the EOF), waits `linger_ms`, only then writes its chunks (the reply),
    /// closes per `close` and drops the stream / both halves (order: `half_drop`)
    AfterRead,
}

/// Order in which a replying endpoint (Reply::AfterRead) lets go of its two halves.
#[derive(Clone, Copy, Debug, Default, Serialize, Deserialize, PartialEq, Eq)]
pub enum HalfDrop {
    /// after the reply: read half, then write half (WholeSeq: the whole stream at once)
    #[default]
    ReadThenWrite,
    /// after the reply: write half, then read half
    WriteThenRead,
    /// into_split only: the read half is dropped as soon as the reader is done, BEFORE the reply
    /// is written through the surviving write half (other modes: as ReadThenWrite)
    ReadBeforeReply,
}

/// One step of an endpoint's close sequence, executed by its writer once all chunks are written.
#[derive(Clone, Copy, Debug, Serialize, Deserialize, PartialEq, Eq)]
pub enum CloseStep {
    /// `shutdown().await` on the write half / whole stream (a repeated shutdown is allowed to fail)
    Shutdown,
    /// drop the write half (into_split: FIN if not shut down yet; tokio::io::split: no effect on
    /// the stream until the read half goes too; whole stream: not applicable, skipped)
    DropWrite,
    /// sleep this many ms
    Wait(u8),
}

/// When an endpoint whose reader has finished (EOF read) lets go of its read half.
#[derive(Clone, Copy, Debug, Default, Serialize, Deserialize, PartialEq, Eq)]
pub enum ReadDrop {
    /// wait for the writer's close sequence, then read half, then (if still alive) write half
    #[default]
    AfterWriter,
    /// at once, while the writer task may still be writing / closing
    WhenDone,
    /// wait for the writer's close sequence, then (if still alive) write half, then read half
    AfterWriterWriteFirst,
    /// into_split only: wait for the writer, `reunite` the halves (if the write half is still
    /// alive) and drop the whole stream
    Reunite,
}

#[derive(Clone, Debug, Serialize, Deserialize)]
pub struct Side {
    pub mode: Mode,
    /// sizes of successive write calls (one write / try_write call each; heavy-tailed: mostly
    /// 1..16, a few up to 4 KiB, rarely one around / above 64 KiB up to 1 MiB)
    pub chunks: Vec<u32>,
    /// pause (ms) before write i (cycled)
    pub write_pauses: Vec<u8>,
    pub close: Close,
    /// (buffer size, peek first?, pause ms before) cycled until EOF
    pub reads: Vec<(u32, bool, u8)>,
    /// stop reading after this many bytes and drop the stream (abortive if data unread)
    pub reader_quits_after: Option<u32>,
    /// ms the reader waits before its first read (slow reader => back-pressure)
    pub reader_delay: u16,
    #[serde(default)]
    pub reply: Reply,
    #[serde(default)]
    pub half_drop: HalfDrop,
    /// Reply::AfterRead: ms between the end of reading and the reply (lets the peer's FIN arrive
    /// and sit unread in the receive queue)
    #[serde(default)]
    pub linger_ms: u16,
    /// close sequence of the write side; empty = the legacy single step given by `close`
    #[serde(default)]
    pub close_steps: Vec<CloseStep>,
    /// Reply::Concurrent split modes: when the read half is dropped once the reader is done
    #[serde(default)]
    pub read_drop: ReadDrop,
}

#[derive(Clone, Copy, Debug, Serialize, Deserialize, PartialEq, Eq)]
pub enum Fault {
    Hold,
    Release,
    Partition,
    Repair,
}

#[derive(Clone, Debug, Serialize, Deserialize)]
pub struct Scenario {
    pub tick_ms: u32,
    pub lat_min: u32,
    pub lat_max: u32,
    pub capacity: usize,
    pub v6: bool,
    pub seed: u64,
    pub peer: PeerKind,
    pub listen_localhost: bool,
    pub client: Side,
    pub server: Side,
    /// (after this many steps, fault) — Remote only
    pub faults: Vec<(u32, Fault)>,
    /// exhaustive tier: hold the link once connected, let the client emit its
    /// segments + FIN, then deliver the held messages in this order (indices
    /// into the client's emission order: 0..k-1 data, k = FIN), one per step
    pub manual_order: Option<Vec<usize>>,
    /// further connections between the same two endpoints, opened one after the
    /// other by the same client task to the same listener: connection k+1 is
    /// opened `gap_ms` after the client's endpoint of connection k has finished
    /// (0 = at once, typically while segments of connection k are still in
    /// flight).  Every connection is checked against the bytes written on THAT
    /// connection (each has its own byte pattern).
    #[serde(default)]
    pub followups: Vec<Followup>,
    /// assert every clause even where a finding that is still "known" would be tolerated
    #[serde(default)]
    pub strict: bool,
}

#[derive(Clone, Debug, Serialize, Deserialize)]
pub struct Followup {
    pub gap_ms: u16,
    pub client: Side,
    pub server: Side,
}

pub const MAX_FOLLOWUPS: usize = 3;

/// signature of finding F-C02-2
pub const LATE_FIN_SIG: &str = "reset-after-drop-with-nothing-unread-before-peer-fin-arrived";

/// A finding is tolerated only while /verif/known_findings.json lists it with status "known".
pub fn is_known(id: &str) -> bool {
    static KNOWN: std::sync::OnceLock<Vec<String>> = std::sync::OnceLock::new();
    KNOWN
        .get_or_init(|| {
            crate::engine::load_findings()
                .into_iter()
                .filter(|f| f.property == "C02" && f.status == "known")
                .map(|f| f.id)
                .collect()
        })
        .iter()
        .any(|k| k == id)
}

/// `dir` = direction (0 client->server, 1 server->client) + 2 * connection index;
/// the patterns of two different (connection, direction) streams differ in every byte
fn byte(dir: usize, i: usize) -> u8 {
    // the (i >> 16) term breaks the 64 KiB period of the first two (unchanged below 64 KiB)
    ((i.wrapping_mul(131)) ^ (dir * 17) ^ ((i >> 8).wrapping_mul(7)) ^ ((i >> 16).wrapping_mul(29)) ^ 0x5c) as u8
}

#[derive(Default, Debug)]
struct Dir {
    accepted: usize,
    consumed: usize,
    eof: bool,
    reader_error: Option<String>,
    writer_error: Option<String>,
    writer_closed: bool,
    would_block: u64,
    write_pending: u64,
    peeks: u64,
    reader_done: bool,
    writer_done: bool,
    /// the reader task of this direction has begun reading (it is not still busy with its own writes)
    reader_started: bool,
    reader_quit: bool,
    segments: u64,
    /// largest byte count a single write / try_write call accepted
    max_write: usize,
    /// largest byte count a single read call returned
    max_read: usize,
    /// the reader quit (stopped before EOF) at a moment when the writer of this direction had
    /// already closed its write side and every accepted byte had been consumed: nothing is unread
    /// at the quitter and nothing can arrive any more except the FIN => its drop is graceful
    quit_graceful: bool,
    /// simulated time at which the writer of this direction closed (FIN emitted)
    closed_at: Option<Duration>,
    /// simulated time at which the quitting reader of this direction dropped its read side
    read_dropped_at: Option<Duration>,
}

#[derive(Default)]
struct Shared {
    /// dir 0 = client->server, 1 = server->client
    dirs: [RefCell<Dir>; 2],
    fail: RefCell<Option<(String, String)>>,
    connect_err: RefCell<Option<String>>,
    connected: RefCell<bool>,
    /// index of this connection in the sequence (0 = first)
    conn: usize,
    /// the client's endpoint of this connection has returned (everything dropped)
    client_finished: RefCell<bool>,
    /// classification only: when this connection was opened, the previous one still had
    /// accepted bytes its reader had not consumed (in flight, parked or dropped unread)
    old_outstanding: RefCell<bool>,
    /// per endpoint (index = the direction it writes): the close events in execution order —
    /// "S" first shutdown, "S+" repeated shutdown, "DW" write half dropped, "EOF" the endpoint's
    /// reader read EOF, "DR" read half dropped, "D" whole stream dropped, "RU" halves reunited
    close_log: [RefCell<Vec<&'static str>>; 2],
    /// per endpoint: bytes its reader had consumed when its write half was dropped after an
    /// explicit shutdown while the read half was still alive
    read_at_shutdown_drop: [RefCell<Option<usize>>; 2],
}

impl Shared {
    fn fail(&self, sig: &str, detail: String) {
        let mut f = self.fail.borrow_mut();
        if f.is_none() {
            *f = Some((sig.to_string(), format!("connection #{}: {detail}", self.conn)));
        }
    }
    /// byte-pattern selector of direction `d` on this connection
    fn pat(&self, d: usize) -> usize {
        d + 2 * self.conn
    }
}

fn now() -> Duration {
    turmoil::sim_elapsed().unwrap_or_default()
}

/// the writer of direction `d` has closed its write side (shutdown returned / half about to drop)
fn mark_closed(sh: &Shared, d: usize) {
    let mut g = sh.dirs[d].borrow_mut();
    g.writer_closed = true;
    if g.closed_at.is_none() {
        g.closed_at = Some(now());
    }
}

/// the reader of direction `d` is about to drop its read side
fn note_read_drop(sh: &Shared, d: usize) {
    let mut g = sh.dirs[d].borrow_mut();
    if g.read_dropped_at.is_none() {
        g.read_dropped_at = Some(now());
    }
}

/// close event `ev` of the endpoint that writes direction `wd`
fn log_close(sh: &Shared, wd: usize, ev: &'static str) {
    sh.close_log[wd].borrow_mut().push(ev);
}

/// The close sequence the writer of `side` executes after its last chunk.  `legacy` is what the
/// endpoint shape did before close sequences existed (used when `close_steps` is empty, so old
/// replay files keep their meaning).  Normalisation of a generated sequence:
/// * nothing can follow the drop of the write half;
/// * a whole stream has no write half to drop (the step is skipped);
/// * the write half of tokio::io::split only closes the write side through shutdown: a shutdown
///   is put in front of a drop that has none before it;
/// * the sequence always closes the write side (a shutdown is appended otherwise), so that a
///   peer which reads to EOF before it replies is never left waiting.
fn close_plan(side: &Side, legacy: &[CloseStep]) -> Vec<CloseStep> {
    if side.close_steps.is_empty() {
        return legacy.to_vec();
    }
    let mut plan: Vec<CloseStep> = Vec::new();
    let mut shut = false;
    let mut dropped = false;
    for st in side.close_steps.iter().take(MAX_CLOSE_STEPS) {
        match st {
            CloseStep::Shutdown => {
                shut = true;
                plan.push(*st);
            }
            CloseStep::Wait(ms) => plan.push(CloseStep::Wait((*ms).min(MAX_CLOSE_WAIT))),
            CloseStep::DropWrite => match side.mode {
                Mode::WholeSeq => {}
                Mode::TokioSplit => {
                    if !shut {
                        plan.push(CloseStep::Shutdown);
                        shut = true;
                    }
                    plan.push(*st);
                    dropped = true;
                }
                Mode::IntoSplit => {
                    plan.push(*st);
                    dropped = true;
                }
            },
        }
        if dropped {
            break;
        }
    }
    let closes = shut || (dropped && side.mode == Mode::IntoSplit);
    if !closes {
        plan.push(CloseStep::Shutdown);
    }
    plan
}

pub const MAX_CLOSE_STEPS: usize = 5;
pub const MAX_CLOSE_WAIT: u8 = 40;

fn legacy_plan(close: Close) -> Vec<CloseStep> {
    match close {
        Close::Shutdown => vec![CloseStep::Shutdown],
        Close::DropWriteHalf => vec![CloseStep::DropWrite],
    }
}

async fn pause(ms: u8) {
    if ms > 0 {
        tokio::time::sleep(Duration::from_millis(ms as u64)).await;
    }
}

/// generic writer over any AsyncWrite: one `write` call per chunk (repeated for the rest after a
/// short write), then the close sequence `plan`.  Returns the write half unless the plan dropped it.
async fn writer<W: AsyncWrite + Unpin>(sh: Rc<Shared>, d: usize, mut w: W, side: Side, plan: Vec<CloseStep>) -> Option<W> {
    let mut off = 0usize;
    for (i, c) in side.chunks.iter().enumerate() {
        let p = if side.write_pauses.is_empty() { 0 } else { side.write_pauses[i % side.write_pauses.len()] };
        pause(p).await;
        let data: Vec<u8> = (0..*c as usize).map(|j| byte(sh.pat(d), off + j)).collect();
        let mut rest = &data[..];
        while !rest.is_empty() {
            // count a blocked write (Pending on first poll)
            let r = {
                let fut = w.write(rest);
                tokio::pin!(fut);
                match crate::drivers::sel::poll_once(&mut fut).await {
                    Some(r) => r,
                    None => {
                        sh.dirs[d].borrow_mut().write_pending += 1;
                        fut.await
                    }
                }
            };
            match r {
                Ok(0) => {
                    sh.dirs[d].borrow_mut().writer_error = Some("write returned 0".into());
                    sh.dirs[d].borrow_mut().writer_done = true;
                    return Some(w);
                }
                Ok(n) => {
                    if n > rest.len() {
                        sh.fail("write-returned-more-than-given", format!("dir {d}: wrote {n} of {}", rest.len()));
                    }
                    let mut g = sh.dirs[d].borrow_mut();
                    g.accepted += n;
                    g.segments += 1;
                    g.max_write = g.max_write.max(n);
                    off += n;
                    rest = &rest[n.min(rest.len())..];
                }
                Err(e) => {
                    let mut g = sh.dirs[d].borrow_mut();
                    g.writer_error = Some(format!("{:?}", e.kind()));
                    g.writer_done = true;
                    return Some(w);
                }
            }
        }
    }
    let mut w = Some(w);
    let mut shut = false;
    for st in plan {
        match st {
            CloseStep::Wait(ms) => pause(ms).await,
            CloseStep::Shutdown => {
                let Some(wr) = w.as_mut() else { continue };
                let res = wr.shutdown().await;
                if !shut {
                    if let Err(e) = res {
                        sh.dirs[d].borrow_mut().writer_error = Some(format!("shutdown {:?}", e.kind()));
                    }
                    mark_closed(&sh, d);
                    log_close(&sh, d, "S");
                    shut = true;
                } else {
                    // what a repeated shutdown returns is not part of the property
                    log_close(&sh, d, "S+");
                }
            }
            CloseStep::DropWrite => {
                if w.is_some() {
                    // into_split: the drop itself sends the FIN if there was no shutdown; tokio
                    // split: the plan has shut down before
                    mark_closed(&sh, d);
                    log_close(&sh, d, "DW");
                    let g = sh.dirs[1 - d].borrow();
                    if shut && !g.reader_done {
                        *sh.read_at_shutdown_drop[d].borrow_mut() = Some(g.consumed);
                    }
                    drop(g);
                    drop(w.take());
                }
            }
        }
    }
    // legacy shape: a tokio write half without shutdown closes when both halves are dropped,
    // which the caller does right after this returns
    mark_closed(&sh, d);
    sh.dirs[d].borrow_mut().writer_done = true;
    w
}

enum Peeker<'a> {
    Owned(&'a mut turmoil::net::tcp::OwnedReadHalf),
    Whole(&'a mut TcpStream),
    None,
}

/// check bytes read/peeked in direction d starting at `from`
fn check_bytes(sh: &Shared, d: usize, from: usize, got: &[u8], what: &str) -> bool {
    let acc = sh.dirs[d].borrow().accepted;
    if from + got.len() > acc {
        sh.fail(
            &format!("{what}-returned-bytes-never-written"),
            format!("dir {d}: {what} returned {} bytes at offset {from}, only {acc} accepted so far", got.len()),
        );
        return false;
    }
    for (j, b) in got.iter().enumerate() {
        if *b != byte(sh.pat(d), from + j) {
            sh.fail(
                &format!("{what}-bytes-differ-from-written-stream"),
                format!("dir {d}: {what} at stream offset {} returned {b:#x}, writer sent {:#x} (chunk of {} at {from})", from + j, byte(sh.pat(d), from + j), got.len()),
            );
            return false;
        }
    }
    true
}

async fn reader_loop<R: AsyncRead + Unpin>(
    sh: Rc<Shared>,
    d: usize,
    r: &mut R,
    side: &Side,
    mut peek: impl for<'a> FnMut(&'a mut R, usize) -> Option<std::pin::Pin<Box<dyn std::future::Future<Output = std::io::Result<Vec<u8>>> + 'a>>>,
) {
    if side.reader_delay > 0 {
        tokio::time::sleep(Duration::from_millis(side.reader_delay as u64)).await;
    }
    sh.dirs[d].borrow_mut().reader_started = true;
    let mut i = 0usize;
    let mut peek_saw_eof = false;
    loop {
        let (sz, pk, p) = if side.reads.is_empty() { (64u32, false, 0u8) } else { side.reads[i % side.reads.len()] };
        i += 1;
        pause(p).await;
        if let Some(q) = side.reader_quits_after {
            if sh.dirs[d].borrow().consumed >= q as usize {
                let mut g = sh.dirs[d].borrow_mut();
                g.reader_quit = true;
                g.quit_graceful = g.writer_closed && g.consumed == g.accepted;
                break;
            }
        }
        if pk {
            let consumed = sh.dirs[d].borrow().consumed;
            if let Some(f) = peek(r, sz as usize) {
                match f.await {
                    Ok(v) => {
                        sh.dirs[d].borrow_mut().peeks += 1;
                        if v.len() > sz as usize {
                            sh.fail("peek-returned-more-than-buffer", format!("dir {d}: {} > {sz}", v.len()));
                        }
                        if !check_bytes(&sh, d, consumed, &v, "peek") {
                            break;
                        }
                        if v.is_empty() && sz > 0 {
                            peek_saw_eof = true;
                        }
                    }
                    Err(e) => {
                        sh.dirs[d].borrow_mut().reader_error = Some(format!("peek {:?}", e.kind()));
                        break;
                    }
                }
            }
        }
        let mut buf = vec![0u8; sz as usize];
        match r.read(&mut buf).await {
            Ok(n) => {
                if n > sz as usize {
                    sh.fail("read-returned-more-than-buffer", format!("dir {d}: {n} > {sz}"));
                    break;
                }
                let consumed = sh.dirs[d].borrow().consumed;
                if n == 0 {
                    if sz == 0 {
                        // zero-length read: not EOF; avoid spinning forever on it
                        if side.reads.iter().all(|(s, _, _)| *s == 0) {
                            break;
                        }
                        tokio::time::sleep(Duration::from_millis(1)).await;
                        continue;
                    }
                    log_close(&sh, 1 - d, "EOF");
                    let mut g = sh.dirs[d].borrow_mut();
                    g.eof = true;
                    // EOF only after the writer closed and everything was consumed
                    if !g.writer_closed {
                        drop(g);
                        sh.fail("eof-before-writer-closed", format!("dir {d}: EOF at {consumed} but the writer has not shut down or dropped"));
                    } else if consumed != g.accepted {
                        let acc = g.accepted;
                        drop(g);
                        sh.fail("eof-before-all-bytes-delivered", format!("dir {d}: EOF after {consumed} bytes, {acc} were accepted"));
                    }
                    break;
                }
                if peek_saw_eof {
                    sh.fail("data-after-peek-reported-eof", format!("dir {d}: read {n} bytes after a peek returned EOF"));
                    break;
                }
                if !check_bytes(&sh, d, consumed, &buf[..n], "read") {
                    break;
                }
                let mut g = sh.dirs[d].borrow_mut();
                g.consumed += n;
                g.max_read = g.max_read.max(n);
            }
            Err(e) => {
                sh.dirs[d].borrow_mut().reader_error = Some(format!("{:?}", e.kind()));
                break;
            }
        }
    }
    // after EOF nothing more may be read
    if sh.dirs[d].borrow().eof {
        let mut buf = [0u8; 8];
        match r.read(&mut buf).await {
            Ok(0) => {}
            Ok(n) => sh.fail("data-read-after-eof", format!("dir {d}: {n} bytes after EOF")),
            Err(_) => {}
        }
    }
    sh.dirs[d].borrow_mut().reader_done = true;
}

type PeekFut<'a> = std::pin::Pin<Box<dyn std::future::Future<Output = std::io::Result<Vec<u8>>> + 'a>>;

fn peek_owned(r: &mut turmoil::net::tcp::OwnedReadHalf, sz: usize) -> Option<PeekFut<'_>> {
    Some(Box::pin(async move {
        let mut b = vec![0u8; sz];
        let n = r.peek(&mut b).await?;
        b.truncate(n);
        Ok(b)
    }))
}

fn peek_whole(r: &mut TcpStream, sz: usize) -> Option<PeekFut<'_>> {
    Some(Box::pin(async move {
        let mut b = vec![0u8; sz];
        let n = r.peek(&mut b).await?;
        b.truncate(n);
        Ok(b)
    }))
}

/// All writes of `side` on a whole stream through try_write + writable.  Returns false when a
/// write failed (error recorded).
async fn whole_write(sh: &Shared, wd: usize, s: &mut TcpStream, side: &Side) -> bool {
    let mut off = 0usize;
    for (i, c) in side.chunks.iter().enumerate() {
        let p = if side.write_pauses.is_empty() { 0 } else { side.write_pauses[i % side.write_pauses.len()] };
        pause(p).await;
        let data: Vec<u8> = (0..*c as usize).map(|j| byte(sh.pat(wd), off + j)).collect();
        let mut rest = &data[..];
        while !rest.is_empty() {
            match s.try_write(rest) {
                Ok(n) => {
                    if n > rest.len() {
                        sh.fail("write-returned-more-than-given", format!("dir {wd}: try_write accepted {n} of {}", rest.len()));
                    }
                    let mut g = sh.dirs[wd].borrow_mut();
                    g.accepted += n;
                    g.segments += 1;
                    g.max_write = g.max_write.max(n);
                    off += n;
                    rest = &rest[n.min(rest.len())..];
                }
                Err(e) if e.kind() == std::io::ErrorKind::WouldBlock => {
                    sh.dirs[wd].borrow_mut().would_block += 1;
                    if let Err(e) = s.writable().await {
                        sh.dirs[wd].borrow_mut().writer_error = Some(format!("writable {:?}", e.kind()));
                        return false;
                    }
                }
                Err(e) => {
                    sh.dirs[wd].borrow_mut().writer_error = Some(format!("{:?}", e.kind()));
                    return false;
                }
            }
        }
    }
    true
}

/// Close sequence on a whole (unsplit) stream: shutdowns and waits (it has no write half to drop).
async fn whole_close(sh: &Shared, wd: usize, s: &mut TcpStream, plan: Vec<CloseStep>) {
    let mut shut = false;
    for st in plan {
        match st {
            CloseStep::Wait(ms) => pause(ms).await,
            CloseStep::Shutdown => {
                let res = s.shutdown().await;
                if !shut {
                    if let Err(e) = res {
                        sh.dirs[wd].borrow_mut().writer_error = Some(format!("shutdown {:?}", e.kind()));
                    }
                    mark_closed(sh, wd);
                    log_close(sh, wd, "S");
                    shut = true;
                } else {
                    log_close(sh, wd, "S+");
                }
            }
            CloseStep::DropWrite => {}
        }
    }
}

/// Run one endpoint: `wd` is the direction it writes, `rd` the one it reads.
async fn endpoint(sh: Rc<Shared>, stream: TcpStream, side: Side, wd: usize, rd: usize) {
    if side.reply == Reply::AfterRead {
        return responder(sh, stream, side, wd, rd).await;
    }
    match side.mode {
        Mode::IntoSplit => {
            let (mut r, w) = stream.into_split();
            let (sh2, side2) = (sh.clone(), side.clone());
            let plan = close_plan(&side, &legacy_plan(side.close));
            let wt = tokio::task::spawn_local(async move { writer(sh2, wd, w, side2, plan).await });
            reader_loop(sh.clone(), rd, &mut r, &side, peek_owned).await;
            if sh.dirs[rd].borrow().reader_quit || side.read_drop == ReadDrop::WhenDone {
                // drop the read half now, while the writer task goes on (after a quit: abortive
                // => RST if data is unread; graceful if the peer had closed and everything was
                // consumed; after EOF: always graceful)
                note_read_drop(&sh, rd);
                log_close(&sh, wd, "DR");
                drop(r);
                if let Ok(Some(w)) = wt.await {
                    log_close(&sh, wd, "DW");
                    drop(w);
                }
            } else {
                let keep = wt.await.ok().flatten();
                match (side.read_drop, keep) {
                    (ReadDrop::AfterWriterWriteFirst, Some(w)) => {
                        log_close(&sh, wd, "DW");
                        drop(w);
                        log_close(&sh, wd, "DR");
                        drop(r);
                    }
                    (ReadDrop::Reunite, Some(w)) => match r.reunite(w) {
                        Ok(whole) => {
                            log_close(&sh, wd, "RU");
                            log_close(&sh, wd, "D");
                            drop(whole);
                        }
                        Err(_) => sh.fail("reunite-of-halves-of-one-stream-failed", format!("endpoint writing dir {wd}")),
                    },
                    (_, keep) => {
                        log_close(&sh, wd, "DR");
                        drop(r);
                        if keep.is_some() {
                            log_close(&sh, wd, "DW");
                        }
                        drop(keep);
                    }
                }
            }
        }
        Mode::TokioSplit => {
            let (mut r, w) = tokio::io::split(stream);
            let (sh2, side2) = (sh.clone(), side.clone());
            let plan = close_plan(&side, &[CloseStep::Shutdown]);
            let wt = tokio::task::spawn_local(async move { writer(sh2, wd, w, side2, plan).await });
            reader_loop(sh.clone(), rd, &mut r, &side, |_r, _sz| None).await;
            // the stream itself is dropped when the second half goes
            if side.read_drop == ReadDrop::WhenDone && !sh.dirs[rd].borrow().reader_quit {
                log_close(&sh, wd, "DR");
                drop(r);
                let w = wt.await;
                note_read_drop(&sh, rd);
                drop(w);
            } else {
                let w = wt.await.ok().flatten();
                note_read_drop(&sh, rd);
                if side.read_drop == ReadDrop::AfterWriterWriteFirst {
                    if w.is_some() {
                        log_close(&sh, wd, "DW");
                    }
                    drop(w);
                    log_close(&sh, wd, "DR");
                    drop(r);
                } else {
                    log_close(&sh, wd, "DR");
                    drop(r);
                    if w.is_some() {
                        log_close(&sh, wd, "DW");
                    }
                    drop(w);
                }
            }
        }
        Mode::WholeSeq => {
            let mut s = stream;
            if whole_write(&sh, wd, &mut s, &side).await {
                let plan = close_plan(&side, &[CloseStep::Shutdown]);
                whole_close(&sh, wd, &mut s, plan).await;
                mark_closed(&sh, wd);
            }
            sh.dirs[wd].borrow_mut().writer_done = true;
            reader_loop(sh.clone(), rd, &mut s, &side, peek_whole).await;
            note_read_drop(&sh, rd);
            log_close(&sh, wd, "D");
            drop(s);
        }
    }
}

/// Reply::AfterRead — request/response: read first (to EOF or to the exact quit count, never
/// reading the EOF), linger, write the reply, run the close sequence, drop.
async fn responder(sh: Rc<Shared>, stream: TcpStream, side: Side, wd: usize, rd: usize) {
    let linger = Duration::from_millis(side.linger_ms as u64);
    match side.mode {
        Mode::IntoSplit => {
            let (mut r, w) = stream.into_split();
            reader_loop(sh.clone(), rd, &mut r, &side, peek_owned).await;
            if !linger.is_zero() {
                tokio::time::sleep(linger).await;
            }
            let mut r = Some(r);
            if side.half_drop == HalfDrop::ReadBeforeReply {
                note_read_drop(&sh, rd);
                log_close(&sh, wd, "DR");
                drop(r.take());
            }
            let plan = close_plan(&side, &legacy_plan(side.close));
            let w = writer(sh.clone(), wd, w, side.clone(), plan).await;
            note_read_drop(&sh, rd);
            if side.half_drop == HalfDrop::WriteThenRead {
                if w.is_some() {
                    log_close(&sh, wd, "DW");
                }
                drop(w);
                if r.is_some() {
                    log_close(&sh, wd, "DR");
                }
                drop(r);
            } else {
                if r.is_some() {
                    log_close(&sh, wd, "DR");
                }
                drop(r);
                if w.is_some() {
                    log_close(&sh, wd, "DW");
                }
                drop(w);
            }
        }
        Mode::TokioSplit => {
            let (mut r, w) = tokio::io::split(stream);
            reader_loop(sh.clone(), rd, &mut r, &side, |_r, _sz| None).await;
            if !linger.is_zero() {
                tokio::time::sleep(linger).await;
            }
            // without a shutdown the FIN goes out when the second half (= the stream) is dropped
            let legacy: Vec<CloseStep> = if side.close == Close::Shutdown { vec![CloseStep::Shutdown] } else { vec![] };
            let plan = close_plan(&side, &legacy);
            let w = writer(sh.clone(), wd, w, side.clone(), plan).await;
            note_read_drop(&sh, rd);
            if side.half_drop == HalfDrop::WriteThenRead {
                drop(w);
                drop(r);
            } else {
                drop(r);
                drop(w);
            }
            log_close(&sh, wd, "D");
        }
        Mode::WholeSeq => {
            let mut s = stream;
            reader_loop(sh.clone(), rd, &mut s, &side, peek_whole).await;
            if !linger.is_zero() {
                tokio::time::sleep(linger).await;
            }
            if whole_write(&sh, wd, &mut s, &side).await {
                let legacy: Vec<CloseStep> = if side.close == Close::Shutdown { vec![CloseStep::Shutdown] } else { vec![] };
                let plan = close_plan(&side, &legacy);
                whole_close(&sh, wd, &mut s, plan).await;
                mark_closed(&sh, wd);
            }
            sh.dirs[wd].borrow_mut().writer_done = true;
            note_read_drop(&sh, rd);
            log_close(&sh, wd, "D");
            drop(s);
        }
    }
}

pub fn run(sc: &Scenario) -> Outcome {
    let mut out = Outcome::ok();
    let tick = sc.tick_ms.max(1) as u64;
    let lat_min = sc.lat_min.min(sc.lat_max) as u64;
    let lat_max = sc.lat_max.max(sc.lat_min) as u64;
    let cap = sc.capacity.max(1);
    // the sequence of connections: (gap before it, client side, server side)
    let mut conns: Vec<(u16, Side, Side)> = vec![(0, sc.client.clone(), sc.server.clone())];
    if sc.manual_order.is_none() {
        for f in sc.followups.iter().take(MAX_FOLLOWUPS) {
            conns.push((f.gap_ms, f.client.clone(), f.server.clone()));
        }
    }
    let n = conns.len();
    let shs: Vec<Rc<Shared>> = (0..n).map(|k| Rc::new(Shared { conn: k, ..Default::default() })).collect();
    let sh = shs[0].clone();

    let mut b = turmoil::Builder::new();
    b.tick_duration(Duration::from_millis(tick))
        .min_message_latency(Duration::from_millis(lat_min))
        .max_message_latency(Duration::from_millis(lat_max))
        .tcp_capacity(cap)
        .epoch(SystemTime::UNIX_EPOCH + Duration::from_secs(1))
        .rng_seed(sc.seed)
        .simulation_duration(Duration::from_secs(1_000_000));
    if sc.v6 {
        b.ip_version(turmoil::IpVersion::V6);
    }
    let mut sim = b.build();

    let port = 7000u16;
    let bind_ip = match (sc.listen_localhost && sc.peer == PeerKind::Loopback, sc.v6) {
        (true, false) => "127.0.0.1",
        (true, true) => "::1",
        (false, false) => "0.0.0.0",
        (false, true) => "::",
    };
    let peer = sc.peer;
    let v6 = sc.v6;
    let client_fut = {
        let shs = shs.clone();
        let conns = conns.clone();
        move || {
            let shs = shs.clone();
            let conns = conns.clone();
            async move {
                // let the listener bind first
                tokio::time::sleep(Duration::from_millis(1)).await;
                let target: String = match peer {
                    PeerKind::Remote | PeerKind::SameHostOwnAddr => "s".to_string(),
                    PeerKind::Loopback => if v6 { "::1".to_string() } else { "127.0.0.1".to_string() },
                };
                // one connection after the other, each opened only when the client's endpoint of
                // the previous one has returned (all its halves dropped)
                for (k, (gap, side, _)) in conns.iter().enumerate() {
                    let sh = shs[k].clone();
                    if k > 0 {
                        if *gap > 0 {
                            tokio::time::sleep(Duration::from_millis(*gap as u64)).await;
                        }
                        let outstanding = shs[k - 1].dirs.iter().any(|d| {
                            let d = d.borrow();
                            d.accepted > d.consumed
                        });
                        *sh.old_outstanding.borrow_mut() = outstanding;
                    }
                    match TcpStream::connect((target.as_str(), port)).await {
                        Ok(s) => {
                            *sh.connected.borrow_mut() = true;
                            endpoint(sh.clone(), s, side.clone(), 0, 1).await;
                            *sh.client_finished.borrow_mut() = true;
                        }
                        Err(e) => {
                            *sh.connect_err.borrow_mut() = Some(format!("{:?}", e.kind()));
                            break;
                        }
                    }
                }
            }
        }
    };
    {
        let shs = shs.clone();
        let conns = conns.clone();
        let cf = client_fut.clone();
        let same_host = peer != PeerKind::Remote;
        sim.host("s", move || {
            let shs = shs.clone();
            let conns = conns.clone();
            let cf = cf.clone();
            async move {
                let lis = TcpListener::bind((bind_ip, port)).await?;
                if same_host {
                    tokio::task::spawn_local(cf());
                }
                // the client connects sequentially, so the k-th accept is connection k; earlier
                // connections keep running in their own tasks while later ones are accepted
                for (k, (_, _, side)) in conns.iter().enumerate() {
                    let (s, _) = lis.accept().await?;
                    if k + 1 == conns.len() {
                        endpoint(shs[k].clone(), s, side.clone(), 1, 0).await;
                    } else {
                        tokio::task::spawn_local(endpoint(shs[k].clone(), s, side.clone(), 1, 0));
                    }
                }
                std::future::pending::<()>().await;
                Ok(())
            }
        });
    }
    if peer == PeerKind::Remote {
        let cf = client_fut.clone();
        sim.host("c", move || {
            let cf = cf.clone();
            async move {
                cf().await;
                std::future::pending::<()>().await;
                Ok(())
            }
        });
    } else {
        sim.host("c", || async {
            std::future::pending::<()>().await;
            Ok(())
        });
    }

    // time the slower reader may legitimately need: every progress read can be preceded by the
    // other entries of its (cycled) read plan, each with its pause (+1 ms for zero-length reads)
    let dir_time = |w: &Side, r: &Side| -> u64 {
        let bytes: u64 = w.chunks.iter().map(|c| *c as u64).sum();
        let wp: u64 = (0..w.chunks.len()).map(|i| if w.write_pauses.is_empty() { 0 } else { w.write_pauses[i % w.write_pauses.len()] as u64 }).sum();
        let plan: Vec<(u32, bool, u8)> = if r.reads.is_empty() { vec![(64, false, 0)] } else { r.reads.clone() };
        let close_waits: u64 = w.close_steps.iter().map(|s| if let CloseStep::Wait(ms) = s { *ms as u64 + 1 } else { 0 }).sum();
        let min_buf = plan.iter().map(|x| x.0 as u64).filter(|b| *b > 0).min().unwrap_or(64);
        let cycle_cost: u64 = plan.iter().map(|x| x.2 as u64 + 2).sum();
        let progress_reads = bytes.div_ceil(min_buf.max(1)) + w.chunks.len() as u64 + 3;
        wp + close_waits + r.reader_delay as u64 + r.linger_ms as u64 + w.linger_ms as u64 + progress_reads * cycle_cost
    };
    // the connections run one after the other: the budget is the sum of the per-connection budgets
    let last_fault = sc.faults.iter().map(|f| f.0 as u64).max().unwrap_or(0);
    let mut budget = last_fault + 50;
    for (gap, c, s) in &conns {
        let segs = (c.chunks.len() + s.chunks.len()) as u64;
        let pauses: u64 = dir_time(c, s) + dir_time(s, c);
        let total_bytes: u64 = c.chunks.iter().chain(s.chunks.iter()).map(|c| *c as u64).sum();
        budget += 10 * (segs + 4) * (lat_max / tick + 2) + (pauses * 8 + total_bytes.min(8192) * 2 + *gap as u64) / tick;
    }

    // see the end of the stepping loop
    const HARD_CAP: u64 = 400_000;
    let max_pause: u64 = conns
        .iter()
        .flat_map(|(gap, c, s)| {
            [c, s].into_iter().flat_map(|x| {
                x.reads.iter().map(|r| r.2 as u64).chain(x.write_pauses.iter().map(|p| *p as u64)).chain([x.reader_delay as u64, x.linger_ms as u64]).collect::<Vec<u64>>()
            }).chain([*gap as u64]).collect::<Vec<u64>>()
        })
        .max()
        .unwrap_or(0);
    let stall_window: u64 = 20 * (lat_max / tick + 2) + 4 * max_pause / tick + 50;
    let mut last_progress: (usize, u64) = (0, 0);
    let mut still_progressing_at_cap = false;
    let mut partitioned_ever = false;
    let mut held = false;
    let mut hold_used = false;
    let mut steps = 0u64;
    let mut manual_done = false;
    let all_done = |shs: &[Rc<Shared>]| {
        shs.iter().all(|sh| {
            sh.dirs.iter().all(|d| {
                let d = d.borrow();
                d.reader_done && d.writer_done
            })
        })
    };
    let first_fail = |shs: &[Rc<Shared>]| shs.iter().find_map(|sh| sh.fail.borrow().clone());
    loop {
        if peer == PeerKind::Remote && sc.manual_order.is_none() {
            for (at, f) in &sc.faults {
                if *at as u64 == steps {
                    match f {
                        Fault::Hold => {
                            sim.hold("c", "s");
                            held = true;
                            hold_used = true;
                        }
                        Fault::Release => {
                            sim.release("c", "s");
                            held = false;
                        }
                        Fault::Partition => {
                            sim.partition("c", "s");
                            partitioned_ever = true;
                        }
                        Fault::Repair => sim.repair("c", "s"),
                    }
                }
            }
        }
        // exhaustive tier: once connected, hold; when the client writer is done, deliver by hand
        if let Some(order) = &sc.manual_order {
            if peer == PeerKind::Remote && !manual_done {
                if *sh.connected.borrow() && !held {
                    sim.hold("c", "s");
                    held = true;
                    hold_used = true;
                }
                if held && sh.dirs[0].borrow().writer_done {
                    // emission order = seq order: data 1..=k then FIN k+1
                    for idx in order {
                        let want = *idx as u64 + 1;
                        sim.links(|links| {
                            for link in links {
                                for sent in link {
                                    let seq = match sent.protocol() {
                                        turmoil::Protocol::Tcp(turmoil::Segment::Data(s, _)) => Some(*s),
                                        turmoil::Protocol::Tcp(turmoil::Segment::Fin(s)) => Some(*s),
                                        _ => None,
                                    };
                                    let from_client = sent.pair().1.port() == port;
                                    if seq == Some(want) && from_client {
                                        sent.deliver();
                                    }
                                }
                            }
                        });
                        steps += 1;
                        if sim.step().is_err() {
                            out.fail("step-error", "step failed".to_string());
                            return out;
                        }
                    }
                    sim.release("c", "s");
                    held = false;
                    manual_done = true;
                }
            }
        }
        steps += 1;
        if let Err(e) = sim.step() {
            out.fail("step-error", format!("{e}"));
            return out;
        }
        if first_fail(&shs).is_some() {
            break;
        }
        if all_done(&shs) && steps > last_fault {
            break;
        }
        if steps > budget {
            // The budget assumes one segment per write call.  An implementation may split a
            // write into several segments (short writes are allowed by the API contract), so a
            // transfer that is still making progress is given more time: it only counts as
            // stalled once nothing was accepted or consumed for `stall_window` steps.
            let progress: usize = shs.iter().map(|sh| sh.dirs.iter().map(|d| { let d = d.borrow(); d.accepted + d.consumed }).sum::<usize>()).sum();
            if progress != last_progress.0 {
                last_progress = (progress, steps);
            }
            if steps - last_progress.1 > stall_window || steps > HARD_CAP {
                if steps > HARD_CAP {
                    still_progressing_at_cap = true;
                }
                break;
            }
        }
    }
    if still_progressing_at_cap {
        // inconclusive, not a violation: the transfer was still moving when the harness gave up
        out.label("hard-step-cap-reached-while-still-progressing(no-liveness-verdict)");
        return out;
    }
    if let Some((sig, det)) = first_fail(&shs) {
        out.fail(sig, det);
        return out;
    }
    if let Some((k, e)) = shs.iter().enumerate().find_map(|(k, sh)| sh.connect_err.borrow().clone().map(|e| (k, e))) {
        if !partitioned_ever {
            out.fail("connect-failed-on-healthy-link", format!("connection #{k}: {e}"));
            return out;
        }
        out.label("connect-failed-under-partition");
        return out;
    }

    // ---------------- delivery half (per connection)
    let mut any_abortive = false;
    let mut any_bp = false;
    let mut fin_while_full = false;
    let mut cut_short = false;
    let mut graceful_quit_with_reply = false;
    let tol_late_fin = is_known("F-C02-2");
    for (k, (_, cside, sside)) in conns.iter().enumerate() {
        let sh = &shs[k];
        // A reader that stops before EOF makes the close abortive only if inbound data was (or
        // could still become) unread at that endpoint.  If, when it stopped, the peer had already
        // closed its write side and every byte the peer's writes accepted had been consumed, no
        // inbound DATA is or ever will be unread there (an unread FIN is not data): the drop is
        // graceful and the delivery half stays in force for what that endpoint writes.
        let abortive = sh.dirs.iter().any(|d| {
            let d = d.borrow();
            d.reader_quit && !d.quit_graceful
        });
        any_abortive |= abortive;
        if !*sh.connected.borrow() {
            // Never opened.  If every earlier connection had to terminate (delivery half) one of
            // the checks above has already failed; otherwise an earlier abortive connection, for
            // which no liveness is promised, is still occupying the client.
            cut_short = true;
            continue;
        }
        let delivery_applies = !partitioned_ever && !abortive && !held;
        // Classification of graceful quits: was the peer's FIN certainly delivered (queued,
        // unread) when the read side was dropped, or may it still have been on the wire?
        // Remote: a message is delivered at most lat_max + tick after it was sent (whole-ms
        // ticks); same host: one tick.  Any hold/partition in the scenario voids the bound.
        let mut late_fin = false;
        for d in 0..2 {
            let g = sh.dirs[d].borrow();
            if !(g.reader_quit && g.quit_graceful) {
                continue;
            }
            let rside = if d == 0 { sside } else { cside };
            let bound = Duration::from_millis(if peer == PeerKind::Remote { lat_max + 2 * tick } else { 2 * tick });
            let certain = sc.faults.is_empty()
                && match (g.closed_at, g.read_dropped_at) {
                    (Some(c), Some(r)) => r >= c + bound,
                    _ => false,
                };
            out.label("graceful-quit (peer closed, all its bytes read, its EOF never read)");
            out.label(if certain { "graceful-quit: peer FIN queued unread at the drop" } else { "graceful-quit: peer FIN possibly still in flight at the drop" });
            if !certain {
                late_fin = true;
            }
            let replied = sh.dirs[1 - d].borrow().accepted > 0;
            if replied {
                graceful_quit_with_reply = true;
                out.label(if certain { "graceful-quit+reply: FIN queued unread" } else { "graceful-quit+reply: FIN possibly in flight" });
            }
            if rside.reply == Reply::AfterRead {
                out.label(format!("graceful-quit by responder {:?}/{:?}", rside.mode, rside.half_drop));
            } else {
                out.label(format!("graceful-quit by concurrent {:?}", rside.mode));
            }
        }
        // In a connection of the "FIN possibly in flight" class a reset (ConnectionReset at the
        // reader, BrokenPipe at the writer) gets its own signature: it is finding F-C02-2 (the
        // FIN that arrives after the drop is answered with RST) and is tolerated only while
        // that finding is listed as "known"; every other clause keeps its signature.
        let err_sig = |base: &str| -> String { if late_fin { LATE_FIN_SIG.to_string() } else { base.to_string() } };
        if late_fin && tol_late_fin && !sc.strict && sh.dirs.iter().any(|d| d.borrow().reader_error.is_some() || d.borrow().writer_error.is_some()) {
            out.exclude("F-C02-2");
            for d in 0..2 {
                let g = sh.dirs[d].borrow();
                if g.would_block + g.write_pending > 0 {
                    any_bp = true;
                }
            }
            continue;
        }
        for d in 0..2 {
            let g = sh.dirs[d].borrow();
            let wside = if d == 0 { cside } else { sside };
            let rside = if d == 0 { sside } else { cside };
            let all_zero_reads = !rside.reads.is_empty() && rside.reads.iter().all(|r| r.0 == 0);
            if g.would_block + g.write_pending > 0 {
                any_bp = true;
            }
            if wside.chunks.len() >= cap && rside.reader_delay as u64 > lat_max + 2 * tick {
                fin_while_full = true;
            }
            if delivery_applies && !all_zero_reads {
                let total: usize = wside.chunks.iter().map(|c| *c as usize).sum();
                if let Some(e) = &g.writer_error {
                    out.fail(err_sig("writer-error-on-healthy-link"), format!("connection #{k} dir {d}: {e}"));
                    return out;
                }
                if let Some(e) = &g.reader_error {
                    out.fail(err_sig("reader-error-on-healthy-link"), format!("connection #{k} dir {d}: {e} after {} of {} bytes", g.consumed, g.accepted));
                    return out;
                }
                if !g.writer_done && !g.reader_started {
                    // nobody reads this direction yet (the peer writes before it reads and is itself
                    // blocked): an application-level deadlock of the scenario, possible when an
                    // implementation splits a write into more segments than the window holds — the
                    // delivery half presupposes a reader
                    out.label("writer-blocked-while-the-peer-has-not-started-reading(no-liveness-verdict)");
                    continue;
                }
                if !g.writer_done {
                    out.fail("writer-stalled-on-healthy-link", format!("connection #{k} dir {d}: accepted {} of {total} bytes after {steps} steps (budget {budget}); reader consumed {}", g.accepted, g.consumed));
                    return out;
                }
                if g.accepted != total {
                    out.fail("writer-accepted-count-mismatch", format!("connection #{k} dir {d}: accepted {} of {total}", g.accepted));
                    return out;
                }
                if g.consumed != g.accepted {
                    out.fail("bytes-never-delivered-on-healthy-link", format!("connection #{k} dir {d}: reader consumed {} of {} accepted bytes after {steps} steps (budget {budget})", g.consumed, g.accepted));
                    return out;
                }
                // a reader that quit gracefully chose not to read the EOF
                if !g.eof && !g.reader_quit {
                    out.fail("eof-never-delivered-after-graceful-close", format!("connection #{k} dir {d}: all {} bytes read but no EOF after {steps} steps (budget {budget}); capacity {cap}, {} segments", g.consumed, g.segments));
                    return out;
                }
            }
        }
    }
    match sc.peer {
        PeerKind::Remote => out.label("remote"),
        PeerKind::SameHostOwnAddr => out.label("same-host"),
        PeerKind::Loopback => out.label("loopback"),
    }
    if any_bp {
        out.label("backpressure");
    }
    if fin_while_full {
        out.label("fin-while-full");
    }
    if hold_used {
        out.label("hold");
    }
    if partitioned_ever {
        out.label("partition");
    }
    if any_abortive {
        out.label("abortive");
    }
    if shs.iter().any(|sh| sh.dirs.iter().any(|d| d.borrow().peeks > 0)) {
        out.label("peek");
    }
    if sc.v6 {
        out.label("v6");
    }
    for (_, c, s) in &conns {
        out.label(format!("{:?}", c.mode));
        out.label(format!("{:?}", s.mode));
        for (x, y) in [(c, s), (s, c)] {
            if x.reply == Reply::AfterRead {
                let req: u32 = y.chunks.iter().map(|c| *c as u32).sum();
                out.label("request-response");
                out.label(match x.reader_quits_after {
                    Some(q) if q == req => "responder reads exactly the request",
                    Some(q) if q < req => "responder reads less than the request (abortive)",
                    _ => "responder reads to EOF first",
                });
            }
        }
    }
    // ---------------- close sequences and big single writes / reads (classification)
    let mut read_after_shutdown_drop = false;
    for (k, (_, cside, sside)) in conns.iter().enumerate() {
        let sh = &shs[k];
        if !*sh.connected.borrow() {
            continue;
        }
        for e in 0..2 {
            let side = if e == 0 { cside } else { sside };
            let log = sh.close_log[e].borrow();
            if !side.close_steps.is_empty() || side.read_drop != ReadDrop::AfterWriter {
                let role = if side.reply == Reply::AfterRead { "responder" } else { "concurrent" };
                // consecutive repeated shutdowns are one class
                let mut seq: Vec<&str> = Vec::new();
                for ev in log.iter() {
                    if !(*ev == "S+" && seq.last() == Some(&"S+")) {
                        seq.push(ev);
                    }
                }
                out.label(format!("close-order {:?} {role}: {}", side.mode, seq.join(">")));
                if log.iter().any(|x| *x == "S+") {
                    out.label("shutdown repeated");
                }
                if log.iter().any(|x| *x == "RU") {
                    out.label("halves reunited before the drop");
                }
                let pos = |ev: &str| log.iter().position(|x| *x == ev);
                if let (Some(dr), Some(w)) = (pos("DR"), pos("S").or(pos("DW"))) {
                    if dr < w {
                        out.label(format!("read half dropped before the write side was closed ({:?})", side.mode));
                    }
                }
            }
            if let Some(at) = *sh.read_at_shutdown_drop[e].borrow() {
                out.label(format!("shutdown then write-half drop while the read half lives on ({:?})", side.mode));
                if sh.dirs[1 - e].borrow().consumed > at {
                    out.label(format!("shutdown then write-half drop, reader read more bytes afterwards ({:?})", side.mode));
                    read_after_shutdown_drop = true;
                }
            }
        }
        for d in 0..2 {
            let g = sh.dirs[d].borrow();
            for (lim, name) in [(1usize << 20, "1 MiB"), (65_536, "64 KiB"), (4096, "4 KiB")] {
                if g.max_write >= lim {
                    out.label(format!("single write call accepted >= {name}"));
                    break;
                }
            }
            if g.max_write == 65_535 {
                out.label("single write call accepted exactly 65535");
            }
            for (lim, name) in [(65_536usize, "64 KiB"), (4096, "4 KiB")] {
                if g.max_read >= lim {
                    out.label(format!("single read call returned >= {name}"));
                    break;
                }
            }
        }
    }
    let big_write = shs.iter().any(|sh| sh.dirs.iter().any(|d| d.borrow().max_write >= 65_536 && d.borrow().consumed >= 65_536));
    // ---------------- sequences of connections between the same two endpoints
    let opened = shs.iter().filter(|sh| *sh.connected.borrow()).count();
    let mut reconnect_outstanding = false;
    if opened >= 2 {
        out.label("reconnect");
        out.label(format!("connections-opened-{opened}"));
        let mut stale_bytes = 0u64;
        for k in 1..opened {
            let prev = &shs[k - 1];
            let gap = conns[k].0;
            out.label(if gap == 0 { "reconnect-immediate" } else { "reconnect-after-gap" });
            if *shs[k].old_outstanding.borrow() {
                reconnect_outstanding = true;
                out.label("reconnect-with-old-data-outstanding");
                // the new connection actually moved data / saw EOF while old segments could still arrive
                if shs[k].dirs.iter().any(|d| d.borrow().consumed > 0) {
                    out.label("reconnect-with-old-data-outstanding+new-data-read");
                }
                stale_bytes += prev.dirs.iter().map(|d| {
                    let d = d.borrow();
                    (d.accepted - d.consumed.min(d.accepted)) as u64
                }).sum::<u64>();
            }
            if prev.dirs[1].borrow().reader_quit {
                out.label("reconnect-after-client-dropped-early");
                if prev.dirs[1].borrow().consumed > 0 {
                    out.label("reconnect-after-client-dropped-mid-stream");
                }
            } else if prev.dirs[1].borrow().eof {
                out.label("reconnect-after-eof");
            }
        }
        out.count("old bytes unconsumed at reconnect", stale_bytes);
    }
    if cut_short {
        out.label("sequence-cut-short");
    }
    let reorder_possible = sc.peer == PeerKind::Remote && lat_max > lat_min + tick && conns.iter().any(|(_, c, s)| c.chunks.len() >= 2 || s.chunks.len() >= 2);
    if reorder_possible {
        out.label("reorder-possible");
    }
    if sc.manual_order.is_some() {
        out.label("manual-order");
    }
    out.count("bytes delivered", shs.iter().map(|sh| sh.dirs.iter().map(|d| d.borrow().consumed as u64).sum::<u64>()).sum());
    out.nontrivial = reorder_possible || any_bp || fin_while_full || reconnect_outstanding || graceful_quit_with_reply || read_after_shutdown_drop || big_write || sc.manual_order.as_ref().map(|o| o.len() >= 2).unwrap_or(false);
    out
}

/// Size of one "big" write call: around the 64 KiB boundary, a few hundred KB, 1 MiB.
fn big_chunk_strategy() -> BoxedStrategy<u32> {
    prop_oneof![
        2 => Just(65_535u32),
        3 => Just(65_536u32),
        3 => Just(65_537u32),
        2 => 65_538u32..=70_000,
        2 => Just(100_000u32),
        2 => 70_001u32..=300_000,
        1 => Just(1_048_576u32),
        1 => Just(1_048_577u32),
    ]
    .boxed()
}

fn close_steps_strategy() -> BoxedStrategy<Vec<CloseStep>> {
    let step = prop_oneof![
        4 => Just(CloseStep::Shutdown),
        3 => Just(CloseStep::DropWrite),
        2 => (0u8..=20).prop_map(CloseStep::Wait),
    ];
    prop_oneof![2 => Just(vec![]), 3 => proptest::collection::vec(step, 1..=4)].boxed()
}

fn side_strategy() -> BoxedStrategy<Side> {
    // heavy-tailed sizes of single write calls
    let chunk = prop_oneof![
        30 => Just(1u32),
        30 => 1u32..=16,
        10 => 17u32..=300,
        2 => 301u32..=1000,
        1 => prop_oneof![Just(4095u32), Just(4096u32), Just(4097u32), 1001u32..=9000],
    ];
    let buf = prop_oneof![
        20 => Just(0u32),
        60 => Just(1u32),
        60 => 2u32..=9,
        40 => 10u32..=400,
        4 => 401u32..=5000,
        2 => prop_oneof![Just(65_535u32), Just(65_536u32), Just(65_537u32), Just(1u32 << 20), 5001u32..=200_000],
    ];
    (
        prop_oneof![3 => Just(Mode::IntoSplit), 1 => Just(Mode::TokioSplit), 2 => Just(Mode::WholeSeq)],
        proptest::collection::vec(chunk, 0..12),
        proptest::collection::vec(prop_oneof![4 => Just(0u8), 1 => 1u8..=6], 0..4),
        prop_oneof![Just(Close::Shutdown), Just(Close::DropWriteHalf)],
        proptest::collection::vec((buf, any::<bool>(), prop_oneof![4 => Just(0u8), 1 => 1u8..=8]), 1..5),
        prop_oneof![9 => Just(None), 1 => (0u32..40).prop_map(Some)],
        prop_oneof![3 => Just(0u16), 1 => 1u16..=60],
        // one big write call somewhere in the stream (beginning, middle or end)
        prop_oneof![60 => Just(None), 1 => (any::<u16>(), big_chunk_strategy()).prop_map(Some)],
        close_steps_strategy(),
        prop_oneof![3 => Just(ReadDrop::AfterWriter), 3 => Just(ReadDrop::WhenDone), 2 => Just(ReadDrop::AfterWriterWriteFirst), 1 => Just(ReadDrop::Reunite)],
    )
        .prop_map(|(mode, mut chunks, write_pauses, close, mut reads, reader_quits_after, reader_delay, big, close_steps, read_drop)| {
            // at least one non-zero buffer so the reader can make progress
            if reads.iter().all(|r| r.0 == 0) {
                reads.push((3, false, 0));
            }
            if let Some((at, size)) = big {
                let at = crate::engine::pick(at, chunks.len() + 1);
                chunks.insert(at, size);
                chunks.truncate(12);
            }
            Side { mode, chunks, write_pauses, close, reads, reader_quits_after, reader_delay, reply: Reply::Concurrent, half_drop: HalfDrop::ReadThenWrite, linger_ms: 0, close_steps, read_drop }
        })
        .boxed()
}

/// Keep the cost of a direction with a large byte volume in check.  The step budget of `run`
/// allows the reader `(bytes / smallest buffer + chunks + 3) * sum(pause + 2)` ms; an abortive or
/// partitioned connection may run all the way to that budget, so for streams above 1 KiB the
/// read plan of `r` is adjusted until that quantity is <= TAME_MS: first the pauses are removed,
/// then the small (non-zero) buffers are raised.  Streams up to 1 KiB are left untouched.
fn tame(w: &Side, r: &mut Side) {
    const TAME_MS: u64 = 3000;
    let total: u64 = w.chunks.iter().map(|c| *c as u64).sum();
    if total <= 1024 {
        return;
    }
    let est = |r: &Side| -> u64 {
        let smallest = r.reads.iter().map(|x| x.0 as u64).filter(|b| *b > 0).min().unwrap_or(64);
        (total.div_ceil(smallest) + w.chunks.len() as u64 + 3) * r.reads.iter().map(|x| x.2 as u64 + 2).sum::<u64>()
    };
    if est(r) <= TAME_MS {
        return;
    }
    for x in r.reads.iter_mut() {
        x.2 = 0;
    }
    if est(r) <= TAME_MS {
        return;
    }
    let per_cycle = 2 * r.reads.len() as u64;
    let need = (total * per_cycle).div_ceil(TAME_MS / 2).max(1) as u32;
    for x in r.reads.iter_mut() {
        if x.0 != 0 && x.0 < need {
            x.0 += need;
        }
    }
}

/// How far a shaped reader reads.
#[derive(Clone, Copy, Debug, PartialEq, Eq)]
enum ReadsTo {
    /// exactly the bytes the peer writes on this connection — never reads the EOF
    Exact,
    /// to EOF (control: the FIN is consumed before the drop)
    Eof,
    /// stops `n` bytes short (abortive: data unread at the drop)
    Short(u16),
}

/// Half-close request/response shaping of one connection: one endpoint (the requester) writes its
/// chunks, closes its write side and keeps reading; the other (the responder) reads first, then
/// replies and drops.  `concurrent_exact` instead keeps both endpoints concurrent and only makes
/// one reader stop at exactly the peer's byte count (read side dropped while its own writer may
/// still be busy).
#[derive(Clone, Debug)]
struct Shaping {
    responder_is_client: bool,
    concurrent_exact: bool,
    reads_to: ReadsTo,
    linger_ms: u16,
    half_drop: HalfDrop,
    /// the requester / the replier are made to write at least one chunk
    min_request: bool,
    min_reply: bool,
}

fn shaping_strategy() -> BoxedStrategy<Option<Shaping>> {
    let s = (
        any::<bool>(),
        prop_oneof![4 => Just(false), 1 => Just(true)],
        prop_oneof![6 => Just(ReadsTo::Exact), 2 => Just(ReadsTo::Eof), 1 => (1u16..=3).prop_map(ReadsTo::Short)],
        prop_oneof![2 => Just(0u16), 2 => 1u16..=12, 3 => 13u16..=90],
        prop_oneof![Just(HalfDrop::ReadThenWrite), Just(HalfDrop::WriteThenRead), Just(HalfDrop::ReadBeforeReply)],
        prop_oneof![5 => Just(true), 1 => Just(false)],
        prop_oneof![5 => Just(true), 1 => Just(false)],
    )
        .prop_map(|(responder_is_client, concurrent_exact, reads_to, linger_ms, half_drop, min_request, min_reply)| Shaping {
            responder_is_client,
            concurrent_exact,
            reads_to,
            linger_ms,
            half_drop,
            min_request,
            min_reply,
        });
    prop_oneof![3 => Just(None), 2 => s.prop_map(Some)].boxed()
}

fn apply_shaping(sh: &Shaping, client: &mut Side, server: &mut Side, seed: u64) {
    let (resp, req) = if sh.responder_is_client { (client, server) } else { (server, client) };
    if sh.min_request && req.chunks.is_empty() {
        req.chunks.push(1 + (q_mix(seed, 40) % 7) as u32);
    }
    if sh.min_reply && resp.chunks.is_empty() {
        resp.chunks.push(1 + (q_mix(seed, 41) % 7) as u32);
    }
    // the requester half-closes and keeps reading to EOF
    req.reply = Reply::Concurrent;
    req.reader_quits_after = None;
    let total: u32 = req.chunks.iter().map(|c| *c as u32).sum();
    resp.reader_quits_after = match sh.reads_to {
        ReadsTo::Exact => Some(total),
        ReadsTo::Eof => None,
        ReadsTo::Short(n) => Some(total.saturating_sub(n as u32)),
    };
    if sh.concurrent_exact {
        resp.reply = Reply::Concurrent;
        // a whole-stream sequential endpoint writes before it reads: its peer must be able to
        // take all of that while the responder is not reading yet — already guaranteed by
        // no_double_wholeseq_deadlock
    } else {
        resp.reply = Reply::AfterRead;
        resp.half_drop = sh.half_drop;
        resp.linger_ms = sh.linger_ms;
        resp.reader_delay = resp.reader_delay.min(20);
    }
}

/// Knobs that turn the client side of a connection which is followed by another one into a
/// short-lived one: it stops reading after `quit` bytes (0 = right after connecting) and drops the
/// stream, then the next connection is opened.  Whether that drop is graceful (nothing unread
/// locally) or abortive (unread data => RST) depends on what has arrived by then.
#[derive(Clone, Debug)]
struct Handover {
    gap_ms: u16,
    /// None: keep the generated client side as it is (usually reads to EOF)
    early_quit: Option<u32>,
    /// the server is made to write at least this many chunks on the connection being left
    server_min_chunks: usize,
}

fn handover_strategy() -> BoxedStrategy<Handover> {
    (
        prop_oneof![5 => Just(0u16), 2 => 1u16..=6, 1 => 7u16..=45],
        prop_oneof![
            2 => Just(None),
            3 => Just(Some(0u32)),
            2 => (1u32..=12).prop_map(Some),
        ],
        0usize..=3,
    )
        .prop_map(|(gap_ms, early_quit, server_min_chunks)| Handover { gap_ms, early_quit, server_min_chunks })
        .boxed()
}

fn no_double_wholeseq_deadlock(client: &mut Side, server: &mut Side, capacity: usize) {
    // two sequential whole-stream endpoints that both write more than the
    // capacity before reading would be a legitimate application deadlock
    if client.mode == Mode::WholeSeq && server.mode == Mode::WholeSeq {
        client.chunks.truncate(capacity);
        server.chunks.truncate(capacity);
    }
}

pub fn strategy() -> BoxedStrategy<Scenario> {
    let lat = prop_oneof![
        1 => (0u32..=8).prop_map(|v| (v, v)),
        4 => (0u32..=6, 2u32..=30).prop_map(|(a, d)| (a, a + d)),
    ];
    (
        (1u32..=4, lat, prop_oneof![3 => 1usize..=4, 1 => Just(64usize)], any::<bool>(), any::<u64>()),
        prop_oneof![3 => Just(PeerKind::Remote), 1 => Just(PeerKind::SameHostOwnAddr), 1 => Just(PeerKind::Loopback)],
        any::<bool>(),
        side_strategy(),
        side_strategy(),
        prop_oneof![
            4 => Just(vec![]),
            2 => (2u32..40, 1u32..20).prop_map(|(a, d)| vec![(a, Fault::Hold), (a + d, Fault::Release)]),
            1 => (2u32..40, 1u32..20).prop_map(|(a, d)| vec![(a, Fault::Partition), (a + d, Fault::Repair)]),
        ],
        // sequences of connections between the same two endpoints
        prop_oneof![
            5 => Just(vec![]),
            5 => proptest::collection::vec((handover_strategy(), side_strategy(), side_strategy()), 1..=MAX_FOLLOWUPS),
        ],
        // half-close request/response shaping, one draw per connection of the sequence
        proptest::collection::vec(shaping_strategy(), 1 + MAX_FOLLOWUPS),
    )
        .prop_map(|((tick_ms, (lat_min, lat_max), capacity, v6, seed), peer, listen_localhost, client, server, faults, seq, shapings)| {
            let mut sides: Vec<(Side, Side)> = vec![(client, server)];
            let mut gaps: Vec<u16> = vec![];
            // connections the handover turned into short-lived ones keep that shape
            let mut left_early: Vec<bool> = vec![];
            for (h, c, s) in seq {
                left_early.push(h.early_quit.is_some());
                // shape the connection being left according to the handover
                let (pc, ps) = sides.last_mut().unwrap();
                if let Some(q) = h.early_quit {
                    pc.reader_quits_after = Some(q);
                    pc.reader_delay = 0;
                    pc.chunks.truncate(3);
                    pc.write_pauses.clear();
                }
                while ps.chunks.len() < h.server_min_chunks {
                    let i = ps.chunks.len() as u16;
                    ps.chunks.push(1 + (q_mix(seed, i) % 9) as u32);
                }
                gaps.push(h.gap_ms);
                sides.push((c, s));
            }
            for (c, s) in sides.iter_mut() {
                no_double_wholeseq_deadlock(c, s, capacity);
            }
            // last, so that "exactly the request" is computed from the final chunk lists
            for (k, ((c, s), shp)) in sides.iter_mut().zip(shapings.iter()).enumerate() {
                if let (Some(shp), false) = (shp, left_early.get(k).copied().unwrap_or(false)) {
                    apply_shaping(shp, c, s, seed);
                }
            }
            for (c, s) in sides.iter_mut() {
                let (wc, ws) = (c.clone(), s.clone());
                tame(&wc, s);
                tame(&ws, c);
            }
            let mut it = sides.into_iter();
            let (client, server) = it.next().unwrap();
            let followups = it.zip(gaps).map(|((client, server), gap_ms)| Followup { gap_ms, client, server }).collect();
            Scenario {
                tick_ms,
                lat_min,
                lat_max,
                capacity,
                v6,
                seed,
                peer,
                listen_localhost,
                client,
                server,
                faults,
                manual_order: None,
                followups,
                strict: false,
            }
        })
        .boxed()
}

fn q_mix(seed: u64, i: u16) -> u64 {
    (seed ^ 0x9e37_79b9_7f4a_7c15).wrapping_mul(i as u64 * 2 + 1).rotate_left(17)
}

fn perms(n: usize) -> Vec<Vec<usize>> {
    fn rec(n: usize, cur: &mut Vec<usize>, out: &mut Vec<Vec<usize>>) {
        if cur.len() == n {
            out.push(cur.clone());
            return;
        }
        for i in 0..n {
            if !cur.contains(&i) {
                cur.push(i);
                rec(n, cur, out);
                cur.pop();
            }
        }
    }
    let mut out = Vec::new();
    rec(n, &mut Vec::new(), &mut out);
    out
}

/// Every delivery order of k data segments + FIN, for several capacities and
/// reader speeds.
fn exhaustive_space(tier: Tier) -> Vec<Scenario> {
    let kmax = tier.pick(3, 5);
    let mut out = Vec::new();
    for k in 1..=kmax {
        for cap in [k, k + 1, 64] {
            for (delay, bufs) in [(0u16, vec![(64u32, false, 0u8)]), (0, vec![(1, true, 0)]), (40, vec![(2, false, 0)])] {
                for close in [Close::Shutdown, Close::DropWriteHalf] {
                    for order in perms(k + 1) {
                        out.push(Scenario {
                            tick_ms: 1,
                            lat_min: 2,
                            lat_max: 2,
                            capacity: cap,
                            v6: (k + cap) % 2 == 1,
                            seed: 7,
                            peer: PeerKind::Remote,
                            listen_localhost: false,
                            client: Side {
                                mode: Mode::IntoSplit,
                                chunks: (0..k).map(|i| (i as u32 % 3) + 1).collect(),
                                write_pauses: vec![],
                                close,
                                reads: vec![(8, false, 0)],
                                reader_quits_after: None,
                                reader_delay: 0,
                                reply: Reply::Concurrent,
                                half_drop: HalfDrop::ReadThenWrite,
                                linger_ms: 0,
                                close_steps: vec![],
                                read_drop: ReadDrop::AfterWriter,
                            },
                            server: Side {
                                mode: Mode::IntoSplit,
                                chunks: vec![],
                                write_pauses: vec![],
                                close: Close::Shutdown,
                                reads: bufs.clone(),
                                reader_quits_after: None,
                                reader_delay: delay,
                                reply: Reply::Concurrent,
                                half_drop: HalfDrop::ReadThenWrite,
                                linger_ms: 0,
                                close_steps: vec![],
                                read_drop: ReadDrop::AfterWriter,
                            },
                            faults: vec![],
                            manual_order: Some(order),
                            followups: vec![],
                            strict: false,
                        });
                    }
                }
            }
        }
    }
    out
}

/// Fixed family: half-close request/response.  The requester writes a 2-chunk request, closes its
/// write side (shutdown or write-half drop) and reads to EOF; the responder reads exactly the
/// request (or, control, to EOF), lingers (0 ms: the FIN may still be on the wire; long: the FIN
/// is certainly queued unread), replies with 2 chunks and drops — every combination of
/// requester mode x close, responder mode x half-drop order x close, which endpoint responds,
/// peer kind and fixed/ranged latency.
fn request_response_space() -> Vec<Scenario> {
    let mut out = Vec::new();
    let modes = [Mode::IntoSplit, Mode::TokioSplit, Mode::WholeSeq];
    for req_mode in modes {
        for req_close in [Close::Shutdown, Close::DropWriteHalf] {
            for resp_mode in modes {
                for half_drop in [HalfDrop::ReadThenWrite, HalfDrop::WriteThenRead, HalfDrop::ReadBeforeReply] {
                    if resp_mode != Mode::IntoSplit && half_drop == HalfDrop::ReadBeforeReply {
                        continue;
                    }
                    for resp_close in [Close::Shutdown, Close::DropWriteHalf] {
                        for exact in [true, false] {
                            for linger in [0u16, 3, 60] {
                                for responder_is_client in [false, true] {
                                    for (peer, lat) in [(PeerKind::Remote, (1u32, 1u32)), (PeerKind::Remote, (1, 9)), (PeerKind::SameHostOwnAddr, (1, 1)), (PeerKind::Loopback, (1, 1))] {
                                        let n = out.len();
                                        let request = Side {
                                            mode: req_mode,
                                            chunks: vec![3, 1],
                                            write_pauses: vec![],
                                            close: req_close,
                                            reads: vec![(if n % 2 == 0 { 16 } else { 1 }, n % 3 == 0, 0)],
                                            reader_quits_after: None,
                                            reader_delay: 0,
                                            reply: Reply::Concurrent,
                                            half_drop: HalfDrop::ReadThenWrite,
                                            linger_ms: 0,
                                            close_steps: vec![],
                                            read_drop: ReadDrop::AfterWriter,
                                        };
                                        let response = Side {
                                            mode: resp_mode,
                                            chunks: vec![2, 3],
                                            write_pauses: vec![],
                                            close: resp_close,
                                            reads: vec![(if n % 5 < 2 { 4 } else { 3 }, n % 7 == 0, 0)],
                                            reader_quits_after: if exact { Some(4) } else { None },
                                            reader_delay: 0,
                                            reply: Reply::AfterRead,
                                            half_drop,
                                            linger_ms: linger,
                                            close_steps: vec![],
                                            read_drop: ReadDrop::AfterWriter,
                                        };
                                        let (client, server) = if responder_is_client { (response, request) } else { (request, response) };
                                        out.push(Scenario {
                                            tick_ms: 1,
                                            lat_min: lat.0,
                                            lat_max: lat.1,
                                            capacity: if n % 4 == 0 { 1 } else { 2 },
                                            v6: n % 8 == 3,
                                            seed: n as u64,
                                            peer,
                                            listen_localhost: false,
                                            client,
                                            server,
                                            faults: vec![],
                                            manual_order: None,
                                            followups: vec![],
                                            strict: false,
                                        });
                                    }
                                }
                            }
                        }
                    }
                }
            }
        }
    }
    out
}

/// Fixed family: per-endpoint close sequences.  The subject endpoint (into_split / tokio::io::split
/// / whole stream) writes a 2-chunk request, runs one of the close sequences below on its write
/// side while its reader keeps reading, and lets go of its read half per `ReadDrop`; the peer
/// answers AFTERWARDS (it reads the request to EOF or exactly, or it writes slowly with pauses),
/// so its bytes arrive when the subject's write side is already closed / dropped.
fn close_sequence_space() -> Vec<Scenario> {
    use CloseStep::*;
    let mut out = Vec::new();
    let modes = [Mode::IntoSplit, Mode::TokioSplit, Mode::WholeSeq];
    let plans: Vec<Vec<CloseStep>> = vec![
        vec![Shutdown],
        vec![DropWrite],
        vec![Shutdown, DropWrite],
        vec![Shutdown, Wait(5), DropWrite],
        vec![Wait(3), Shutdown, DropWrite],
        vec![Shutdown, Shutdown],
        vec![Shutdown, Shutdown, DropWrite],
        vec![Shutdown, Wait(30)],
    ];
    for mode in modes {
        for plan in &plans {
            for read_drop in [ReadDrop::AfterWriter, ReadDrop::WhenDone, ReadDrop::AfterWriterWriteFirst, ReadDrop::Reunite] {
                if read_drop == ReadDrop::Reunite && mode != Mode::IntoSplit {
                    continue;
                }
                // peer: 0 = responder reading to EOF, 1 = responder reading exactly the request,
                // 2 = concurrent slow writer
                for peer_kind in 0..3 {
                    for subject_is_client in [true, false] {
                        for (peer, lat) in [(PeerKind::Remote, (1u32, 1u32)), (PeerKind::Remote, (1, 9)), (PeerKind::SameHostOwnAddr, (1, 1)), (PeerKind::Loopback, (1, 1))] {
                            let n = out.len();
                            let subject = Side {
                                mode,
                                chunks: vec![3, 1],
                                write_pauses: vec![],
                                close: Close::Shutdown,
                                reads: vec![(if n % 2 == 0 { 16 } else { 1 }, n % 3 == 0, 0)],
                                reader_quits_after: None,
                                reader_delay: 0,
                                reply: Reply::Concurrent,
                                half_drop: HalfDrop::ReadThenWrite,
                                linger_ms: 0,
                                close_steps: plan.clone(),
                                read_drop,
                            };
                            let other = Side {
                                mode: modes[n % 3],
                                chunks: vec![2, 3, 1],
                                write_pauses: if peer_kind == 2 { vec![7] } else { vec![] },
                                close: if n % 2 == 0 { Close::Shutdown } else { Close::DropWriteHalf },
                                reads: vec![(if n % 5 < 2 { 4 } else { 3 }, n % 7 == 0, 0)],
                                reader_quits_after: if peer_kind == 1 { Some(4) } else { None },
                                reader_delay: 0,
                                reply: if peer_kind == 2 { Reply::Concurrent } else { Reply::AfterRead },
                                half_drop: [HalfDrop::ReadThenWrite, HalfDrop::WriteThenRead, HalfDrop::ReadBeforeReply][(n / 3) % 3],
                                linger_ms: if n % 4 == 1 { 12 } else { 0 },
                                close_steps: vec![],
                                read_drop: ReadDrop::AfterWriter,
                            };
                            let (mut client, mut server) = if subject_is_client { (subject, other) } else { (other, subject) };
                            let capacity = if n % 4 == 0 { 1 } else { 3 };
                            no_double_wholeseq_deadlock(&mut client, &mut server, capacity);
                            out.push(Scenario {
                                tick_ms: 1,
                                lat_min: lat.0,
                                lat_max: lat.1,
                                capacity,
                                v6: n % 8 == 5,
                                seed: n as u64,
                                peer,
                                listen_localhost: false,
                                client,
                                server,
                                faults: vec![],
                                manual_order: None,
                                followups: vec![],
                                strict: false,
                            });
                        }
                    }
                }
            }
        }
    }
    out
}

/// Fixed family: one write call of a size around / above 64 KiB in the middle of a stream of small
/// writes, for every endpoint mode on the writing side, three read-buffer plans and two peers.
fn big_write_space() -> Vec<Scenario> {
    let mut out = Vec::new();
    for mode in [Mode::IntoSplit, Mode::TokioSplit, Mode::WholeSeq] {
        for size in [4096u32, 65_534, 65_535, 65_536, 65_537, 65_600, 100_000, 131_071, 131_072, 200_001, 1_048_576] {
            for at in [0usize, 1, 2] {
                for reads in [vec![(70_000u32, false, 0u8)], vec![(1 << 20, true, 0), (4096, false, 0)], vec![(997, false, 0), (64, true, 0)]] {
                    for (peer, lat) in [(PeerKind::Remote, (1u32, 6u32)), (PeerKind::Loopback, (1, 1))] {
                        let n = out.len();
                        let mut chunks = vec![5u32, 2];
                        chunks.insert(at, size);
                        let wside = Side {
                            mode,
                            chunks,
                            write_pauses: vec![],
                            close: if n % 2 == 0 { Close::Shutdown } else { Close::DropWriteHalf },
                            reads: vec![(8, false, 0)],
                            reader_quits_after: None,
                            reader_delay: 0,
                            reply: Reply::Concurrent,
                            half_drop: HalfDrop::ReadThenWrite,
                            linger_ms: 0,
                            close_steps: vec![],
                            read_drop: ReadDrop::AfterWriter,
                        };
                        let mut rside = Side {
                            mode: [Mode::IntoSplit, Mode::WholeSeq, Mode::TokioSplit][n % 3],
                            chunks: if n % 2 == 0 { vec![] } else { vec![3] },
                            write_pauses: vec![],
                            close: Close::Shutdown,
                            reads: reads.clone(),
                            reader_quits_after: None,
                            reader_delay: if n % 5 == 0 { 9 } else { 0 },
                            reply: Reply::Concurrent,
                            half_drop: HalfDrop::ReadThenWrite,
                            linger_ms: 0,
                            close_steps: vec![],
                            read_drop: ReadDrop::AfterWriter,
                        };
                        tame(&wside, &mut rside);
                        let (mut client, mut server) = if n % 4 < 2 { (wside, rside) } else { (rside, wside) };
                        let capacity = [1usize, 2, 64][n % 3];
                        no_double_wholeseq_deadlock(&mut client, &mut server, capacity);
                        out.push(Scenario {
                            tick_ms: 1,
                            lat_min: lat.0,
                            lat_max: lat.1,
                            capacity,
                            v6: n % 8 == 1,
                            seed: n as u64,
                            peer,
                            listen_localhost: false,
                            client,
                            server,
                            faults: vec![],
                            manual_order: None,
                            followups: vec![],
                            strict: false,
                        });
                    }
                }
            }
        }
    }
    out
}

/// Clamp a structurally decoded scenario into the generator's domain (fuzz tier).
pub fn fuzz_sanitize(sc: &mut Scenario) -> bool {
    sc.tick_ms = 1 + sc.tick_ms % 4;
    sc.lat_min %= 9;
    sc.lat_max = sc.lat_min + sc.lat_max % 31;
    sc.capacity = if sc.capacity % 4 == 0 { 64 } else { sc.capacity % 4 };
    sc.manual_order = None;
    sc.followups.truncate(MAX_FOLLOWUPS);
    let capacity = sc.capacity;
    let mut sides: Vec<&mut Side> = vec![&mut sc.client, &mut sc.server];
    for f in sc.followups.iter_mut() {
        f.gap_ms %= 46;
        sides.push(&mut f.client);
        sides.push(&mut f.server);
    }
    for s in sides.iter_mut() {
        s.chunks.truncate(12);
        // fuzz domain of one write call: 1..=300 mostly; top byte >= 240: up to 70 000; top byte
        // >= 250: 65 530..=65 545 (the 64 KiB boundary).  No MiB-sized writes here (exec speed);
        // at most two writes above 4 KiB per side.
        let mut bigs = 0;
        for c in s.chunks.iter_mut() {
            let sel = *c >> 24;
            *c = if sel >= 250 {
                65_530 + *c % 16
            } else if sel >= 240 {
                1 + *c % 70_000
            } else {
                1 + *c % 300
            };
            if *c > 4096 {
                bigs += 1;
                if bigs > 2 {
                    *c = 1 + *c % 300;
                }
            }
        }
        s.write_pauses.truncate(4);
        for p in s.write_pauses.iter_mut() {
            *p %= 7;
        }
        s.reads.truncate(5);
        for r in s.reads.iter_mut() {
            // buffers 0..=400 mostly; top byte >= 250: up to 70 000
            r.0 = if r.0 >> 24 >= 250 { r.0 % 70_001 } else { r.0 % 401 };
            r.2 %= 9;
        }
        s.close_steps.truncate(MAX_CLOSE_STEPS);
        for st in s.close_steps.iter_mut() {
            if let CloseStep::Wait(ms) = st {
                *ms %= 21;
            }
        }
        if s.reads.iter().all(|r| r.0 == 0) {
            s.reads.push((3, false, 0));
        }
        s.reader_quits_after = s.reader_quits_after.map(|q| q % 40);
        s.reader_delay %= 61;
        s.linger_ms %= 91;
    }
    for pair in sides.chunks_mut(2) {
        if let [c, s] = pair {
            no_double_wholeseq_deadlock(c, s, capacity);
            // two endpoints that both read before they write would wait for each other
            if c.reply == Reply::AfterRead && s.reply == Reply::AfterRead {
                s.reply = Reply::Concurrent;
            }
            // a replying endpoint stops at exactly the peer's byte count when the decoded quit
            // count is odd (the structural decoder cannot hit the exact value by chance), and
            // its peer keeps reading to EOF
            fn fix(x: &mut Side, y: &mut Side) {
                if x.reply == Reply::AfterRead {
                    let total: u32 = y.chunks.iter().map(|c| *c as u32).sum();
                    if let Some(q) = x.reader_quits_after {
                        if q % 2 == 1 {
                            x.reader_quits_after = Some(total);
                        }
                    }
                    y.reader_quits_after = None;
                }
            }
            fix(c, s);
            fix(s, c);
            let (wc, ws) = ((**c).clone(), (**s).clone());
            tame(&wc, s);
            tame(&ws, c);
        }
    }
    sc.strict = false;
    // faults: keep at most one hold->release or partition->repair pair
    let first = sc.faults.first().cloned();
    sc.faults = match first {
        Some((a, Fault::Hold)) | Some((a, Fault::Release)) => vec![(2 + a % 38, Fault::Hold), (2 + a % 38 + 1 + (a >> 8) % 19, Fault::Release)],
        Some((a, _)) => vec![(2 + a % 38, Fault::Partition), (2 + a % 38 + 1 + (a >> 8) % 19, Fault::Repair)],
        None => vec![],
    };
    true
}

fn check(tier: Tier, seed: u64) -> i32 {
    let ctx = Ctx::new("C02", tier, seed, "exploration");
    ctx.replay_corpus(&replay);
    let space = exhaustive_space(tier);
    let desc = format!(
        "{} scenarios: for k = 1..={} data segments + FIN held on the link, every one of the (k+1)! delivery orders (one message per step through Sim::links), x capacity in {{k, k+1, 64}} x 3 reader plans (fast, 1-byte with peeks, late 2-byte) x 2 close modes",
        space.len(),
        tier.pick(3, 5)
    );
    ctx.exhaustive("delivery-orders", &desc, Box::new(space.into_iter()), &run);
    let rr = request_response_space();
    let rr_desc = format!(
        "{} scenarios: half-close request/response — requester (3 endpoint modes x shutdown/write-half drop) writes 2 chunks, closes its write side and reads to EOF; responder (3 endpoint modes x half-drop order incl. read half dropped before the reply x shutdown/drop) reads exactly the request without reading the EOF (or, control, to EOF), lingers 0/3/60 ms, replies with 2 chunks and drops; either endpoint as responder; remote fixed and ranged latency, same-host, 127.0.0.1",
        rr.len()
    );
    ctx.exhaustive("half-close-request-response", &rr_desc, Box::new(rr.into_iter()), &run);
    let cs = close_sequence_space();
    let cs_desc = format!(
        "{} scenarios: per-endpoint close sequences — the subject endpoint (into_split / tokio::io::split / whole stream) writes 2 chunks, then runs one of 8 sequences on its write side (shutdown; drop write half; shutdown then drop, with a wait before / in between; shutdown twice; shutdown twice then drop; shutdown then wait) while its reader keeps reading to EOF, and drops its read half after the writer (read first / write first / reunited) or at once on EOF; the peer (3 modes) answers afterwards: responder reading to EOF, responder reading exactly the request, or concurrent slow writer; either endpoint as client; remote fixed and ranged latency, same-host, 127.0.0.1",
        cs.len()
    );
    ctx.exhaustive("close-sequences", &cs_desc, Box::new(cs.into_iter()), &run);
    let bw = big_write_space();
    let bw_desc = format!(
        "{} scenarios: one write call of 4096 / 65534 / 65535 / 65536 / 65537 / 65600 / 100000 / 131071 / 131072 / 200001 / 1048576 bytes at position 0, 1 or 2 of a stream of small writes, writer in each of the 3 endpoint modes (write / try_write), 3 read-buffer plans (70000; 1 MiB with peek + 4096; 997 + 64 with peek), remote ranged latency and 127.0.0.1, capacity 1 / 2 / 64",
        bw.len()
    );
    ctx.exhaustive("big-writes", &bw_desc, Box::new(bw.into_iter()), &run);
    ctx.random("random", tier.pick(12_000, 160_000), &|| strategy(), &run);
    ctx.finish(
        "bounded-exhaustive delivery orders of k data segments + FIN (see exhaustive_subspaces) plus random sequences of 1-4 connections between the same two endpoints (half of the cases a single connection; otherwise the same client task opens the next connection to the same listener 0-45 ms, mostly 0 ms, after its endpoint of the previous one returned: after reading to EOF, or after dropping the stream right after connect / after a few bytes while the server is still writing, i.e. graceful and abortive early closes with segments of the old connection still in flight; every connection has its own byte pattern and is checked against the bytes written on THAT connection; the server handles the connections concurrently): tick, ranged or fixed latency, tcp_capacity 1-4 or 64, v4/v6, remote / same-host / 127.0.0.1 peers, both directions concurrently with generated write chunkings (many 1-byte), write pauses, reader buffer sizes including 0 and 1 with interleaved peeks, slow and late readers, three endpoint modes (into_split, tokio::io::split, whole stream with try_write+writable), shutdown or write-half drop, early reader quit, hold/release and partition/repair mid-stream; sizes of single write calls are heavy-tailed (1-16 mostly, some up to 300, a few up to 1000, about 1% 4095/4096/4097 or 1001-9000, and about 1 side in 60 gets one big write call at a random position of its stream: 65535, 65536, 65537, 65538-70000, 100000, 70001-300000, 1 MiB or 1 MiB + 1 — 4-5% of the cases, 1 MiB in about 0.6%), read buffers likewise (0, 1, 2-9, 10-400 mostly, a few up to 5000, rarely 65535/65536/65537/1 MiB/5001-200000), the byte pattern has no period below 16 MiB so lost or shifted bytes show at every offset; for streams above 1 KiB the read plan of the receiving side is tamed (pauses removed, small buffers raised) so that the run stays within a few thousand steps (also the fixed family big-writes); 60% of the sides carry a close sequence of 1-4 steps (shutdown / drop the write half / wait 0-20 ms, in any order and repetition, normalised: nothing after the drop, no write-half drop on a whole stream, tokio::io::split shuts down before its write half is dropped, the sequence always closes the write side) executed by the writer while the sibling reader keeps reading, and a read-half policy (dropped at once when the reader is done while the writer task may still be busy / after the writer, read half first / after the writer, write half first / halves reunited and dropped as a whole stream), for concurrent endpoints, requesters and responders alike (also the fixed family close-sequences); what a repeated shutdown returns is not checked; about 40% of the connections are shaped as half-close request/response (also the fixed family half-close-request-response): one endpoint writes its request, closes its write side and keeps reading to EOF, the other reads first — exactly the request bytes without ever reading the EOF (most), to EOF (control) or 1-3 bytes short (abortive) — lingers 0-90 ms (so the peer's FIN is either still on the wire or queued unread), then writes its reply and drops the whole stream / both tokio halves / both owned halves in either order / the owned read half BEFORE the reply; a fifth of the shaped connections instead keep both endpoints concurrent and only stop one reader at exactly the peer's byte count. A reader that stops before EOF makes the connection abortive only if, when it stopped, the peer had not yet closed its write side or accepted bytes were unconsumed; otherwise (nothing unread, nothing but the FIN can still arrive) the drop is graceful and the delivery half stays in force: the peer must read every reply byte and then EOF, no ConnectionReset/BrokenPipe. Oracle: byte-FIFO model — every read/peek returns the next bytes of the peer's accepted stream and never more than accepted so far; EOF only after the writer closed and all bytes were consumed; on a healthy link with a graceful close every accepted byte and EOF arrive within a configuration-derived step budget. Non-trivial = segments can overtake each other (remote, max > min + tick, >= 2 segments) or a write blocked / returned WouldBlock or FIN met a full receive queue, or a connection was opened while the previous one between the same endpoints still had accepted-but-unconsumed bytes, or a manual delivery order of >= 2 messages, or an endpoint dropped its read side gracefully without reading the peer's EOF and wrote at least one byte, or an endpoint shut down and then dropped its write half while its read half lived on and read more bytes afterwards, or a single write call of >= 64 KiB was accepted and that much was read. Distinct by scenario hash.",
        &[
            "under partitions or an abortive close only the prefix (safety) half is asserted (per connection: an early quit on one connection does not relax the delivery half of the following ones)",
            "an early quit is abortive (decided when the reader stops, from the harness's own byte counts) unless the peer's writer had already closed and every accepted byte had been consumed; an unread FIN is not unread data (property text: 'a drop while no inbound data is unread'; RFC 9293 3.10.4; comment in ReadHalf::drop)",
            "graceful quits are classed by simulated time: the peer's FIN was certainly delivered if the read side was dropped >= lat_max + 2 ticks (same host: 2 ticks) after the peer closed and the scenario has no hold/partition; otherwise it may still have been in flight. In the in-flight class a ConnectionReset/BrokenPipe has its own signature (finding F-C02-2) and is tolerated only while known_findings.json lists F-C02-2 as known (counted under excluded); Scenario.strict asserts it regardless",
            "at most one endpoint of a connection reads before it writes (two would wait for each other)",
            "connections of a sequence are opened strictly one after the other by one client task, so the k-th accept is the k-th connect; a connection that is never opened because an earlier abortive one (no liveness promised) still occupies the client is skipped (label sequence-cut-short)",
            "the default ephemeral port range is used, so on the unchanged tree no two connections of a sequence share a SocketPair",
            "a zero-length read returning Ok(0) is not treated as EOF",
            "close sequences: an explicit shutdown followed by dropping that same write half (owned, tokio or none for a whole stream) is a graceful close of the write side only: as long as the sibling read half / the stream is alive and reading, the delivery half applies to what the peer sends afterwards; dropping the read half after it returned EOF is graceful whatever the writer is doing; the result of a second shutdown on the same half is not asserted",
            "a single write call may be of any size up to 1 MiB + 1 (fuzz tier: up to 70 000): whatever count it returns is what the reader must receive, byte for byte; the harness repeats the call for the rest after a short write",
            "two whole-stream sequential endpoints never both write more than the capacity before reading (that would be an application-level deadlock)",
            "liveness is bounded: the step budget is >= 10x the worst schedule the generator can produce",
        ],
    )
}

fn replay(_sub: &str, v: &Value) -> Result<Outcome, String> {
    replay_as::<Scenario>(v, &run)
}

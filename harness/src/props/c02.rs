//! C02 — turmoil::net TCP delivers an intact, ordered byte stream and then
//! EOF.  DESIGN.md §6 C02.  SimDriver + byte-FIFO model per direction and per
//! connection (sequences of connections between the same two endpoints).

use crate::engine::{replay_as, Ctx, Outcome, Tier};
use proptest::prelude::*;
use serde::{Deserialize, Serialize};
use serde_json::Value;
use std::cell::RefCell;
use std::rc::Rc;
use std::time::{Duration, SystemTime};
use tokio::io::{AsyncRead, AsyncReadExt, AsyncWrite, AsyncWriteExt};
use turmoil::net::{TcpListener, TcpStream};

pub const PROP: super::Prop = super::Prop {
    id: "C02",
    level: "exploration",
    check,
    replay,
};

#[derive(Clone, Copy, Debug, Serialize, Deserialize, PartialEq, Eq)]
pub enum PeerKind {
    Remote,
    SameHostOwnAddr,
    Loopback,
}

#[derive(Clone, Copy, Debug, Serialize, Deserialize, PartialEq, Eq)]
pub enum Mode {
    /// TcpStream::into_split, reader and writer in separate tasks
    IntoSplit,
    /// tokio::io::split over the whole TcpStream, two tasks
    TokioSplit,
    /// one task: try_write+writable for all writes, shutdown, then read/peek to EOF
    WholeSeq,
}

#[derive(Clone, Copy, Debug, Serialize, Deserialize, PartialEq, Eq)]
pub enum Close {
    Shutdown,
    DropWriteHalf,
}

/// When an endpoint writes relative to its reading.
#[derive(Clone, Copy, Debug, Default, Serialize, Deserialize, PartialEq, Eq)]
pub enum Reply {
    /// split modes: reader and writer run concurrently; WholeSeq: all writes + shutdown, then reads
    #[default]
    Concurrent,
    /// request/response: the endpoint first reads (to EOF, or to its `reader_quits_after` count
    /// without ever reading the EOF), waits `linger_ms`, only then writes its chunks (the reply),
    /// closes per `close` and drops the stream / both halves (order: `half_drop`)
    AfterRead,
}

/// Order in which a replying endpoint (Reply::AfterRead) lets go of its two halves.
#[derive(Clone, Copy, Debug, Default, Serialize, Deserialize, PartialEq, Eq)]
pub enum HalfDrop {
    /// after the reply: read half, then write half (WholeSeq: the whole stream at once)
    #[default]
    ReadThenWrite,
    /// after the reply: write half, then read half
    WriteThenRead,
    /// into_split only: the read half is dropped as soon as the reader is done, BEFORE the reply
    /// is written through the surviving write half (other modes: as ReadThenWrite)
    ReadBeforeReply,
}

#[derive(Clone, Debug, Serialize, Deserialize)]
pub struct Side {
    pub mode: Mode,
    /// sizes of successive write calls
    pub chunks: Vec<u16>,
    /// pause (ms) before write i (cycled)
    pub write_pauses: Vec<u8>,
    pub close: Close,
    /// (buffer size, peek first?, pause ms before) cycled until EOF
    pub reads: Vec<(u16, bool, u8)>,
    /// stop reading after this many bytes and drop the stream (abortive if data unread)
    pub reader_quits_after: Option<u32>,
    /// ms the reader waits before its first read (slow reader => back-pressure)
    pub reader_delay: u16,
    #[serde(default)]
    pub reply: Reply,
    #[serde(default)]
    pub half_drop: HalfDrop,
    /// Reply::AfterRead: ms between the end of reading and the reply (lets the peer's FIN arrive
    /// and sit unread in the receive queue)
    #[serde(default)]
    pub linger_ms: u16,
}

#[derive(Clone, Copy, Debug, Serialize, Deserialize, PartialEq, Eq)]
pub enum Fault {
    Hold,
    Release,
    Partition,
    Repair,
}

#[derive(Clone, Debug, Serialize, Deserialize)]
pub struct Scenario {
    pub tick_ms: u32,
    pub lat_min: u32,
    pub lat_max: u32,
    pub capacity: usize,
    pub v6: bool,
    pub seed: u64,
    pub peer: PeerKind,
    pub listen_localhost: bool,
    pub client: Side,
    pub server: Side,
    /// (after this many steps, fault) — Remote only
    pub faults: Vec<(u32, Fault)>,
    /// exhaustive tier: hold the link once connected, let the client emit its
    /// segments + FIN, then deliver the held messages in this order (indices
    /// into the client's emission order: 0..k-1 data, k = FIN), one per step
    pub manual_order: Option<Vec<usize>>,
    /// further connections between the same two endpoints, opened one after the
    /// other by the same client task to the same listener: connection k+1 is
    /// opened `gap_ms` after the client's endpoint of connection k has finished
    /// (0 = at once, typically while segments of connection k are still in
    /// flight).  Every connection is checked against the bytes written on THAT
    /// connection (each has its own byte pattern).
    #[serde(default)]
    pub followups: Vec<Followup>,
    /// assert every clause even where a finding that is still "known" would be tolerated
    #[serde(default)]
    pub strict: bool,
}

#[derive(Clone, Debug, Serialize, Deserialize)]
pub struct Followup {
    pub gap_ms: u16,
    pub client: Side,
    pub server: Side,
}

pub const MAX_FOLLOWUPS: usize = 3;

/// signature of finding F-C02-2
pub const LATE_FIN_SIG: &str = "reset-after-drop-with-nothing-unread-before-peer-fin-arrived";

/// A finding is tolerated only while /verif/known_findings.json lists it with status "known".
pub fn is_known(id: &str) -> bool {
    static KNOWN: std::sync::OnceLock<Vec<String>> = std::sync::OnceLock::new();
    KNOWN
        .get_or_init(|| {
            crate::engine::load_findings()
                .into_iter()
                .filter(|f| f.property == "C02" && f.status == "known")
                .map(|f| f.id)
                .collect()
        })
        .iter()
        .any(|k| k == id)
}

/// `dir` = direction (0 client->server, 1 server->client) + 2 * connection index;
/// the patterns of two different (connection, direction) streams differ in every byte
fn byte(dir: usize, i: usize) -> u8 {
    ((i.wrapping_mul(131)) ^ (dir * 17) ^ ((i >> 8).wrapping_mul(7)) ^ 0x5c) as u8
}

#[derive(Default, Debug)]
struct Dir {
    accepted: usize,
    consumed: usize,
    eof: bool,
    reader_error: Option<String>,
    writer_error: Option<String>,
    writer_closed: bool,
    would_block: u64,
    write_pending: u64,
    peeks: u64,
    reader_done: bool,
    writer_done: bool,
    reader_quit: bool,
    segments: u64,
    /// the reader quit (stopped before EOF) at a moment when the writer of this direction had
    /// already closed its write side and every accepted byte had been consumed: nothing is unread
    /// at the quitter and nothing can arrive any more except the FIN => its drop is graceful
    quit_graceful: bool,
    /// simulated time at which the writer of this direction closed (FIN emitted)
    closed_at: Option<Duration>,
    /// simulated time at which the quitting reader of this direction dropped its read side
    read_dropped_at: Option<Duration>,
}

#[derive(Default)]
struct Shared {
    /// dir 0 = client->server, 1 = server->client
    dirs: [RefCell<Dir>; 2],
    fail: RefCell<Option<(String, String)>>,
    connect_err: RefCell<Option<String>>,
    connected: RefCell<bool>,
    /// index of this connection in the sequence (0 = first)
    conn: usize,
    /// the client's endpoint of this connection has returned (everything dropped)
    client_finished: RefCell<bool>,
    /// classification only: when this connection was opened, the previous one still had
    /// accepted bytes its reader had not consumed (in flight, parked or dropped unread)
    old_outstanding: RefCell<bool>,
}

impl Shared {
    fn fail(&self, sig: &str, detail: String) {
        let mut f = self.fail.borrow_mut();
        if f.is_none() {
            *f = Some((sig.to_string(), format!("connection #{}: {detail}", self.conn)));
        }
    }
    /// byte-pattern selector of direction `d` on this connection
    fn pat(&self, d: usize) -> usize {
        d + 2 * self.conn
    }
}

fn now() -> Duration {
    turmoil::sim_elapsed().unwrap_or_default()
}

/// the writer of direction `d` has closed its write side (shutdown returned / half about to drop)
fn mark_closed(sh: &Shared, d: usize) {
    let mut g = sh.dirs[d].borrow_mut();
    g.writer_closed = true;
    if g.closed_at.is_none() {
        g.closed_at = Some(now());
    }
}

/// the reader of direction `d` is about to drop its read side
fn note_read_drop(sh: &Shared, d: usize) {
    let mut g = sh.dirs[d].borrow_mut();
    if g.read_dropped_at.is_none() {
        g.read_dropped_at = Some(now());
    }
}

async fn pause(ms: u8) {
    if ms > 0 {
        tokio::time::sleep(Duration::from_millis(ms as u64)).await;
    }
}

/// generic writer over any AsyncWrite
async fn writer<W: AsyncWrite + Unpin>(sh: Rc<Shared>, d: usize, mut w: W, side: Side) -> W {
    let mut off = 0usize;
    for (i, c) in side.chunks.iter().enumerate() {
        let p = if side.write_pauses.is_empty() { 0 } else { side.write_pauses[i % side.write_pauses.len()] };
        pause(p).await;
        let data: Vec<u8> = (0..*c as usize).map(|j| byte(sh.pat(d), off + j)).collect();
        let mut rest = &data[..];
        while !rest.is_empty() {
            // count a blocked write (Pending on first poll)
            let r = {
                let fut = w.write(rest);
                tokio::pin!(fut);
                match crate::drivers::sel::poll_once(&mut fut).await {
                    Some(r) => r,
                    None => {
                        sh.dirs[d].borrow_mut().write_pending += 1;
                        fut.await
                    }
                }
            };
            match r {
                Ok(0) => {
                    sh.dirs[d].borrow_mut().writer_error = Some("write returned 0".into());
                    sh.dirs[d].borrow_mut().writer_done = true;
                    return w;
                }
                Ok(n) => {
                    if n > rest.len() {
                        sh.fail("write-returned-more-than-given", format!("dir {d}: wrote {n} of {}", rest.len()));
                    }
                    let mut g = sh.dirs[d].borrow_mut();
                    g.accepted += n;
                    g.segments += 1;
                    off += n;
                    rest = &rest[n.min(rest.len())..];
                }
                Err(e) => {
                    let mut g = sh.dirs[d].borrow_mut();
                    g.writer_error = Some(format!("{:?}", e.kind()));
                    g.writer_done = true;
                    return w;
                }
            }
        }
    }
    if side.close == Close::Shutdown {
        if let Err(e) = w.shutdown().await {
            sh.dirs[d].borrow_mut().writer_error = Some(format!("shutdown {:?}", e.kind()));
        }
    }
    mark_closed(&sh, d);
    sh.dirs[d].borrow_mut().writer_done = true;
    w
}

enum Peeker<'a> {
    Owned(&'a mut turmoil::net::tcp::OwnedReadHalf),
    Whole(&'a mut TcpStream),
    None,
}

/// check bytes read/peeked in direction d starting at `from`
fn check_bytes(sh: &Shared, d: usize, from: usize, got: &[u8], what: &str) -> bool {
    let acc = sh.dirs[d].borrow().accepted;
    if from + got.len() > acc {
        sh.fail(
            &format!("{what}-returned-bytes-never-written"),
            format!("dir {d}: {what} returned {} bytes at offset {from}, only {acc} accepted so far", got.len()),
        );
        return false;
    }
    for (j, b) in got.iter().enumerate() {
        if *b != byte(sh.pat(d), from + j) {
            sh.fail(
                &format!("{what}-bytes-differ-from-written-stream"),
                format!("dir {d}: {what} at stream offset {} returned {b:#x}, writer sent {:#x} (chunk of {} at {from})", from + j, byte(sh.pat(d), from + j), got.len()),
            );
            return false;
        }
    }
    true
}

async fn reader_loop<R: AsyncRead + Unpin>(
    sh: Rc<Shared>,
    d: usize,
    r: &mut R,
    side: &Side,
    mut peek: impl for<'a> FnMut(&'a mut R, usize) -> Option<std::pin::Pin<Box<dyn std::future::Future<Output = std::io::Result<Vec<u8>>> + 'a>>>,
) {
    if side.reader_delay > 0 {
        tokio::time::sleep(Duration::from_millis(side.reader_delay as u64)).await;
    }
    let mut i = 0usize;
    let mut peek_saw_eof = false;
    loop {
        let (sz, pk, p) = if side.reads.is_empty() { (64u16, false, 0u8) } else { side.reads[i % side.reads.len()] };
        i += 1;
        pause(p).await;
        if let Some(q) = side.reader_quits_after {
            if sh.dirs[d].borrow().consumed >= q as usize {
                let mut g = sh.dirs[d].borrow_mut();
                g.reader_quit = true;
                g.quit_graceful = g.writer_closed && g.consumed == g.accepted;
                break;
            }
        }
        if pk {
            let consumed = sh.dirs[d].borrow().consumed;
            if let Some(f) = peek(r, sz as usize) {
                match f.await {
                    Ok(v) => {
                        sh.dirs[d].borrow_mut().peeks += 1;
                        if v.len() > sz as usize {
                            sh.fail("peek-returned-more-than-buffer", format!("dir {d}: {} > {sz}", v.len()));
                        }
                        if !check_bytes(&sh, d, consumed, &v, "peek") {
                            break;
                        }
                        if v.is_empty() && sz > 0 {
                            peek_saw_eof = true;
                        }
                    }
                    Err(e) => {
                        sh.dirs[d].borrow_mut().reader_error = Some(format!("peek {:?}", e.kind()));
                        break;
                    }
                }
            }
        }
        let mut buf = vec![0u8; sz as usize];
        match r.read(&mut buf).await {
            Ok(n) => {
                if n > sz as usize {
                    sh.fail("read-returned-more-than-buffer", format!("dir {d}: {n} > {sz}"));
                    break;
                }
                let consumed = sh.dirs[d].borrow().consumed;
                if n == 0 {
                    if sz == 0 {
                        // zero-length read: not EOF; avoid spinning forever on it
                        if side.reads.iter().all(|(s, _, _)| *s == 0) {
                            break;
                        }
                        tokio::time::sleep(Duration::from_millis(1)).await;
                        continue;
                    }
                    let mut g = sh.dirs[d].borrow_mut();
                    g.eof = true;
                    // EOF only after the writer closed and everything was consumed
                    if !g.writer_closed {
                        drop(g);
                        sh.fail("eof-before-writer-closed", format!("dir {d}: EOF at {consumed} but the writer has not shut down or dropped"));
                    } else if consumed != g.accepted {
                        let acc = g.accepted;
                        drop(g);
                        sh.fail("eof-before-all-bytes-delivered", format!("dir {d}: EOF after {consumed} bytes, {acc} were accepted"));
                    }
                    break;
                }
                if peek_saw_eof {
                    sh.fail("data-after-peek-reported-eof", format!("dir {d}: read {n} bytes after a peek returned EOF"));
                    break;
                }
                if !check_bytes(&sh, d, consumed, &buf[..n], "read") {
                    break;
                }
                sh.dirs[d].borrow_mut().consumed += n;
            }
            Err(e) => {
                sh.dirs[d].borrow_mut().reader_error = Some(format!("{:?}", e.kind()));
                break;
            }
        }
    }
    // after EOF nothing more may be read
    if sh.dirs[d].borrow().eof {
        let mut buf = [0u8; 8];
        match r.read(&mut buf).await {
            Ok(0) => {}
            Ok(n) => sh.fail("data-read-after-eof", format!("dir {d}: {n} bytes after EOF")),
            Err(_) => {}
        }
    }
    sh.dirs[d].borrow_mut().reader_done = true;
}

type PeekFut<'a> = std::pin::Pin<Box<dyn std::future::Future<Output = std::io::Result<Vec<u8>>> + 'a>>;

fn peek_owned(r: &mut turmoil::net::tcp::OwnedReadHalf, sz: usize) -> Option<PeekFut<'_>> {
    Some(Box::pin(async move {
        let mut b = vec![0u8; sz];
        let n = r.peek(&mut b).await?;
        b.truncate(n);
        Ok(b)
    }))
}

fn peek_whole(r: &mut TcpStream, sz: usize) -> Option<PeekFut<'_>> {
    Some(Box::pin(async move {
        let mut b = vec![0u8; sz];
        let n = r.peek(&mut b).await?;
        b.truncate(n);
        Ok(b)
    }))
}

/// All writes of `side` on a whole stream through try_write + writable.  Returns false when a
/// write failed (error recorded).
async fn whole_write(sh: &Shared, wd: usize, s: &mut TcpStream, side: &Side) -> bool {
    let mut off = 0usize;
    for (i, c) in side.chunks.iter().enumerate() {
        let p = if side.write_pauses.is_empty() { 0 } else { side.write_pauses[i % side.write_pauses.len()] };
        pause(p).await;
        let data: Vec<u8> = (0..*c as usize).map(|j| byte(sh.pat(wd), off + j)).collect();
        let mut rest = &data[..];
        while !rest.is_empty() {
            match s.try_write(rest) {
                Ok(n) => {
                    let mut g = sh.dirs[wd].borrow_mut();
                    g.accepted += n;
                    g.segments += 1;
                    off += n;
                    rest = &rest[n.min(rest.len())..];
                }
                Err(e) if e.kind() == std::io::ErrorKind::WouldBlock => {
                    sh.dirs[wd].borrow_mut().would_block += 1;
                    if let Err(e) = s.writable().await {
                        sh.dirs[wd].borrow_mut().writer_error = Some(format!("writable {:?}", e.kind()));
                        return false;
                    }
                }
                Err(e) => {
                    sh.dirs[wd].borrow_mut().writer_error = Some(format!("{:?}", e.kind()));
                    return false;
                }
            }
        }
    }
    true
}

/// Run one endpoint: `wd` is the direction it writes, `rd` the one it reads.
async fn endpoint(sh: Rc<Shared>, stream: TcpStream, side: Side, wd: usize, rd: usize) {
    if side.reply == Reply::AfterRead {
        return responder(sh, stream, side, wd, rd).await;
    }
    match side.mode {
        Mode::IntoSplit => {
            let (mut r, w) = stream.into_split();
            let (sh2, side2) = (sh.clone(), side.clone());
            let wt = tokio::task::spawn_local(async move {
                let w = writer(sh2, wd, w, side2.clone()).await;
                if side2.close == Close::DropWriteHalf {
                    drop(w);
                    None
                } else {
                    Some(w)
                }
            });
            reader_loop(sh.clone(), rd, &mut r, &side, peek_owned).await;
            if sh.dirs[rd].borrow().reader_quit {
                // drop the read half now, while the writer task goes on (abortive => RST if data
                // is unread; graceful if the peer had closed and everything was consumed)
                note_read_drop(&sh, rd);
                drop(r);
                let _ = wt.await;
            } else {
                let keep = wt.await;
                drop(r);
                drop(keep);
            }
        }
        Mode::TokioSplit => {
            let (mut r, w) = tokio::io::split(stream);
            let (sh2, side2) = (sh.clone(), side.clone());
            let wt = tokio::task::spawn_local(async move { writer(sh2, wd, w, Side { close: Close::Shutdown, ..side2 }).await });
            reader_loop(sh.clone(), rd, &mut r, &side, |_r, _sz| None).await;
            let w = wt.await;
            note_read_drop(&sh, rd);
            drop(r);
            drop(w);
        }
        Mode::WholeSeq => {
            let mut s = stream;
            if whole_write(&sh, wd, &mut s, &side).await {
                if let Err(e) = s.shutdown().await {
                    sh.dirs[wd].borrow_mut().writer_error = Some(format!("shutdown {:?}", e.kind()));
                }
                mark_closed(&sh, wd);
            }
            sh.dirs[wd].borrow_mut().writer_done = true;
            reader_loop(sh.clone(), rd, &mut s, &side, peek_whole).await;
            note_read_drop(&sh, rd);
            drop(s);
        }
    }
}

/// Reply::AfterRead — request/response: read first (to EOF or to the exact quit count, never
/// reading the EOF), linger, write the reply, close, drop.
async fn responder(sh: Rc<Shared>, stream: TcpStream, side: Side, wd: usize, rd: usize) {
    let linger = Duration::from_millis(side.linger_ms as u64);
    match side.mode {
        Mode::IntoSplit => {
            let (mut r, w) = stream.into_split();
            reader_loop(sh.clone(), rd, &mut r, &side, peek_owned).await;
            if !linger.is_zero() {
                tokio::time::sleep(linger).await;
            }
            let mut r = Some(r);
            if side.half_drop == HalfDrop::ReadBeforeReply {
                note_read_drop(&sh, rd);
                drop(r.take());
            }
            let w = writer(sh.clone(), wd, w, side.clone()).await;
            note_read_drop(&sh, rd);
            if side.half_drop == HalfDrop::WriteThenRead {
                drop(w);
                drop(r);
            } else {
                drop(r);
                drop(w);
            }
        }
        Mode::TokioSplit => {
            let (mut r, w) = tokio::io::split(stream);
            reader_loop(sh.clone(), rd, &mut r, &side, |_r, _sz| None).await;
            if !linger.is_zero() {
                tokio::time::sleep(linger).await;
            }
            // without a shutdown the FIN goes out when the second half (= the stream) is dropped
            let w = writer(sh.clone(), wd, w, side.clone()).await;
            note_read_drop(&sh, rd);
            if side.half_drop == HalfDrop::WriteThenRead {
                drop(w);
                drop(r);
            } else {
                drop(r);
                drop(w);
            }
        }
        Mode::WholeSeq => {
            let mut s = stream;
            reader_loop(sh.clone(), rd, &mut s, &side, peek_whole).await;
            if !linger.is_zero() {
                tokio::time::sleep(linger).await;
            }
            if whole_write(&sh, wd, &mut s, &side).await {
                if side.close == Close::Shutdown {
                    if let Err(e) = s.shutdown().await {
                        sh.dirs[wd].borrow_mut().writer_error = Some(format!("shutdown {:?}", e.kind()));
                    }
                }
                mark_closed(&sh, wd);
            }
            sh.dirs[wd].borrow_mut().writer_done = true;
            note_read_drop(&sh, rd);
            drop(s);
        }
    }
}

pub fn run(sc: &Scenario) -> Outcome {
    let mut out = Outcome::ok();
    let tick = sc.tick_ms.max(1) as u64;
    let lat_min = sc.lat_min.min(sc.lat_max) as u64;
    let lat_max = sc.lat_max.max(sc.lat_min) as u64;
    let cap = sc.capacity.max(1);
    // the sequence of connections: (gap before it, client side, server side)
    let mut conns: Vec<(u16, Side, Side)> = vec![(0, sc.client.clone(), sc.server.clone())];
    if sc.manual_order.is_none() {
        for f in sc.followups.iter().take(MAX_FOLLOWUPS) {
            conns.push((f.gap_ms, f.client.clone(), f.server.clone()));
        }
    }
    let n = conns.len();
    let shs: Vec<Rc<Shared>> = (0..n).map(|k| Rc::new(Shared { conn: k, ..Default::default() })).collect();
    let sh = shs[0].clone();

    let mut b = turmoil::Builder::new();
    b.tick_duration(Duration::from_millis(tick))
        .min_message_latency(Duration::from_millis(lat_min))
        .max_message_latency(Duration::from_millis(lat_max))
        .tcp_capacity(cap)
        .epoch(SystemTime::UNIX_EPOCH + Duration::from_secs(1))
        .rng_seed(sc.seed)
        .simulation_duration(Duration::from_secs(1_000_000));
    if sc.v6 {
        b.ip_version(turmoil::IpVersion::V6);
    }
    let mut sim = b.build();

    let port = 7000u16;
    let bind_ip = match (sc.listen_localhost && sc.peer == PeerKind::Loopback, sc.v6) {
        (true, false) => "127.0.0.1",
        (true, true) => "::1",
        (false, false) => "0.0.0.0",
        (false, true) => "::",
    };
    let peer = sc.peer;
    let v6 = sc.v6;
    let client_fut = {
        let shs = shs.clone();
        let conns = conns.clone();
        move || {
            let shs = shs.clone();
            let conns = conns.clone();
            async move {
                // let the listener bind first
                tokio::time::sleep(Duration::from_millis(1)).await;
                let target: String = match peer {
                    PeerKind::Remote | PeerKind::SameHostOwnAddr => "s".to_string(),
                    PeerKind::Loopback => if v6 { "::1".to_string() } else { "127.0.0.1".to_string() },
                };
                // one connection after the other, each opened only when the client's endpoint of
                // the previous one has returned (all its halves dropped)
                for (k, (gap, side, _)) in conns.iter().enumerate() {
                    let sh = shs[k].clone();
                    if k > 0 {
                        if *gap > 0 {
                            tokio::time::sleep(Duration::from_millis(*gap as u64)).await;
                        }
                        let outstanding = shs[k - 1].dirs.iter().any(|d| {
                            let d = d.borrow();
                            d.accepted > d.consumed
                        });
                        *sh.old_outstanding.borrow_mut() = outstanding;
                    }
                    match TcpStream::connect((target.as_str(), port)).await {
                        Ok(s) => {
                            *sh.connected.borrow_mut() = true;
                            endpoint(sh.clone(), s, side.clone(), 0, 1).await;
                            *sh.client_finished.borrow_mut() = true;
                        }
                        Err(e) => {
                            *sh.connect_err.borrow_mut() = Some(format!("{:?}", e.kind()));
                            break;
                        }
                    }
                }
            }
        }
    };
    {
        let shs = shs.clone();
        let conns = conns.clone();
        let cf = client_fut.clone();
        let same_host = peer != PeerKind::Remote;
        sim.host("s", move || {
            let shs = shs.clone();
            let conns = conns.clone();
            let cf = cf.clone();
            async move {
                let lis = TcpListener::bind((bind_ip, port)).await?;
                if same_host {
                    tokio::task::spawn_local(cf());
                }
                // the client connects sequentially, so the k-th accept is connection k; earlier
                // connections keep running in their own tasks while later ones are accepted
                for (k, (_, _, side)) in conns.iter().enumerate() {
                    let (s, _) = lis.accept().await?;
                    if k + 1 == conns.len() {
                        endpoint(shs[k].clone(), s, side.clone(), 1, 0).await;
                    } else {
                        tokio::task::spawn_local(endpoint(shs[k].clone(), s, side.clone(), 1, 0));
                    }
                }
                std::future::pending::<()>().await;
                Ok(())
            }
        });
    }
    if peer == PeerKind::Remote {
        let cf = client_fut.clone();
        sim.host("c", move || {
            let cf = cf.clone();
            async move {
                cf().await;
                std::future::pending::<()>().await;
                Ok(())
            }
        });
    } else {
        sim.host("c", || async {
            std::future::pending::<()>().await;
            Ok(())
        });
    }

    // time the slower reader may legitimately need: every progress read can be preceded by the
    // other entries of its (cycled) read plan, each with its pause (+1 ms for zero-length reads)
    let dir_time = |w: &Side, r: &Side| -> u64 {
        let bytes: u64 = w.chunks.iter().map(|c| *c as u64).sum();
        let wp: u64 = (0..w.chunks.len()).map(|i| if w.write_pauses.is_empty() { 0 } else { w.write_pauses[i % w.write_pauses.len()] as u64 }).sum();
        let plan: Vec<(u16, bool, u8)> = if r.reads.is_empty() { vec![(64, false, 0)] } else { r.reads.clone() };
        let min_buf = plan.iter().map(|x| x.0 as u64).filter(|b| *b > 0).min().unwrap_or(64);
        let cycle_cost: u64 = plan.iter().map(|x| x.2 as u64 + 2).sum();
        let progress_reads = bytes.div_ceil(min_buf.max(1)) + w.chunks.len() as u64 + 3;
        wp + r.reader_delay as u64 + r.linger_ms as u64 + w.linger_ms as u64 + progress_reads * cycle_cost
    };
    // the connections run one after the other: the budget is the sum of the per-connection budgets
    let last_fault = sc.faults.iter().map(|f| f.0 as u64).max().unwrap_or(0);
    let mut budget = last_fault + 50;
    for (gap, c, s) in &conns {
        let segs = (c.chunks.len() + s.chunks.len()) as u64;
        let pauses: u64 = dir_time(c, s) + dir_time(s, c);
        let total_bytes: u64 = c.chunks.iter().chain(s.chunks.iter()).map(|c| *c as u64).sum();
        budget += 10 * (segs + 4) * (lat_max / tick + 2) + (pauses * 8 + total_bytes * 2 + *gap as u64) / tick;
    }

    let mut partitioned_ever = false;
    let mut held = false;
    let mut hold_used = false;
    let mut steps = 0u64;
    let mut manual_done = false;
    let all_done = |shs: &[Rc<Shared>]| {
        shs.iter().all(|sh| {
            sh.dirs.iter().all(|d| {
                let d = d.borrow();
                d.reader_done && d.writer_done
            })
        })
    };
    let first_fail = |shs: &[Rc<Shared>]| shs.iter().find_map(|sh| sh.fail.borrow().clone());
    loop {
        if peer == PeerKind::Remote && sc.manual_order.is_none() {
            for (at, f) in &sc.faults {
                if *at as u64 == steps {
                    match f {
                        Fault::Hold => {
                            sim.hold("c", "s");
                            held = true;
                            hold_used = true;
                        }
                        Fault::Release => {
                            sim.release("c", "s");
                            held = false;
                        }
                        Fault::Partition => {
                            sim.partition("c", "s");
                            partitioned_ever = true;
                        }
                        Fault::Repair => sim.repair("c", "s"),
                    }
                }
            }
        }
        // exhaustive tier: once connected, hold; when the client writer is done, deliver by hand
        if let Some(order) = &sc.manual_order {
            if peer == PeerKind::Remote && !manual_done {
                if *sh.connected.borrow() && !held {
                    sim.hold("c", "s");
                    held = true;
                    hold_used = true;
                }
                if held && sh.dirs[0].borrow().writer_done {
                    // emission order = seq order: data 1..=k then FIN k+1
                    for idx in order {
                        let want = *idx as u64 + 1;
                        sim.links(|links| {
                            for link in links {
                                for sent in link {
                                    let seq = match sent.protocol() {
                                        turmoil::Protocol::Tcp(turmoil::Segment::Data(s, _)) => Some(*s),
                                        turmoil::Protocol::Tcp(turmoil::Segment::Fin(s)) => Some(*s),
                                        _ => None,
                                    };
                                    let from_client = sent.pair().1.port() == port;
                                    if seq == Some(want) && from_client {
                                        sent.deliver();
                                    }
                                }
                            }
                        });
                        steps += 1;
                        if sim.step().is_err() {
                            out.fail("step-error", "step failed".to_string());
                            return out;
                        }
                    }
                    sim.release("c", "s");
                    held = false;
                    manual_done = true;
                }
            }
        }
        steps += 1;
        if let Err(e) = sim.step() {
            out.fail("step-error", format!("{e}"));
            return out;
        }
        if first_fail(&shs).is_some() {
            break;
        }
        if all_done(&shs) && steps > last_fault {
            break;
        }
        if steps > budget {
            break;
        }
    }
    if let Some((sig, det)) = first_fail(&shs) {
        out.fail(sig, det);
        return out;
    }
    if let Some((k, e)) = shs.iter().enumerate().find_map(|(k, sh)| sh.connect_err.borrow().clone().map(|e| (k, e))) {
        if !partitioned_ever {
            out.fail("connect-failed-on-healthy-link", format!("connection #{k}: {e}"));
            return out;
        }
        out.label("connect-failed-under-partition");
        return out;
    }

    // ---------------- delivery half (per connection)
    let mut any_abortive = false;
    let mut any_bp = false;
    let mut fin_while_full = false;
    let mut cut_short = false;
    let mut graceful_quit_with_reply = false;
    let tol_late_fin = is_known("F-C02-2");
    for (k, (_, cside, sside)) in conns.iter().enumerate() {
        let sh = &shs[k];
        // A reader that stops before EOF makes the close abortive only if inbound data was (or
        // could still become) unread at that endpoint.  If, when it stopped, the peer had already
        // closed its write side and every byte the peer's writes accepted had been consumed, no
        // inbound DATA is or ever will be unread there (an unread FIN is not data): the drop is
        // graceful and the delivery half stays in force for what that endpoint writes.
        let abortive = sh.dirs.iter().any(|d| {
            let d = d.borrow();
            d.reader_quit && !d.quit_graceful
        });
        any_abortive |= abortive;
        if !*sh.connected.borrow() {
            // Never opened.  If every earlier connection had to terminate (delivery half) one of
            // the checks above has already failed; otherwise an earlier abortive connection, for
            // which no liveness is promised, is still occupying the client.
            cut_short = true;
            continue;
        }
        let delivery_applies = !partitioned_ever && !abortive && !held;
        // Classification of graceful quits: was the peer's FIN certainly delivered (queued,
        // unread) when the read side was dropped, or may it still have been on the wire?
        // Remote: a message is delivered at most lat_max + tick after it was sent (whole-ms
        // ticks); same host: one tick.  Any hold/partition in the scenario voids the bound.
        let mut late_fin = false;
        for d in 0..2 {
            let g = sh.dirs[d].borrow();
            if !(g.reader_quit && g.quit_graceful) {
                continue;
            }
            let rside = if d == 0 { sside } else { cside };
            let bound = Duration::from_millis(if peer == PeerKind::Remote { lat_max + 2 * tick } else { 2 * tick });
            let certain = sc.faults.is_empty()
                && match (g.closed_at, g.read_dropped_at) {
                    (Some(c), Some(r)) => r >= c + bound,
                    _ => false,
                };
            out.label("graceful-quit (peer closed, all its bytes read, its EOF never read)");
            out.label(if certain { "graceful-quit: peer FIN queued unread at the drop" } else { "graceful-quit: peer FIN possibly still in flight at the drop" });
            if !certain {
                late_fin = true;
            }
            let replied = sh.dirs[1 - d].borrow().accepted > 0;
            if replied {
                graceful_quit_with_reply = true;
                out.label(if certain { "graceful-quit+reply: FIN queued unread" } else { "graceful-quit+reply: FIN possibly in flight" });
            }
            if rside.reply == Reply::AfterRead {
                out.label(format!("graceful-quit by responder {:?}/{:?}", rside.mode, rside.half_drop));
            } else {
                out.label(format!("graceful-quit by concurrent {:?}", rside.mode));
            }
        }
        // In a connection of the "FIN possibly in flight" class a reset (ConnectionReset at the
        // reader, BrokenPipe at the writer) gets its own signature: it is finding F-C02-2 (the
        // FIN that arrives after the drop is answered with RST) and is tolerated only while
        // that finding is listed as "known"; every other clause keeps its signature.
        let err_sig = |base: &str| -> String { if late_fin { LATE_FIN_SIG.to_string() } else { base.to_string() } };
        if late_fin && tol_late_fin && !sc.strict && sh.dirs.iter().any(|d| d.borrow().reader_error.is_some() || d.borrow().writer_error.is_some()) {
            out.exclude("F-C02-2");
            for d in 0..2 {
                let g = sh.dirs[d].borrow();
                if g.would_block + g.write_pending > 0 {
                    any_bp = true;
                }
            }
            continue;
        }
        for d in 0..2 {
            let g = sh.dirs[d].borrow();
            let wside = if d == 0 { cside } else { sside };
            let rside = if d == 0 { sside } else { cside };
            let all_zero_reads = !rside.reads.is_empty() && rside.reads.iter().all(|r| r.0 == 0);
            if g.would_block + g.write_pending > 0 {
                any_bp = true;
            }
            if wside.chunks.len() >= cap && rside.reader_delay as u64 > lat_max + 2 * tick {
                fin_while_full = true;
            }
            if delivery_applies && !all_zero_reads {
                let total: usize = wside.chunks.iter().map(|c| *c as usize).sum();
                if let Some(e) = &g.writer_error {
                    out.fail(err_sig("writer-error-on-healthy-link"), format!("connection #{k} dir {d}: {e}"));
                    return out;
                }
                if let Some(e) = &g.reader_error {
                    out.fail(err_sig("reader-error-on-healthy-link"), format!("connection #{k} dir {d}: {e} after {} of {} bytes", g.consumed, g.accepted));
                    return out;
                }
                if !g.writer_done {
                    out.fail("writer-stalled-on-healthy-link", format!("connection #{k} dir {d}: accepted {} of {total} bytes after {steps} steps (budget {budget}); reader consumed {}", g.accepted, g.consumed));
                    return out;
                }
                if g.accepted != total {
                    out.fail("writer-accepted-count-mismatch", format!("connection #{k} dir {d}: accepted {} of {total}", g.accepted));
                    return out;
                }
                if g.consumed != g.accepted {
                    out.fail("bytes-never-delivered-on-healthy-link", format!("connection #{k} dir {d}: reader consumed {} of {} accepted bytes after {steps} steps (budget {budget})", g.consumed, g.accepted));
                    return out;
                }
                // a reader that quit gracefully chose not to read the EOF
                if !g.eof && !g.reader_quit {
                    out.fail("eof-never-delivered-after-graceful-close", format!("connection #{k} dir {d}: all {} bytes read but no EOF after {steps} steps (budget {budget}); capacity {cap}, {} segments", g.consumed, g.segments));
                    return out;
                }
            }
        }
    }
    match sc.peer {
        PeerKind::Remote => out.label("remote"),
        PeerKind::SameHostOwnAddr => out.label("same-host"),
        PeerKind::Loopback => out.label("loopback"),
    }
    if any_bp {
        out.label("backpressure");
    }
    if fin_while_full {
        out.label("fin-while-full");
    }
    if hold_used {
        out.label("hold");
    }
    if partitioned_ever {
        out.label("partition");
    }
    if any_abortive {
        out.label("abortive");
    }
    if shs.iter().any(|sh| sh.dirs.iter().any(|d| d.borrow().peeks > 0)) {
        out.label("peek");
    }
    if sc.v6 {
        out.label("v6");
    }
    for (_, c, s) in &conns {
        out.label(format!("{:?}", c.mode));
        out.label(format!("{:?}", s.mode));
        for (x, y) in [(c, s), (s, c)] {
            if x.reply == Reply::AfterRead {
                let req: u32 = y.chunks.iter().map(|c| *c as u32).sum();
                out.label("request-response");
                out.label(match x.reader_quits_after {
                    Some(q) if q == req => "responder reads exactly the request",
                    Some(q) if q < req => "responder reads less than the request (abortive)",
                    _ => "responder reads to EOF first",
                });
            }
        }
    }
    // ---------------- sequences of connections between the same two endpoints
    let opened = shs.iter().filter(|sh| *sh.connected.borrow()).count();
    let mut reconnect_outstanding = false;
    if opened >= 2 {
        out.label("reconnect");
        out.label(format!("connections-opened-{opened}"));
        let mut stale_bytes = 0u64;
        for k in 1..opened {
            let prev = &shs[k - 1];
            let gap = conns[k].0;
            out.label(if gap == 0 { "reconnect-immediate" } else { "reconnect-after-gap" });
            if *shs[k].old_outstanding.borrow() {
                reconnect_outstanding = true;
                out.label("reconnect-with-old-data-outstanding");
                // the new connection actually moved data / saw EOF while old segments could still arrive
                if shs[k].dirs.iter().any(|d| d.borrow().consumed > 0) {
                    out.label("reconnect-with-old-data-outstanding+new-data-read");
                }
                stale_bytes += prev.dirs.iter().map(|d| {
                    let d = d.borrow();
                    (d.accepted - d.consumed.min(d.accepted)) as u64
                }).sum::<u64>();
            }
            if prev.dirs[1].borrow().reader_quit {
                out.label("reconnect-after-client-dropped-early");
                if prev.dirs[1].borrow().consumed > 0 {
                    out.label("reconnect-after-client-dropped-mid-stream");
                }
            } else if prev.dirs[1].borrow().eof {
                out.label("reconnect-after-eof");
            }
        }
        out.count("old bytes unconsumed at reconnect", stale_bytes);
    }
    if cut_short {
        out.label("sequence-cut-short");
    }
    let reorder_possible = sc.peer == PeerKind::Remote && lat_max > lat_min + tick && conns.iter().any(|(_, c, s)| c.chunks.len() >= 2 || s.chunks.len() >= 2);
    if reorder_possible {
        out.label("reorder-possible");
    }
    if sc.manual_order.is_some() {
        out.label("manual-order");
    }
    out.count("bytes delivered", shs.iter().map(|sh| sh.dirs.iter().map(|d| d.borrow().consumed as u64).sum::<u64>()).sum());
    out.nontrivial = reorder_possible || any_bp || fin_while_full || reconnect_outstanding || graceful_quit_with_reply || sc.manual_order.as_ref().map(|o| o.len() >= 2).unwrap_or(false);
    out
}

fn side_strategy() -> BoxedStrategy<Side> {
    let chunk = prop_oneof![3 => Just(1u16), 3 => 1u16..=16, 1 => 17u16..=300];
    let buf = prop_oneof![1 => Just(0u16), 3 => Just(1u16), 3 => 2u16..=9, 2 => 10u16..=400];
    (
        prop_oneof![3 => Just(Mode::IntoSplit), 1 => Just(Mode::TokioSplit), 2 => Just(Mode::WholeSeq)],
        proptest::collection::vec(chunk, 0..12),
        proptest::collection::vec(prop_oneof![4 => Just(0u8), 1 => 1u8..=6], 0..4),
        prop_oneof![Just(Close::Shutdown), Just(Close::DropWriteHalf)],
        proptest::collection::vec((buf, any::<bool>(), prop_oneof![4 => Just(0u8), 1 => 1u8..=8]), 1..5),
        prop_oneof![9 => Just(None), 1 => (0u32..40).prop_map(Some)],
        prop_oneof![3 => Just(0u16), 1 => 1u16..=60],
    )
        .prop_map(|(mode, chunks, write_pauses, close, mut reads, reader_quits_after, reader_delay)| {
            // at least one non-zero buffer so the reader can make progress
            if reads.iter().all(|r| r.0 == 0) {
                reads.push((3, false, 0));
            }
            Side { mode, chunks, write_pauses, close, reads, reader_quits_after, reader_delay, reply: Reply::Concurrent, half_drop: HalfDrop::ReadThenWrite, linger_ms: 0 }
        })
        .boxed()
}

/// How far a shaped reader reads.
#[derive(Clone, Copy, Debug, PartialEq, Eq)]
enum ReadsTo {
    /// exactly the bytes the peer writes on this connection — never reads the EOF
    Exact,
    /// to EOF (control: the FIN is consumed before the drop)
    Eof,
    /// stops `n` bytes short (abortive: data unread at the drop)
    Short(u16),
}

/// Half-close request/response shaping of one connection: one endpoint (the requester) writes its
/// chunks, closes its write side and keeps reading; the other (the responder) reads first, then
/// replies and drops.  `concurrent_exact` instead keeps both endpoints concurrent and only makes
/// one reader stop at exactly the peer's byte count (read side dropped while its own writer may
/// still be busy).
#[derive(Clone, Debug)]
struct Shaping {
    responder_is_client: bool,
    concurrent_exact: bool,
    reads_to: ReadsTo,
    linger_ms: u16,
    half_drop: HalfDrop,
    /// the requester / the replier are made to write at least one chunk
    min_request: bool,
    min_reply: bool,
}

fn shaping_strategy() -> BoxedStrategy<Option<Shaping>> {
    let s = (
        any::<bool>(),
        prop_oneof![4 => Just(false), 1 => Just(true)],
        prop_oneof![6 => Just(ReadsTo::Exact), 2 => Just(ReadsTo::Eof), 1 => (1u16..=3).prop_map(ReadsTo::Short)],
        prop_oneof![2 => Just(0u16), 2 => 1u16..=12, 3 => 13u16..=90],
        prop_oneof![Just(HalfDrop::ReadThenWrite), Just(HalfDrop::WriteThenRead), Just(HalfDrop::ReadBeforeReply)],
        prop_oneof![5 => Just(true), 1 => Just(false)],
        prop_oneof![5 => Just(true), 1 => Just(false)],
    )
        .prop_map(|(responder_is_client, concurrent_exact, reads_to, linger_ms, half_drop, min_request, min_reply)| Shaping {
            responder_is_client,
            concurrent_exact,
            reads_to,
            linger_ms,
            half_drop,
            min_request,
            min_reply,
        });
    prop_oneof![3 => Just(None), 2 => s.prop_map(Some)].boxed()
}

fn apply_shaping(sh: &Shaping, client: &mut Side, server: &mut Side, seed: u64) {
    let (resp, req) = if sh.responder_is_client { (client, server) } else { (server, client) };
    if sh.min_request && req.chunks.is_empty() {
        req.chunks.push(1 + (q_mix(seed, 40) % 7) as u16);
    }
    if sh.min_reply && resp.chunks.is_empty() {
        resp.chunks.push(1 + (q_mix(seed, 41) % 7) as u16);
    }
    // the requester half-closes and keeps reading to EOF
    req.reply = Reply::Concurrent;
    req.reader_quits_after = None;
    let total: u32 = req.chunks.iter().map(|c| *c as u32).sum();
    resp.reader_quits_after = match sh.reads_to {
        ReadsTo::Exact => Some(total),
        ReadsTo::Eof => None,
        ReadsTo::Short(n) => Some(total.saturating_sub(n as u32)),
    };
    if sh.concurrent_exact {
        resp.reply = Reply::Concurrent;
        // a whole-stream sequential endpoint writes before it reads: its peer must be able to
        // take all of that while the responder is not reading yet — already guaranteed by
        // no_double_wholeseq_deadlock
    } else {
        resp.reply = Reply::AfterRead;
        resp.half_drop = sh.half_drop;
        resp.linger_ms = sh.linger_ms;
        resp.reader_delay = resp.reader_delay.min(20);
    }
}

/// Knobs that turn the client side of a connection which is followed by another one into a
/// short-lived one: it stops reading after `quit` bytes (0 = right after connecting) and drops the
/// stream, then the next connection is opened.  Whether that drop is graceful (nothing unread
/// locally) or abortive (unread data => RST) depends on what has arrived by then.
#[derive(Clone, Debug)]
struct Handover {
    gap_ms: u16,
    /// None: keep the generated client side as it is (usually reads to EOF)
    early_quit: Option<u32>,
    /// the server is made to write at least this many chunks on the connection being left
    server_min_chunks: usize,
}

fn handover_strategy() -> BoxedStrategy<Handover> {
    (
        prop_oneof![5 => Just(0u16), 2 => 1u16..=6, 1 => 7u16..=45],
        prop_oneof![
            2 => Just(None),
            3 => Just(Some(0u32)),
            2 => (1u32..=12).prop_map(Some),
        ],
        0usize..=3,
    )
        .prop_map(|(gap_ms, early_quit, server_min_chunks)| Handover { gap_ms, early_quit, server_min_chunks })
        .boxed()
}

fn no_double_wholeseq_deadlock(client: &mut Side, server: &mut Side, capacity: usize) {
    // two sequential whole-stream endpoints that both write more than the
    // capacity before reading would be a legitimate application deadlock
    if client.mode == Mode::WholeSeq && server.mode == Mode::WholeSeq {
        client.chunks.truncate(capacity);
        server.chunks.truncate(capacity);
    }
}

pub fn strategy() -> BoxedStrategy<Scenario> {
    let lat = prop_oneof![
        1 => (0u32..=8).prop_map(|v| (v, v)),
        4 => (0u32..=6, 2u32..=30).prop_map(|(a, d)| (a, a + d)),
    ];
    (
        (1u32..=4, lat, prop_oneof![3 => 1usize..=4, 1 => Just(64usize)], any::<bool>(), any::<u64>()),
        prop_oneof![3 => Just(PeerKind::Remote), 1 => Just(PeerKind::SameHostOwnAddr), 1 => Just(PeerKind::Loopback)],
        any::<bool>(),
        side_strategy(),
        side_strategy(),
        prop_oneof![
            4 => Just(vec![]),
            2 => (2u32..40, 1u32..20).prop_map(|(a, d)| vec![(a, Fault::Hold), (a + d, Fault::Release)]),
            1 => (2u32..40, 1u32..20).prop_map(|(a, d)| vec![(a, Fault::Partition), (a + d, Fault::Repair)]),
        ],
        // sequences of connections between the same two endpoints
        prop_oneof![
            5 => Just(vec![]),
            5 => proptest::collection::vec((handover_strategy(), side_strategy(), side_strategy()), 1..=MAX_FOLLOWUPS),
        ],
        // half-close request/response shaping, one draw per connection of the sequence
        proptest::collection::vec(shaping_strategy(), 1 + MAX_FOLLOWUPS),
    )
        .prop_map(|((tick_ms, (lat_min, lat_max), capacity, v6, seed), peer, listen_localhost, client, server, faults, seq, shapings)| {
            let mut sides: Vec<(Side, Side)> = vec![(client, server)];
            let mut gaps: Vec<u16> = vec![];
            // connections the handover turned into short-lived ones keep that shape
            let mut left_early: Vec<bool> = vec![];
            for (h, c, s) in seq {
                left_early.push(h.early_quit.is_some());
                // shape the connection being left according to the handover
                let (pc, ps) = sides.last_mut().unwrap();
                if let Some(q) = h.early_quit {
                    pc.reader_quits_after = Some(q);
                    pc.reader_delay = 0;
                    pc.chunks.truncate(3);
                    pc.write_pauses.clear();
                }
                while ps.chunks.len() < h.server_min_chunks {
                    let i = ps.chunks.len() as u16;
                    ps.chunks.push(1 + (q_mix(seed, i) % 9) as u16);
                }
                gaps.push(h.gap_ms);
                sides.push((c, s));
            }
            for (c, s) in sides.iter_mut() {
                no_double_wholeseq_deadlock(c, s, capacity);
            }
            // last, so that "exactly the request" is computed from the final chunk lists
            for (k, ((c, s), shp)) in sides.iter_mut().zip(shapings.iter()).enumerate() {
                if let (Some(shp), false) = (shp, left_early.get(k).copied().unwrap_or(false)) {
                    apply_shaping(shp, c, s, seed);
                }
            }
            let mut it = sides.into_iter();
            let (client, server) = it.next().unwrap();
            let followups = it.zip(gaps).map(|((client, server), gap_ms)| Followup { gap_ms, client, server }).collect();
            Scenario {
                tick_ms,
                lat_min,
                lat_max,
                capacity,
                v6,
                seed,
                peer,
                listen_localhost,
                client,
                server,
                faults,
                manual_order: None,
                followups,
                strict: false,
            }
        })
        .boxed()
}

fn q_mix(seed: u64, i: u16) -> u64 {
    (seed ^ 0x9e37_79b9_7f4a_7c15).wrapping_mul(i as u64 * 2 + 1).rotate_left(17)
}

fn perms(n: usize) -> Vec<Vec<usize>> {
    fn rec(n: usize, cur: &mut Vec<usize>, out: &mut Vec<Vec<usize>>) {
        if cur.len() == n {
            out.push(cur.clone());
            return;
        }
        for i in 0..n {
            if !cur.contains(&i) {
                cur.push(i);
                rec(n, cur, out);
                cur.pop();
            }
        }
    }
    let mut out = Vec::new();
    rec(n, &mut Vec::new(), &mut out);
    out
}

/// Every delivery order of k data segments + FIN, for several capacities and
/// reader speeds.
fn exhaustive_space(tier: Tier) -> Vec<Scenario> {
    let kmax = tier.pick(3, 5);
    let mut out = Vec::new();
    for k in 1..=kmax {
        for cap in [k, k + 1, 64] {
            for (delay, bufs) in [(0u16, vec![(64u16, false, 0u8)]), (0, vec![(1, true, 0)]), (40, vec![(2, false, 0)])] {
                for close in [Close::Shutdown, Close::DropWriteHalf] {
                    for order in perms(k + 1) {
                        out.push(Scenario {
                            tick_ms: 1,
                            lat_min: 2,
                            lat_max: 2,
                            capacity: cap,
                            v6: (k + cap) % 2 == 1,
                            seed: 7,
                            peer: PeerKind::Remote,
                            listen_localhost: false,
                            client: Side {
                                mode: Mode::IntoSplit,
                                chunks: (0..k).map(|i| (i as u16 % 3) + 1).collect(),
                                write_pauses: vec![],
                                close,
                                reads: vec![(8, false, 0)],
                                reader_quits_after: None,
                                reader_delay: 0,
                                reply: Reply::Concurrent,
                                half_drop: HalfDrop::ReadThenWrite,
                                linger_ms: 0,
                            },
                            server: Side {
                                mode: Mode::IntoSplit,
                                chunks: vec![],
                                write_pauses: vec![],
                                close: Close::Shutdown,
                                reads: bufs.clone(),
                                reader_quits_after: None,
                                reader_delay: delay,
                                reply: Reply::Concurrent,
                                half_drop: HalfDrop::ReadThenWrite,
                                linger_ms: 0,
                            },
                            faults: vec![],
                            manual_order: Some(order),
                            followups: vec![],
                            strict: false,
                        });
                    }
                }
            }
        }
    }
    out
}

/// Fixed family: half-close request/response.  The requester writes a 2-chunk request, closes its
/// write side (shutdown or write-half drop) and reads to EOF; the responder reads exactly the
/// request (or, control, to EOF), lingers (0 ms: the FIN may still be on the wire; long: the FIN
/// is certainly queued unread), replies with 2 chunks and drops — every combination of
/// requester mode x close, responder mode x half-drop order x close, which endpoint responds,
/// peer kind and fixed/ranged latency.
fn request_response_space() -> Vec<Scenario> {
    let mut out = Vec::new();
    let modes = [Mode::IntoSplit, Mode::TokioSplit, Mode::WholeSeq];
    for req_mode in modes {
        for req_close in [Close::Shutdown, Close::DropWriteHalf] {
            for resp_mode in modes {
                for half_drop in [HalfDrop::ReadThenWrite, HalfDrop::WriteThenRead, HalfDrop::ReadBeforeReply] {
                    if resp_mode != Mode::IntoSplit && half_drop == HalfDrop::ReadBeforeReply {
                        continue;
                    }
                    for resp_close in [Close::Shutdown, Close::DropWriteHalf] {
                        for exact in [true, false] {
                            for linger in [0u16, 3, 60] {
                                for responder_is_client in [false, true] {
                                    for (peer, lat) in [(PeerKind::Remote, (1u32, 1u32)), (PeerKind::Remote, (1, 9)), (PeerKind::SameHostOwnAddr, (1, 1)), (PeerKind::Loopback, (1, 1))] {
                                        let n = out.len();
                                        let request = Side {
                                            mode: req_mode,
                                            chunks: vec![3, 1],
                                            write_pauses: vec![],
                                            close: req_close,
                                            reads: vec![(if n % 2 == 0 { 16 } else { 1 }, n % 3 == 0, 0)],
                                            reader_quits_after: None,
                                            reader_delay: 0,
                                            reply: Reply::Concurrent,
                                            half_drop: HalfDrop::ReadThenWrite,
                                            linger_ms: 0,
                                        };
                                        let response = Side {
                                            mode: resp_mode,
                                            chunks: vec![2, 3],
                                            write_pauses: vec![],
                                            close: resp_close,
                                            reads: vec![(if n % 5 < 2 { 4 } else { 3 }, n % 7 == 0, 0)],
                                            reader_quits_after: if exact { Some(4) } else { None },
                                            reader_delay: 0,
                                            reply: Reply::AfterRead,
                                            half_drop,
                                            linger_ms: linger,
                                        };
                                        let (client, server) = if responder_is_client { (response, request) } else { (request, response) };
                                        out.push(Scenario {
                                            tick_ms: 1,
                                            lat_min: lat.0,
                                            lat_max: lat.1,
                                            capacity: if n % 4 == 0 { 1 } else { 2 },
                                            v6: n % 8 == 3,
                                            seed: n as u64,
                                            peer,
                                            listen_localhost: false,
                                            client,
                                            server,
                                            faults: vec![],
                                            manual_order: None,
                                            followups: vec![],
                                            strict: false,
                                        });
                                    }
                                }
                            }
                        }
                    }
                }
            }
        }
    }
    out
}

/// Clamp a structurally decoded scenario into the generator's domain (fuzz tier).
pub fn fuzz_sanitize(sc: &mut Scenario) -> bool {
    sc.tick_ms = 1 + sc.tick_ms % 4;
    sc.lat_min %= 9;
    sc.lat_max = sc.lat_min + sc.lat_max % 31;
    sc.capacity = if sc.capacity % 4 == 0 { 64 } else { sc.capacity % 4 };
    sc.manual_order = None;
    sc.followups.truncate(MAX_FOLLOWUPS);
    let capacity = sc.capacity;
    let mut sides: Vec<&mut Side> = vec![&mut sc.client, &mut sc.server];
    for f in sc.followups.iter_mut() {
        f.gap_ms %= 46;
        sides.push(&mut f.client);
        sides.push(&mut f.server);
    }
    for s in sides.iter_mut() {
        s.chunks.truncate(12);
        for c in s.chunks.iter_mut() {
            *c = 1 + *c % 300;
        }
        s.write_pauses.truncate(4);
        for p in s.write_pauses.iter_mut() {
            *p %= 7;
        }
        s.reads.truncate(5);
        for r in s.reads.iter_mut() {
            r.0 %= 401;
            r.2 %= 9;
        }
        if s.reads.iter().all(|r| r.0 == 0) {
            s.reads.push((3, false, 0));
        }
        s.reader_quits_after = s.reader_quits_after.map(|q| q % 40);
        s.reader_delay %= 61;
        s.linger_ms %= 91;
    }
    for pair in sides.chunks_mut(2) {
        if let [c, s] = pair {
            no_double_wholeseq_deadlock(c, s, capacity);
            // two endpoints that both read before they write would wait for each other
            if c.reply == Reply::AfterRead && s.reply == Reply::AfterRead {
                s.reply = Reply::Concurrent;
            }
            // a replying endpoint stops at exactly the peer's byte count when the decoded quit
            // count is odd (the structural decoder cannot hit the exact value by chance), and
            // its peer keeps reading to EOF
            fn fix(x: &mut Side, y: &mut Side) {
                if x.reply == Reply::AfterRead {
                    let total: u32 = y.chunks.iter().map(|c| *c as u32).sum();
                    if let Some(q) = x.reader_quits_after {
                        if q % 2 == 1 {
                            x.reader_quits_after = Some(total);
                        }
                    }
                    y.reader_quits_after = None;
                }
            }
            fix(c, s);
            fix(s, c);
        }
    }
    sc.strict = false;
    // faults: keep at most one hold->release or partition->repair pair
    let first = sc.faults.first().cloned();
    sc.faults = match first {
        Some((a, Fault::Hold)) | Some((a, Fault::Release)) => vec![(2 + a % 38, Fault::Hold), (2 + a % 38 + 1 + (a >> 8) % 19, Fault::Release)],
        Some((a, _)) => vec![(2 + a % 38, Fault::Partition), (2 + a % 38 + 1 + (a >> 8) % 19, Fault::Repair)],
        None => vec![],
    };
    true
}

fn check(tier: Tier, seed: u64) -> i32 {
    let ctx = Ctx::new("C02", tier, seed, "exploration");
    ctx.replay_corpus(&replay);
    let space = exhaustive_space(tier);
    let desc = format!(
        "{} scenarios: for k = 1..={} data segments + FIN held on the link, every one of the (k+1)! delivery orders (one message per step through Sim::links), x capacity in {{k, k+1, 64}} x 3 reader plans (fast, 1-byte with peeks, late 2-byte) x 2 close modes",
        space.len(),
        tier.pick(3, 5)
    );
    ctx.exhaustive("delivery-orders", &desc, Box::new(space.into_iter()), &run);
    let rr = request_response_space();
    let rr_desc = format!(
        "{} scenarios: half-close request/response — requester (3 endpoint modes x shutdown/write-half drop) writes 2 chunks, closes its write side and reads to EOF; responder (3 endpoint modes x half-drop order incl. read half dropped before the reply x shutdown/drop) reads exactly the request without reading the EOF (or, control, to EOF), lingers 0/3/60 ms, replies with 2 chunks and drops; either endpoint as responder; remote fixed and ranged latency, same-host, 127.0.0.1",
        rr.len()
    );
    ctx.exhaustive("half-close-request-response", &rr_desc, Box::new(rr.into_iter()), &run);
    ctx.random("random", tier.pick(12_000, 160_000), &|| strategy(), &run);
    ctx.finish(
        "bounded-exhaustive delivery orders of k data segments + FIN (see exhaustive_subspaces) plus random sequences of 1-4 connections between the same two endpoints (half of the cases a single connection; otherwise the same client task opens the next connection to the same listener 0-45 ms, mostly 0 ms, after its endpoint of the previous one returned: after reading to EOF, or after dropping the stream right after connect / after a few bytes while the server is still writing, i.e. graceful and abortive early closes with segments of the old connection still in flight; every connection has its own byte pattern and is checked against the bytes written on THAT connection; the server handles the connections concurrently): tick, ranged or fixed latency, tcp_capacity 1-4 or 64, v4/v6, remote / same-host / 127.0.0.1 peers, both directions concurrently with generated write chunkings (many 1-byte), write pauses, reader buffer sizes including 0 and 1 with interleaved peeks, slow and late readers, three endpoint modes (into_split, tokio::io::split, whole stream with try_write+writable), shutdown or write-half drop, early reader quit, hold/release and partition/repair mid-stream; about 40% of the connections are shaped as half-close request/response (also the fixed family half-close-request-response): one endpoint writes its request, closes its write side and keeps reading to EOF, the other reads first — exactly the request bytes without ever reading the EOF (most), to EOF (control) or 1-3 bytes short (abortive) — lingers 0-90 ms (so the peer's FIN is either still on the wire or queued unread), then writes its reply and drops the whole stream / both tokio halves / both owned halves in either order / the owned read half BEFORE the reply; a fifth of the shaped connections instead keep both endpoints concurrent and only stop one reader at exactly the peer's byte count. A reader that stops before EOF makes the connection abortive only if, when it stopped, the peer had not yet closed its write side or accepted bytes were unconsumed; otherwise (nothing unread, nothing but the FIN can still arrive) the drop is graceful and the delivery half stays in force: the peer must read every reply byte and then EOF, no ConnectionReset/BrokenPipe. Oracle: byte-FIFO model — every read/peek returns the next bytes of the peer's accepted stream and never more than accepted so far; EOF only after the writer closed and all bytes were consumed; on a healthy link with a graceful close every accepted byte and EOF arrive within a configuration-derived step budget. Non-trivial = segments can overtake each other (remote, max > min + tick, >= 2 segments) or a write blocked / returned WouldBlock or FIN met a full receive queue, or a connection was opened while the previous one between the same endpoints still had accepted-but-unconsumed bytes, or a manual delivery order of >= 2 messages, or an endpoint dropped its read side gracefully without reading the peer's EOF and wrote at least one byte. Distinct by scenario hash.",
        &[
            "under partitions or an abortive close only the prefix (safety) half is asserted (per connection: an early quit on one connection does not relax the delivery half of the following ones)",
            "an early quit is abortive (decided when the reader stops, from the harness's own byte counts) unless the peer's writer had already closed and every accepted byte had been consumed; an unread FIN is not unread data (property text: 'a drop while no inbound data is unread'; RFC 9293 3.10.4; comment in ReadHalf::drop)",
            "graceful quits are classed by simulated time: the peer's FIN was certainly delivered if the read side was dropped >= lat_max + 2 ticks (same host: 2 ticks) after the peer closed and the scenario has no hold/partition; otherwise it may still have been in flight. In the in-flight class a ConnectionReset/BrokenPipe has its own signature (finding F-C02-2) and is tolerated only while known_findings.json lists F-C02-2 as known (counted under excluded); Scenario.strict asserts it regardless",
            "at most one endpoint of a connection reads before it writes (two would wait for each other)",
            "connections of a sequence are opened strictly one after the other by one client task, so the k-th accept is the k-th connect; a connection that is never opened because an earlier abortive one (no liveness promised) still occupies the client is skipped (label sequence-cut-short)",
            "the default ephemeral port range is used, so on the unchanged tree no two connections of a sequence share a SocketPair",
            "a zero-length read returning Ok(0) is not treated as EOF",
            "two whole-stream sequential endpoints never both write more than the capacity before reading (that would be an application-level deadlock)",
            "liveness is bounded: the step budget is >= 10x the worst schedule the generator can produce",
        ],
    )
}

fn replay(_sub: &str, v: &Value) -> Result<Outcome, String> {
    replay_as::<Scenario>(v, &run)
}

//! C06 — turmoil-net TCP survives drops, delays and reordering without
//! corruption or stall.  DESIGN.md §6 C06.  NetWire driver + fixtures.
//!
//! One scenario = KernelConfig + one TCP connection between two hosts with a
//! data-described program on each side (write sizes with pauses, reader buffer
//! sizes with pauses, half-close / reply-after-EOF / FIN-by-drop) + a fate
//! plan for the packets on the wire.  Sub-checks:
//!
//! * `walk`        random walks on the NetWire driver (within the retransmit
//!                 budget, or the dedicated beyond-budget class: a host's
//!                 traffic is black-holed from some packet on);
//! * `exhaustive`  all fate vectors over the first n emitted packets for
//!                 transfers of <= 2 segments each way;
//! * `abort-under-slow-reader` / `teardown`  the class "peer's bytes and FIN sit
//!                 unread, the connection is aborted (retransmit exhaustion under a
//!                 black hole, or a RST from a peer that closed with unread bytes),
//!                 the reader reads again": random recipe over ordinary scenario
//!                 fields, and a small enumerated family;
//! * `e2e`         the same programs inside `fixture::ClientServer` with a
//!                 table-driven `Rule` closure, and inside `fixture::lo`;
//! * `probe`       strict replays of the known findings.
//!
//! Oracle (independent of kernel internals: observations of the socket API
//! plus the packet log):
//!
//! * SAFETY, always: every byte read equals `pat(key, offset)` of the peer's
//!   stream, offsets are contiguous, a reader never gets ahead of what the
//!   peer has written, and `Ok(0)` is only observed after the peer closed its
//!   write side and at an offset equal to everything the peer wrote (so an abort
//!   that throws away accepted-but-unread bytes must reach the reader as an
//!   error: end-of-file there would be silent loss).
//! * LIVENESS, within budget: no operation fails, every reader sees all bytes
//!   and then EOF, all tasks finish within R rounds.
//! * BEYOND budget: errors are of the connection-failure kinds, and a host
//!   that still has unacknowledged sequence space when nothing can happen any
//!   more has no task parked forever (the failure surfaced as an error).

use crate::drivers::netwire::{
    self as nw, Cfg, End, Ev, Fate, FatePlan, Kind, Limits, Obs, Op, PktRec, RunLog, Script, TableWire, Tracker, Until, Wire,
};
use crate::engine::{replay_as, Ctx, Outcome, Tier};
use proptest::prelude::*;
use serde::{Deserialize, Serialize};
use serde_json::Value;
use std::cell::RefCell;
use std::rc::Rc;

pub const PROP: super::Prop = super::Prop { id: "C06", level: "exploration", check, replay };

/// Ids of the C06 findings whose entry in known_findings.json (under
/// VERIF_ROOT, default /verif) has status "known".  Only those are tolerated:
/// a failing run that shows the wire pattern of a *known* finding is excluded
/// and counted, and the fixture::lo generator avoids the shape of a *known*
/// F-C06-2.  An entry with status "fixed" (or no entry) suppresses nothing:
/// the full clause is asserted and the old signature is reported again.
pub fn is_known(id: &str) -> bool {
    static KNOWN: std::sync::OnceLock<Vec<String>> = std::sync::OnceLock::new();
    KNOWN
        .get_or_init(|| {
            crate::engine::load_findings()
                .into_iter()
                .filter(|f| f.property == "C06" && f.status == "known")
                .map(|f| f.id)
                .collect()
        })
        .iter()
        .any(|k| k == id)
}

pub const PORT: u16 = 9000;
pub const KEY_C2S: u8 = 0x31;
pub const KEY_S2C: u8 = 0xA7;

#[derive(Clone, Debug, Serialize, Deserialize, PartialEq)]
pub struct Side {
    /// (bytes, rounds to sleep before the write)
    pub writes: Vec<(u32, u8)>,
    /// reader buffer sizes, cycled
    pub bufs: Vec<u16>,
    /// reader prefix: read exactly `bytes` then sleep `rounds`, before reading to EOF
    pub read_steps: Vec<(u16, u8)>,
}

#[derive(Clone, Copy, Debug, Serialize, Deserialize, PartialEq)]
pub enum Reply {
    /// both sides write at once and shut down their write side on their own (half-close)
    None,
    /// the client writes only after it has read the server's EOF
    Client,
    Server,
}

#[derive(Clone, Copy, Debug, Serialize, Deserialize, PartialEq)]
pub enum Mode {
    /// NetWire driver, two hosts
    Wire,
    /// fixture::ClientServer with a Rule closure
    ClientServer,
    /// fixture::lo_with_config (loopback, rules do not apply)
    Lo,
}

#[derive(Clone, Debug, Serialize, Deserialize, PartialEq)]
pub struct Scenario {
    pub mode: Mode,
    pub cfg: Cfg,
    pub v6: bool,
    pub client: Side,
    pub server: Side,
    pub reply: Reply,
    /// the replying side sends its FIN by dropping the stream instead of shutdown()
    pub fin_by_drop: bool,
    pub plan: FatePlan,
    /// false: drops only hit packets that occupy sequence space (SYN, SYN-ACK, data, FIN)
    pub drop_acks: bool,
    /// strict: known-finding patterns are reported as failures (probes)
    pub strict: bool,
    /// further program dimensions (kept last so that older replay files and fuzz inputs still decode)
    #[serde(default)]
    pub ext: Ext,
}

/// Program dimensions beyond `Side`; index 0 = client, 1 = server.  The default is the old
/// behaviour: every reader reads to EOF and every writer half-closes right after its last write.
#[derive(Clone, Debug, Default, Serialize, Deserialize, PartialEq)]
pub struct Ext {
    /// `Some((n, linger))`: this side's reader takes only the first `n` bytes (0: none), waits for
    /// its own writer (which half-closes), sleeps `linger` rounds and drops the stream without
    /// reading the rest.  With unread bytes buffered that is an abortive close: the peer gets a RST.
    pub quit: [Option<(u16, u8)>; 2],
    /// rounds this side's writer sleeps between its last write and its shutdown() (a late FIN:
    /// the side goes on owning an open write half while the peer's FIN is already in, CLOSE-WAIT)
    pub fin_delay: [u8; 2],
}
impl Ext {
    pub fn quits(&self) -> bool {
        self.quit.iter().any(|q| q.is_some())
    }
}

// ---------------------------------------------------------------- programs

fn writes_ops(side: &Side, key: u8, ops: &mut Vec<Op>) {
    for (len, sl) in &side.writes {
        if *sl > 0 {
            ops.push(Op::Sleep { rounds: *sl as u32 });
        }
        if *len > 0 {
            ops.push(Op::Write { conn: 0, len: *len, key });
        }
    }
}
fn reader_ops(side: &Side, quit: Option<(u16, u8)>, key: u8, peer_total: u32, ops: &mut Vec<Op>) {
    if let Some((n, _)) = quit {
        // takes a prefix only; the stream is dropped by the caller's epilogue
        if n > 0 {
            ops.push(Op::Read { conn: 0, bufs: side.bufs.clone(), until: Until::Bytes(n as u32), key });
        }
        return;
    }
    let mut left = peer_total;
    for (n, sl) in &side.read_steps {
        let n = (*n as u32).min(left);
        if n == 0 {
            break;
        }
        ops.push(Op::Read { conn: 0, bufs: side.bufs.clone(), until: Until::Bytes(n), key });
        left -= n;
        if *sl > 0 {
            ops.push(Op::Sleep { rounds: *sl as u32 });
        }
    }
    ops.push(Op::Read { conn: 0, bufs: side.bufs.clone(), until: Until::Eof, key });
}

pub fn total(side: &Side) -> u32 {
    side.writes.iter().map(|w| w.0).sum()
}

/// Tasks: 0 = server opener/writer, 1 = server reader, 2 = client opener/writer, 3 = client reader.
/// Host 0 = client, host 1 = server (in `Lo` mode both are host 0).
pub fn build_scripts(sc: &Scenario) -> Vec<Script> {
    let (ch, sh, to) = match sc.mode {
        Mode::Lo => (0usize, 0usize, None),
        _ => (0usize, 1usize, Some(1usize)),
    };
    let (cslot, sslot) = if sc.mode == Mode::Lo { (1u8, 0u8) } else { (0u8, 0u8) };
    let fix = |mut ops: Vec<Op>, slot: u8| -> Vec<Op> {
        for o in ops.iter_mut() {
            match o {
                Op::Write { conn, .. } | Op::Read { conn, .. } | Op::Shutdown { conn } | Op::Drop { conn } | Op::WaitConn { conn } => {
                    *conn = slot
                }
                Op::Accept { conn, .. } | Op::Connect { conn, .. } => *conn = slot,
                _ => {}
            }
        }
        ops
    };
    let mut s_w = vec![Op::Listen { lst: 0, port: PORT, v6: sc.v6 }, Op::Accept { lst: 0, conn: 0 }];
    let mut s_r = vec![Op::WaitConn { conn: 0 }];
    let mut c_w = vec![Op::Connect { conn: 0, to, port: PORT, v6: sc.v6 }];
    let mut c_r = vec![Op::WaitConn { conn: 0 }];
    reader_ops(&sc.server, sc.ext.quit[1], KEY_C2S, total(&sc.client), &mut s_r);
    reader_ops(&sc.client, sc.ext.quit[0], KEY_S2C, total(&sc.server), &mut c_r);
    let late_fin = |who: usize, ops: &mut Vec<Op>| {
        if sc.ext.fin_delay[who] > 0 {
            ops.push(Op::Sleep { rounds: sc.ext.fin_delay[who] as u32 });
        }
    };
    match sc.reply {
        Reply::None => {
            writes_ops(&sc.server, KEY_S2C, &mut s_w);
            late_fin(1, &mut s_w);
            s_w.push(Op::Shutdown { conn: 0 });
            writes_ops(&sc.client, KEY_C2S, &mut c_w);
            late_fin(0, &mut c_w);
            c_w.push(Op::Shutdown { conn: 0 });
        }
        Reply::Server => {
            writes_ops(&sc.client, KEY_C2S, &mut c_w);
            late_fin(0, &mut c_w);
            c_w.push(Op::Shutdown { conn: 0 });
            writes_ops(&sc.server, KEY_S2C, &mut s_r);
            late_fin(1, &mut s_r);
            if !sc.fin_by_drop {
                s_r.push(Op::Shutdown { conn: 0 });
            }
        }
        Reply::Client => {
            writes_ops(&sc.server, KEY_S2C, &mut s_w);
            late_fin(1, &mut s_w);
            s_w.push(Op::Shutdown { conn: 0 });
            writes_ops(&sc.client, KEY_C2S, &mut c_r);
            late_fin(0, &mut c_r);
            if !sc.fin_by_drop {
                c_r.push(Op::Shutdown { conn: 0 });
            }
        }
    }
    s_r.push(Op::WaitTask { task: 0 });
    if let Some((_, linger)) = sc.ext.quit[1] {
        if linger > 0 {
            s_r.push(Op::Sleep { rounds: linger as u32 });
        }
    }
    s_r.push(Op::Drop { conn: 0 });
    c_r.push(Op::WaitTask { task: 2 });
    if let Some((_, linger)) = sc.ext.quit[0] {
        if linger > 0 {
            c_r.push(Op::Sleep { rounds: linger as u32 });
        }
    }
    c_r.push(Op::Drop { conn: 0 });
    vec![
        Script { host: sh, ops: fix(s_w, sslot) },
        Script { host: sh, ops: fix(s_r, sslot) },
        Script { host: ch, ops: fix(c_w, cslot) },
        Script { host: ch, ops: fix(c_r, cslot) },
    ]
}

// ---------------------------------------------------------------- budget

fn sleeps(side: &Side) -> u32 {
    side.writes.iter().map(|w| w.1 as u32).sum::<u32>() + side.read_steps.iter().map(|r| r.1 as u32).sum::<u32>()
}
fn ext_sleeps(ext: &Ext) -> u32 {
    ext.fin_delay.iter().map(|d| *d as u32).sum::<u32>() + ext.quit.iter().flatten().map(|q| q.1 as u32).sum::<u32>()
}
fn reader_pauses(sc: &Scenario) -> bool {
    sc.client.read_steps.iter().any(|r| r.1 > 0) || sc.server.read_steps.iter().any(|r| r.1 > 0)
}

/// Largest hold d (rounds) such that with `drops` lost packets no segment can
/// legitimately run out of retransmissions, by the stack's own way of counting.
/// A copy sent in round s and held k1 is delivered in round s+k1, its ACK
/// leaves in round s+k1+1 and, held k2, arrives in round s+k1+1+k2.  Copies
/// of a data segment leave at t0, t0+T, ... t0+M*T and the connection is
/// aborted in the egress of round t0+(M+1)*T.  Every lost packet, and every
/// copy that meets a full receive buffer while the reader pauses (`slack`),
/// wastes at most one copy, so the (drops+slack+1)-th copy makes it iff
/// (drops+slack)*T + 2d + 1 <= (M+1)*T - 1.  One further T is given away
/// because the stack (a) counts the egress pass that first emits a SYN /
/// SYN-ACK as a pass without progress and (b) does not restart its pass
/// counter when the handshake completes, so the first interval of the first
/// data segment can be up to T-1 passes short.  Hence 2d <= (M-drops-slack)*T - 2.
pub fn max_hold(cfg: &Cfg, drops: u32, slack: u32) -> Option<u32> {
    let t = cfg.retx_threshold as i64;
    let m = cfg.retx_max as i64;
    let room = (m - drops as i64 - slack as i64) * t - 2;
    if room < 0 {
        None
    } else {
        Some((room / 2) as u32)
    }
}

/// Copies that can be wasted without any loss.  Only reordering can do that:
/// a first data segment or FIN that overtakes the handshake ACK completes the
/// handshake but its payload/FIN is discarded (1), and an older ACK that
/// arrives after a newer one leaves the sender with a stale, too large window,
/// so copies can meet a full receive buffer while the reader pauses (2).
/// Without reordering a window the sender knows is never larger than the
/// receiver's free space (older information is more conservative), so reader
/// pauses of any length cost nothing.
pub fn slack(sc: &Scenario) -> u32 {
    let reorder = sc.plan.max_hold > 0 || !sc.plan.prio.is_empty();
    match (reorder, reader_pauses(sc)) {
        (false, _) => 0,
        (true, false) => 1,
        (true, true) => 3,
    }
}

pub fn within_budget(sc: &Scenario) -> bool {
    if sc.plan.blackhole.is_some() {
        return false;
    }
    // a side that closes without reading everything aborts the connection on purpose: the
    // liveness claim is about connections that no program tears down
    if sc.ext.quits() {
        return false;
    }
    let slack = slack(sc);
    match max_hold(&sc.cfg, sc.plan.max_drops, slack) {
        Some(d) => sc.plan.max_hold <= d && sc.plan.max_drops <= sc.cfg.retx_max,
        None => false,
    }
}

/// Round bound with >= 4x margin: worst case one byte per (round trip +
/// retransmit wait), plus handshake/close packets and one retransmit wait per
/// lost packet, plus every scripted pause.
pub fn round_bound(sc: &Scenario) -> u32 {
    let bytes = total(&sc.client) + total(&sc.server);
    let per = sc.cfg.retx_threshold + 2 * sc.plan.max_hold + 3;
    4 * ((bytes + 12 + sc.plan.max_drops + sc.plan.by_id.len() as u32 / 4) * per + sleeps(&sc.client) + sleeps(&sc.server) + ext_sleeps(&sc.ext)) + 64
}

// ---------------------------------------------------------------- wire

struct C06Wire<'a> {
    tw: TableWire<'a>,
    drop_acks: bool,
}
impl Wire for C06Wire<'_> {
    fn fate(&mut self, rec: &PktRec, _tr: &Tracker) -> Fate {
        // a spared ACK must not use up the drop budget
        if !self.drop_acks && !rec.kind.reliable() {
            return self.tw.decide_no_drop(rec);
        }
        self.tw.decide(rec)
    }
    fn order(&mut self, _r: u32, ids: &mut Vec<usize>, _p: &[PktRec]) {
        self.tw.reorder(ids);
    }
}

// ---------------------------------------------------------------- oracle

#[derive(Default, Debug)]
struct Dir {
    written: u64,
    closed: bool,
    read: u64,
    eof: bool,
}

/// What the run looked like to the two programs; shared by Wire and fixture modes.
pub struct Seen {
    pub obs: Vec<Obs>,
    pub pkts: Vec<PktRec>,
    pub end: End,
    pub rounds: u32,
    pub blocked: Vec<(usize, usize)>,
    pub lost_wakeup: bool,
    pub tracker: Option<Tracker>,
}

fn is_client_task(task: usize) -> bool {
    task >= 2
}

/// SAFETY clauses; returns the two directions' final accounting.
fn safety(seen: &Seen, out: &mut Outcome) -> [Dir; 2] {
    // dir 0 = client -> server, dir 1 = server -> client
    let mut d: [Dir; 2] = Default::default();
    for o in &seen.obs {
        let from_client = is_client_task(o.task);
        let wdir = if from_client { 0 } else { 1 };
        let rdir = 1 - wdir;
        match &o.ev {
            Ev::Wrote { n, off, .. } => {
                if *off != d[wdir].written {
                    out.fail("harness:write-offset-not-contiguous", format!("{o:?}"));
                }
                d[wdir].written += *n as u64;
            }
            Ev::ShutdownOk { .. } | Ev::Dropped { .. } => d[wdir].closed = true,
            Ev::ReadN { n, off, bad, .. } => {
                if let Some(b) = bad {
                    out.fail(
                        "safety:byte-read-differs-from-byte-written",
                        format!("direction {rdir}: offset {b} differs from the written stream; event {o:?}"),
                    );
                }
                if *off != d[rdir].read {
                    out.fail("harness:read-offset-not-contiguous", format!("{o:?}"));
                }
                d[rdir].read += *n as u64;
                if d[rdir].read > d[rdir].written {
                    out.fail(
                        "safety:read-more-than-written",
                        format!("direction {rdir}: read {} bytes but only {} were written so far; event {o:?}", d[rdir].read, d[rdir].written),
                    );
                }
                if d[rdir].eof {
                    out.fail("safety:data-after-eof", format!("direction {rdir}: {o:?}"));
                }
            }
            Ev::Eof { off, .. } => {
                d[rdir].eof = true;
                if !d[rdir].closed {
                    out.fail(
                        "safety:eof-before-peer-closed",
                        format!("direction {rdir}: Ok(0) at offset {off} in round {} but the writer has neither shut down nor dropped", o.round),
                    );
                } else if *off != d[rdir].written {
                    out.fail(
                        "safety:eof-before-all-written-bytes(silent-loss)",
                        format!("direction {rdir}: Ok(0) at offset {off} in round {} but {} bytes were written", o.round, d[rdir].written),
                    );
                }
            }
            _ => {}
        }
    }
    d
}

/// Known-finding patterns, recognised from the wire state at the end of a run
/// that did not complete.  Returns (finding id, signature suffix).
fn attribute(sc: &Scenario, seen: &Seen) -> Vec<(&'static str, &'static str)> {
    let Some(tr) = seen.tracker.as_ref() else { return Vec::new() };
    let mut lost_ack = false;
    let mut zero_win = false;
    let mut cut_short = false;
    let mut ack_ignored = false;
    let mut stale_rst = false;
    // ends whose operations reported TimedOut
    let mut timed_out_end = [false; 2];
    // a silent abort of an already closed socket shows up as a RST towards the peer
    let mut reset_seen = false;
    for o in &seen.obs {
        if let Ev::Failed { err, .. } = &o.ev {
            if err.is("TimedOut") {
                timed_out_end[if is_client_task(o.task) { 0 } else { 1 }] = true;
            }
            if err.is("ConnectionReset") {
                reset_seen = true;
            }
        }
    }
    for c in &tr.conns {
        for e in 0..2 {
            let me = &c.ends[e];
            let peer = &c.ends[1 - e];
            let Some(isn) = me.isn else { continue };
            let base = me.una.unwrap_or(isn);
            if let Some(a) = peer.max_ack_emitted {
                // the peer has acknowledged sequence space this end does not know about
                if (base.wrapping_sub(a) as i32) < 0 && (a.wrapping_sub(me.max_end) as i32) <= 0 {
                    lost_ack = true;
                }
            }
            if me.win == Some(0) {
                zero_win = true;
            }
            // aborted although its handshake segment was retransmitted and no later segment
            // left retx_max+1 times: the handshake's attempts were charged to it
            if timed_out_end[e] || (reset_seen && peer.rst_delivered) {
                let hs = me.copies.get(&isn).copied().unwrap_or(0);
                let most = me.copies.iter().filter(|(s, _)| **s != isn).map(|(_, n)| *n).max().unwrap_or(0);
                if hs >= 2 && most < sc.cfg.retx_max + 1 {
                    cut_short = true;
                }
            }
            // nothing can happen any more, this end still has unacknowledged sequence space and an
            // open window, yet it stopped before the oldest segment had left retx_max+1 times
            // (a silent abort of a socket whose fd was already closed)
            if seen.end == End::Stalled && (base.wrapping_sub(me.max_end) as i32) < 0 && me.win != Some(0) {
                let hs = me.copies.get(&isn).copied().unwrap_or(0);
                let n = me.copies.get(&base).copied().unwrap_or(0);
                if hs >= 2 && n < sc.cfg.retx_max + 1 {
                    cut_short = true;
                }
            }
            // this end received a duplicate of something it had already acknowledged, after one of
            // its own ACK-bearing packets had been lost: the duplicate was the peer asking again
            if me.got_duplicate {
                let me_addr = c.addr[e];
                if seen.pkts.iter().any(|p| p.fate == Fate::Drop && Some(p.src) == me_addr && p.tcp.map(|t| t.ackf).unwrap_or(false)) {
                    lost_ack = true;
                }
            }
            if me.sent_below_una {
                ack_ignored = true;
            }
            if me.stale_rst_delivered {
                stale_rst = true;
            }
            // a RST reached an end that had sent its FIN and had already acknowledged the peer's FIN:
            // the connection was complete in both directions from its point of view
            if me.rst_delivered && me.fin_emitted && peer.fin_emitted && me.max_ack_emitted == Some(peer.max_end) {
                stale_rst = true;
            }
        }
    }
    let mut v = Vec::new();
    if stale_rst && reset_seen {
        v.push(("F-C06-5", "rst-for-late-segment-resets-connection-already-closed-in-both-directions(no-time-wait,rst-not-validated)"));
    }
    if zero_win {
        v.push(("F-C06-2", "sender-left-with-zero-window(no-persist-probe)"));
    }
    if cut_short {
        v.push(("F-C06-3", "aborted-before-oldest-segment-was-sent-retx_max+1-times(handshake-retx-counters-carried-over)"));
    }
    if ack_ignored {
        v.push(("F-C06-4", "delivered-ack-ignored-after-go-back-n-rewind(sender-retransmits-below-it)"));
    }
    if lost_ack {
        v.push(("F-C06-1", "acknowledged-data-retransmitted-but-never-re-acked"));
    }
    v
}

const CONN_ERRS: [&str; 5] = ["TimedOut", "ConnectionReset", "BrokenPipe", "NotConnected", "ConnectionRefused"];

fn judge(sc: &Scenario, seen: &Seen, slow_rerun: Option<&Seen>, out: &mut Outcome) {
    let dirs = safety(seen, out);
    if out.failure.is_some() {
        return;
    }
    let failed: Vec<&Obs> = seen.obs.iter().filter(|o| matches!(o.ev, Ev::Failed { .. })).collect();
    let complete = seen.end == End::Finished
        && failed.is_empty()
        && dirs[0].eof
        && dirs[1].eof
        && dirs[0].read == total(&sc.client) as u64
        && dirs[1].read == total(&sc.server) as u64;
    if complete {
        out.label("result:complete");
        return;
    }
    if within_budget(sc) {
        // LIVENESS clause
        let what: String = if let Some(f) = failed.first() {
            match &f.ev {
                Ev::Failed { what, err, .. } => format!("{what}-returned-{}", err.kind),
                _ => unreachable!(),
            }
        } else {
            match seen.end {
                End::Stalled if seen.lost_wakeup => "stall(lost-wakeup:a-forced-poll-made-progress)".into(),
                End::Stalled => "stall(nothing-can-happen-any-more)".into(),
                End::Bound => match slow_rerun {
                    Some(s) if s.end == End::Finished => "HARNESS-BOUND-TOO-TIGHT(finished-within-10x-bound)".into(),
                    Some(_) => "stall(still-moving-after-10x-bound)".into(),
                    None => "bound".into(),
                },
                End::Finished => "finished-without-all-bytes-and-eof".into(),
            }
        };
        let detail = || {
            format!(
                "end={:?} rounds={} blocked_tasks={:?} failed={:?} dirs={:?} dropped={:?} tracker={}",
                seen.end,
                seen.rounds,
                seen.blocked,
                failed.iter().map(|o| format!("r{} t{} {:?}", o.round, o.task, o.ev)).collect::<Vec<_>>(),
                dirs,
                seen.pkts
                    .iter()
                    .filter(|p| p.fate == Fate::Drop)
                    .map(|p| format!("#{} {} r{}", p.id, p.kind.name(), p.round))
                    .collect::<Vec<_>>(),
                seen.tracker.as_ref().map(|t| serde_json::to_string(&t.conns).unwrap_or_default()).unwrap_or_default(),
            )
        };
        let pats = attribute(sc, seen);
        let forced = std::env::var("VERIF_C06_STRICT").unwrap_or_default();
        // tolerated: the first pattern whose finding still has status "known"
        let tolerated = if sc.strict || pats.first().map(|(id, _)| forced == *id).unwrap_or(false) {
            None
        } else {
            pats.iter().find(|(id, _)| is_known(id))
        };
        match (tolerated, pats.first()) {
            (Some((id, _)), _) => {
                out.exclude(*id);
                out.label(format!("excluded:{id}"));
            }
            (None, Some((_, sig))) => out.fail(format!("liveness-within-budget:{sig}"), format!("{what}; {}", detail())),
            (None, None) => out.fail(format!("liveness-within-budget:{what}"), detail()),
        }
        return;
    }
    // BEYOND budget, or torn down by a program
    out.label(if sc.ext.quits() && sc.plan.blackhole.is_none() { "result:torn-down-by-program-incomplete" } else { "result:beyond-budget-incomplete" });
    let scripts = build_scripts(sc);
    for f in &failed {
        if let Ev::Failed { what, err, .. } = &f.ev {
            if !CONN_ERRS.contains(&err.kind.as_str()) {
                out.fail(
                    "beyond-budget:unexpected-error-kind",
                    format!("{what} returned {err:?} (round {}, task {})", f.round, f.task),
                );
            }
            out.label(format!("error:{what}:{}", err.kind));
        }
    }
    if seen.end == End::Stalled {
        if let Some(tr) = &seen.tracker {
            for c in &tr.conns {
                for e in 0..2 {
                    let me = &c.ends[e];
                    let Some(isn) = me.isn else { continue };
                    let una = me.una.unwrap_or(isn);
                    let unacked = (una.wrapping_sub(me.max_end) as i32) < 0;
                    if !unacked || me.rst_delivered {
                        continue;
                    }
                    // tasks of this end's host that are still parked
                    let client_end = e == 0;
                    let parked: Vec<(usize, usize)> = seen
                        .blocked
                        .iter()
                        .copied()
                        .filter(|(t, op)| {
                            is_client_task(*t) == client_end
                                && matches!(
                                    scripts.get(*t).and_then(|s| s.ops.get(*op)),
                                    Some(Op::Connect { .. } | Op::Read { .. } | Op::Write { .. } | Op::Shutdown { .. })
                                )
                        })
                        .collect();
                    if parked.is_empty() {
                        continue;
                    }
                    if me.win == Some(0) {
                        if sc.strict || !is_known("F-C06-2") {
                            out.fail("beyond-budget:sender-left-with-zero-window(no-persist-probe)", format!("end {e}: {me:?}"));
                        } else {
                            out.exclude("F-C06-2");
                        }
                        continue;
                    }
                    out.fail(
                        "beyond-budget:retransmit-budget-exhausted-but-no-error(task-parked-forever)",
                        format!(
                            "end {e} ({}) has unacknowledged sequence space (una={una}, max_end={}) and nothing can happen any more, yet tasks {parked:?} are still parked; lost_wakeup={}",
                            if client_end { "client" } else { "server" },
                            me.max_end,
                            seen.lost_wakeup
                        ),
                    );
                }
            }
        }
    }
}

fn classify(sc: &Scenario, seen: &Seen, out: &mut Outcome) {
    let mut nt = false;
    for p in &seen.pkts {
        if p.fate == Fate::Drop {
            nt = true;
            out.label(format!("drop:{}", p.kind.name()));
        }
        if p.overtaken_by > 0 {
            nt = true;
            out.label(format!("overtaken:{}", p.kind.name()));
        }
        if matches!(p.fate, Fate::Hold(_)) {
            out.label("held");
        }
        out.label(format!("seen:{}", p.kind.name()));
    }
    nt |= teardown_labels(sc, seen, out);
    out.nontrivial = nt;
    out.label(if sc.plan.blackhole.is_some() {
        "class:beyond-budget(blackhole)"
    } else if sc.ext.quits() {
        "class:program-closes-without-reading-everything"
    } else if within_budget(sc) {
        "class:within-budget"
    } else {
        "class:beyond-budget(other)"
    });
    let mss = sc.cfg.mss(sc.v6);
    if sc.cfg.send_cap < mss || sc.cfg.recv_cap < mss {
        out.label("cap<mss");
    }
    let big = total(&sc.client).max(total(&sc.server)) as usize;
    if sc.cfg.send_cap < big || sc.cfg.recv_cap < big {
        out.label("cap<transfer");
    }
    if sc.cfg.recv_cap == 1 || sc.cfg.send_cap == 1 {
        out.label("cap=1");
    }
    if mss == 1 {
        out.label("mss=1");
    }
    if big > mss {
        out.label("multi-segment");
    }
    match sc.reply {
        Reply::None => out.label("half-close:both-directions-at-once"),
        _ => out.label(if sc.fin_by_drop { "reply-after-eof:fin-by-drop" } else { "reply-after-eof" }),
    }
    if total(&sc.client) > 0 && total(&sc.server) > 0 {
        out.label("bidirectional");
    }
    if reader_pauses(sc) {
        out.label("reader-pauses");
        let longest = sc.client.read_steps.iter().chain(sc.server.read_steps.iter()).map(|r| r.1 as u32).max().unwrap_or(0);
        if longest > (sc.cfg.retx_max + 1) * sc.cfg.retx_threshold {
            out.label("reader-pause-longer-than-retransmit-budget");
        }
    }
    if sc.v6 {
        out.label("ipv6");
    }
    out.count("packets", seen.pkts.len() as u64);
    out.count("rounds", seen.rounds as u64);
}

/// Histories in which a connection ends other than by the two FINs, seen from each reader: was
/// the peer's FIN already in (acknowledged by the reader's end) when the abort happened, were
/// accepted bytes still unread, and what did the reader get afterwards.  Labels only; the verdict
/// on such a history is the SAFETY clause on `Ok(0)`.  Returns true if the history is one of the
/// class "aborted after the peer's FIN with unread bytes" (counts as non-trivial).
fn teardown_labels(sc: &Scenario, seen: &Seen, out: &mut Outcome) -> bool {
    for who in 0..2 {
        if sc.ext.quit[who].is_some() {
            out.label("program:quits-reading-and-drops");
        }
        if sc.ext.fin_delay[who] > 0 {
            out.label("program:late-shutdown");
        }
    }
    let mut hit = false;
    // per direction: bytes accepted by write calls / bytes read / how the reader ended
    let mut written = [0u64; 2];
    let mut read = [0u64; 2];
    let mut ended: [Option<(u32, String)>; 2] = [None, None];
    // first round in which an operation of this side (0 = client) reported an abort
    let mut abort_round: [Option<(u32, String)>; 2] = [None, None];
    for o in &seen.obs {
        let side = if is_client_task(o.task) { 0 } else { 1 };
        match &o.ev {
            Ev::Wrote { n, .. } => written[side] += *n as u64,
            Ev::ReadN { n, .. } => read[1 - side] += *n as u64,
            Ev::Eof { .. } => ended[1 - side] = Some((o.round, "eof".into())),
            Ev::Failed { what, err, .. } => {
                if *what == "read" {
                    ended[1 - side] = Some((o.round, err.kind.clone()));
                }
                if (err.is("TimedOut") || err.is("ConnectionReset")) && abort_round[side].is_none() {
                    abort_round[side] = Some((o.round, err.kind.clone()));
                }
            }
            _ => {}
        }
    }
    let Some(tr) = seen.tracker.as_ref() else { return false };
    let Some(c) = tr.conns.last() else { return false };
    for rdir in 0..2 {
        // direction rdir is written by side `rdir` (0 = client) and read by the other side
        let (w, r) = (rdir, 1 - rdir);
        let fin_in = c.ends[w].fin_emitted && c.ends[r].isn.is_some() && c.ends[r].max_ack_emitted == Some(c.ends[w].max_end);
        let Some((_, kind)) = &abort_round[r] else { continue };
        out.label(format!("teardown:reader-side-aborted:{kind}"));
        if !fin_in {
            continue;
        }
        let unread = read[rdir] < written[rdir];
        match (&ended[rdir], unread) {
            (Some((_, how)), true) if how != "eof" => {
                hit = true;
                out.label(format!("teardown:aborted-after-peer-fin-with-unread-bytes:reader-got-{how}"));
            }
            (Some((_, how)), false) => out.label(format!("teardown:aborted-after-peer-fin-all-read:reader-got-{how}")),
            (Some(_), true) => {}
            (None, _) => out.label("teardown:aborted-after-peer-fin:reader-never-read-again"),
        }
    }
    // a RST that arrived after both FINs must not abort anything: the reader still gets everything
    for e in 0..2 {
        if c.ends[e].rst_delivered && c.ends[e].fin_emitted && c.ends[1 - e].fin_emitted {
            out.label("teardown:rst-delivered-to-an-end-that-had-sent-its-fin");
        }
    }
    hit
}

pub fn trace(seen: &Seen) {
    let mut lines: Vec<(u32, u8, String)> = Vec::new();
    for p in &seen.pkts {
        let t = p.tcp.map(|t| format!("seq={} ack={} win={} len={}", t.seq % 100000, t.ack % 100000, t.window, t.len)).unwrap_or_default();
        lines.push((p.round, 1, format!("  pkt#{} {} h{:?}->h{:?} {} fate={:?} delivered={:?} overtaken={}", p.id, p.kind.name(), p.src_host, p.dst_host, t, p.fate, p.delivered, p.overtaken_by)));
    }
    for o in &seen.obs {
        lines.push((o.round, 0, format!("obs h{} t{} op{} {:?}", o.host, o.task, o.op, o.ev)));
    }
    lines.sort_by_key(|l| (l.0, l.1));
    for l in lines {
        println!("r{:<4} {}", l.0, l.2);
    }
    println!("end={:?} rounds={} blocked={:?} lost_wakeup={}", seen.end, seen.rounds, seen.blocked, seen.lost_wakeup);
}

fn seen_of(log: RunLog) -> Seen {
    Seen {
        obs: log.obs,
        pkts: log.pkts,
        end: log.end,
        rounds: log.rounds,
        blocked: log.blocked,
        lost_wakeup: log.lost_wakeup,
        tracker: Some(log.tracker),
    }
}

fn run_wire(sc: &Scenario, max_rounds: u32) -> Seen {
    let scripts = build_scripts(sc);
    let mut w = C06Wire { tw: TableWire::new(&sc.plan), drop_acks: sc.drop_acks };
    let lim = Limits { max_rounds, quiet_rounds: sc.cfg.quiet_rounds() + sc.plan.max_hold, settle: 4 };
    seen_of(nw::run(&sc.cfg, 2, &scripts, &mut w, &lim))
}

pub fn valid(sc: &Scenario) -> Result<(), String> {
    let hdr = if sc.v6 { 60 } else { 40 };
    if sc.cfg.mtu <= hdr || sc.cfg.loopback_mtu <= hdr {
        return Err("MTU leaves no payload room".into());
    }
    if sc.cfg.send_cap == 0 || sc.cfg.recv_cap == 0 || sc.cfg.retx_threshold == 0 {
        return Err("caps and retx_threshold must be >= 1".into());
    }
    if sc.fin_by_drop && sc.reply == Reply::None {
        return Err("fin_by_drop needs a replying side".into());
    }
    Ok(())
}

pub fn run(sc: &Scenario) -> Outcome {
    let mut out = Outcome::ok();
    if let Err(e) = valid(sc) {
        out.label(format!("invalid-scenario:{e}"));
        return out;
    }
    let bound = round_bound(sc);
    let seen = match sc.mode {
        Mode::Wire => run_wire(sc, bound),
        Mode::ClientServer => run_client_server(sc, bound),
        Mode::Lo => run_lo(sc, bound),
    };
    let mut rerun = None;
    if seen.end == End::Bound && within_budget(sc) {
        rerun = Some(match sc.mode {
            Mode::Wire => run_wire(sc, bound.saturating_mul(10)),
            Mode::ClientServer => run_client_server(sc, bound.saturating_mul(10)),
            Mode::Lo => run_lo(sc, bound.saturating_mul(10)),
        });
        out.label("bound-hit:re-run-with-10x");
    }
    if std::env::var("NETWIRE_TRACE").is_ok() {
        trace(&seen);
    }
    judge(sc, &seen, rerun.as_ref(), &mut out);
    classify(sc, &seen, &mut out);
    out
}

// ---------------------------------------------------------------- fixtures (end-to-end)

struct RuleState {
    tracker: Tracker,
    pkts: Vec<PktRec>,
    /// (due tick in ms, packet id) of `Deliver(d)` packets the scheduler still holds
    pending: Vec<(u64, usize)>,
    /// packet ids in the order the scheduler handed them over
    order: Vec<usize>,
    t0: Option<tokio::time::Instant>,
}
impl RuleState {
    /// The scheduler hands over packets due at tick t before it evaluates that tick's egress.
    fn flush(&mut self, now: u64) {
        self.pending.sort();
        while let Some((due, id)) = self.pending.first().copied() {
            if due > now {
                break;
            }
            self.pending.remove(0);
            self.pkts[id].delivered = Some(due as u32);
            self.order.push(id);
            let rec = self.pkts[id].clone();
            self.tracker.on_deliver(&rec);
        }
    }
}

fn fixture_done(sh: &nw::Shared) -> bool {
    sh.all_done()
}

fn run_client_server(sc: &Scenario, bound_ms: u32) -> Seen {
    use std::time::Duration;
    use turmoil_net::fixture::ClientServer;
    use turmoil_net::Verdict;
    let scripts = build_scripts(sc);
    let sh = nw::fixture_shared(2, scripts.len());
    let rs = Rc::new(RefCell::new(RuleState { tracker: Tracker::default(), pkts: Vec::new(), pending: Vec::new(), order: Vec::new(), t0: None }));
    let plan = sc.plan.clone();
    let drop_acks = sc.drop_acks;
    let server_fut = {
        let sh = sh.clone();
        let scripts = scripts.clone();
        async move {
            nw::host_future(sh.clone(), &scripts, 1).await;
        }
    };
    let timed_out = Rc::new(std::cell::Cell::new(false));
    let client_fut = {
        let sh = sh.clone();
        let scripts = scripts.clone();
        let rs = rs.clone();
        let timed_out = timed_out.clone();
        async move {
            // the rule sees every non-loopback packet; it is the wire policy of this mode
            let plan_rc = Rc::new(plan);
            let state: Rc<RefCell<(u32, std::collections::BTreeMap<Kind, u32>)>> = Rc::new(RefCell::new((0, Default::default())));
            let guard = {
                let rs = rs.clone();
                let plan = plan_rc.clone();
                let state = state.clone();
                turmoil_net::rule(move |p: &turmoil_net::Packet| -> Verdict {
                    let mut g = rs.borrow_mut();
                    let t0 = *g.t0.get_or_insert_with(tokio::time::Instant::now);
                    let now = t0.elapsed().as_millis() as u64;
                    g.flush(now);
                    let id = g.pkts.len();
                    let (kind, src, dst, tcp, len) = g.tracker.on_emit(p);
                    let mut rec = PktRec {
                        id,
                        round: now as u32,
                        src,
                        dst,
                        src_host: nw::ip_host(src.ip()),
                        dst_host: nw::ip_host(dst.ip()),
                        kind,
                        tcp,
                        len,
                        fate: Fate::Now,
                        delivered: None,
                        overtaken_by: 0,
                    };
                    // same table semantics as TableWire (budget, by_kind, by_id), no priorities
                    let mut st = state.borrow_mut();
                    let nth = {
                        let c = st.1.entry(kind).or_default();
                        let v = *c;
                        *c += 1;
                        v
                    };
                    let mut f = plan.by_id.get(id).copied().unwrap_or(Fate::Now);
                    if let Some((_, _, kf)) = plan.by_kind.iter().find(|(k, n, _)| *k == kind && *n == nth) {
                        f = *kf;
                    }
                    if f == Fate::Drop && ((!drop_acks && !kind.reliable()) || st.0 >= plan.max_drops) {
                        f = Fate::Now;
                    }
                    if let Fate::Hold(k) = f {
                        let k = k.min(plan.max_hold);
                        f = if k == 0 { Fate::Now } else { Fate::Hold(k) };
                    }
                    if f == Fate::Drop {
                        st.0 += 1;
                    }
                    rec.fate = f;
                    // what the receiving end learns, in the scheduler's delivery order
                    match f {
                        Fate::Now => {
                            rec.delivered = Some(now as u32);
                            g.order.push(id);
                            g.tracker.on_deliver(&rec);
                        }
                        Fate::Hold(k) => g.pending.push((now + k as u64, id)),
                        Fate::Drop => {}
                    }
                    g.pkts.push(rec);
                    match f {
                        Fate::Now => Verdict::Pass,
                        Fate::Hold(k) => Verdict::Deliver(Duration::from_millis(k as u64)),
                        Fate::Drop => Verdict::Drop,
                    }
                })
            };
            let deadline = Duration::from_millis(bound_ms as u64);
            let r = tokio::time::timeout(deadline, async {
                nw::host_future(sh.clone(), &scripts, 0).await;
                while !fixture_done(&sh) {
                    tokio::time::sleep(Duration::from_millis(1)).await;
                }
            })
            .await;
            timed_out.set(r.is_err());
            drop(guard);
            // sockets must not outlive the fixture's Net
            nw::fixture_clear_host(&sh, 0);
            nw::fixture_clear_host(&sh, 1);
        }
    };
    ClientServer::with_config(sc.cfg.kernel())
        .server([nw::host_ip(1, false), nw::host_ip(1, true)], server_fut)
        .run([nw::host_ip(0, false), nw::host_ip(0, true)], client_fut);
    let obs = sh.take_obs();
    let blocked: Vec<(usize, usize)> = (0..scripts.len()).filter(|t| !sh.task_done(*t)).map(|t| (t, sh.current_op(t))).collect();
    let st = Rc::try_unwrap(rs).ok().map(|c| c.into_inner());
    let (pkts, tracker) = match st {
        Some(mut s) => {
            s.flush(u64::MAX);
            // overtaking: a later packet of the same direction was handed over earlier
            let order = std::mem::take(&mut s.order);
            for (pos, id) in order.iter().enumerate() {
                let n = order[..pos]
                    .iter()
                    .filter(|q| **q > *id && s.pkts[**q].src == s.pkts[*id].src && s.pkts[**q].dst == s.pkts[*id].dst)
                    .count();
                s.pkts[*id].overtaken_by = n as u32;
            }
            (s.pkts, Some(s.tracker))
        }
        None => (Vec::new(), None),
    };
    let rounds = obs.last().map(|o| o.round).unwrap_or(0);
    Seen {
        obs,
        pkts,
        end: if timed_out.get() { End::Bound } else { End::Finished },
        rounds,
        blocked,
        lost_wakeup: false,
        tracker,
    }
}

fn run_lo(sc: &Scenario, bound_ms: u32) -> Seen {
    use std::time::Duration;
    let scripts = build_scripts(sc);
    let sh = nw::fixture_shared(1, scripts.len());
    let timed_out = {
        let sh = sh.clone();
        let scripts = scripts.clone();
        turmoil_net::fixture::lo_with_config(sc.cfg.kernel(), async move {
            let r = tokio::time::timeout(Duration::from_millis(bound_ms as u64), nw::host_future(sh.clone(), &scripts, 0)).await;
            nw::fixture_clear_host(&sh, 0);
            r.is_err()
        })
    };
    let obs = sh.take_obs();
    let blocked: Vec<(usize, usize)> = (0..scripts.len()).filter(|t| !sh.task_done(*t)).map(|t| (t, sh.current_op(t))).collect();
    let rounds = obs.last().map(|o| o.round).unwrap_or(0);
    Seen { obs, pkts: Vec::new(), end: if timed_out { End::Bound } else { End::Finished }, rounds, blocked, lost_wakeup: false, tracker: None }
}

// ---------------------------------------------------------------- generators

fn cap_strategy() -> BoxedStrategy<usize> {
    prop_oneof![
        3 => Just(1usize),
        3 => 2usize..=4,
        3 => 5usize..=16,
        2 => 17usize..=64,
        2 => Just(65536usize),
    ]
    .boxed()
}

fn cfg_strategy() -> BoxedStrategy<(Cfg, bool)> {
    (
        any::<bool>(),
        prop_oneof![3 => Just(1u32), 3 => 2u32..=4, 3 => 5u32..=16, 2 => 17u32..=64, 1 => Just(1460u32)],
        cap_strategy(),
        cap_strategy(),
        prop_oneof![1 => Just(1u32), 3 => 2u32..=4],
        prop_oneof![1 => 1u32..=2, 3 => 3u32..=5],
    )
        .prop_map(|(v6, mss, send_cap, recv_cap, t, m)| {
            let hdr = if v6 { 60 } else { 40 };
            (Cfg { mtu: hdr + mss, loopback_mtu: 65536, send_cap, recv_cap, retx_threshold: t, retx_max: m }, v6)
        })
        .boxed()
}

fn side_strategy() -> BoxedStrategy<Side> {
    (
        proptest::collection::vec((prop_oneof![6 => 1u32..=12, 3 => 13u32..=48, 1 => 100u32..=300], prop_oneof![4 => Just(0u8), 1 => 1u8..=3]), 0..4),
        proptest::collection::vec(prop_oneof![3 => Just(1u16), 3 => 2u16..=5, 2 => 6u16..=32, 2 => Just(1024u16)], 1..3),
        prop_oneof![
            3 => Just(Vec::new()),
            1 => proptest::collection::vec((1u16..=8, 0u8..=3), 1..4),
        ],
    )
        .prop_map(|(writes, bufs, read_steps)| Side { writes, bufs, read_steps })
        .boxed()
}

fn fate_strategy() -> BoxedStrategy<Fate> {
    prop_oneof![6 => Just(Fate::Now), 3 => (1u32..=8).prop_map(Fate::Hold), 2 => Just(Fate::Drop)].boxed()
}

fn kind_strategy() -> BoxedStrategy<Kind> {
    proptest::sample::select(nw::TCP_KINDS.to_vec()).boxed()
}

fn plan_strategy() -> BoxedStrategy<FatePlan> {
    (
        proptest::collection::vec(fate_strategy(), 0..48),
        proptest::collection::vec((kind_strategy(), 0u32..4, prop_oneof![2 => Just(Fate::Drop), 1 => (1u32..=8).prop_map(Fate::Hold)]), 0..4),
        prop_oneof![1 => Just(Vec::new()), 1 => proptest::collection::vec(0u8..4, 0..48)],
        0u32..=5,
        0u32..=12,
    )
        .prop_map(|(by_id, by_kind, prio, max_drops, max_hold)| FatePlan { by_id, by_kind, prio, max_drops, max_hold, blackhole: None })
        .boxed()
}

/// Clamp drops and hold so that the scenario is inside the retransmit budget.
fn fit_budget(sc: &mut Scenario) {
    sc.plan.max_drops = sc.plan.max_drops.min(sc.cfg.retx_max);
    loop {
        if let Some(d) = max_hold(&sc.cfg, sc.plan.max_drops, slack(sc)) {
            if sc.plan.max_hold <= d {
                return;
            }
            // try the hold the budget allows (0 also removes the reordering slack)
            let keep = sc.plan.max_hold;
            sc.plan.max_hold = d;
            if d == 0 {
                sc.plan.prio.clear();
            }
            if max_hold(&sc.cfg, sc.plan.max_drops, slack(sc)).map(|d2| sc.plan.max_hold <= d2).unwrap_or(false) {
                return;
            }
            sc.plan.max_hold = keep.min(d);
        }
        if sc.plan.max_drops > 0 {
            sc.plan.max_drops -= 1;
        } else if reader_pauses(sc) {
            sc.client.read_steps.iter_mut().for_each(|r| r.1 = 0);
            sc.server.read_steps.iter_mut().for_each(|r| r.1 = 0);
        } else if sc.plan.max_hold > 0 || !sc.plan.prio.is_empty() {
            sc.plan.max_hold = 0;
            sc.plan.prio.clear();
        } else {
            // not even a loss-free, delay-free exchange fits (retx_max*retx_threshold < 2)
            return;
        }
    }
}

/// Parameters of the generator class "the connection is aborted under a slow reader": one side
/// (the victim) reads `first` bytes and then pauses longer than anything else in the run takes,
/// while its peer writes more than that and half-closes, so that the peer's bytes and FIN sit
/// unread in the victim's receive buffer; meanwhile the connection is aborted, and then the
/// victim's reader goes on reading.  Only a recipe over ordinary scenario fields (`Side`, `Ext`,
/// `FatePlan::blackhole`); `run` knows nothing about it.
#[derive(Clone, Copy, Debug, PartialEq)]
pub struct Teardown {
    pub victim_server: bool,
    /// bytes the victim's reader takes before it pauses (1..=6)
    pub first: u16,
    /// the peer writes at least first + 1 + more bytes (0..=16)
    pub more: u32,
    /// the pause is everything that is scheduled before + a whole retransmit budget + extra (0..=6)
    pub extra: u32,
    /// rounds added before the victim's first write (0..=6): it writes while the peer's FIN is already in
    pub late: u8,
    /// keep the generated fate plan (clamped into the budget) or have no other fault
    pub keep_plan: bool,
    /// shrink the peer's transfer (and `first`) so that it fits the send and receive caps, i.e. its
    /// FIN can get in although the victim neither reads nor is heard any more
    pub fit: bool,
    pub cause: Cause,
}
#[derive(Clone, Copy, Debug, PartialEq)]
pub enum Cause {
    /// everything the victim's host emits from packet `from` (2..=33) on is lost: its own data /
    /// FIN run out of retransmissions
    Blackhole { from: u32 },
    /// the peer takes `read` (0..=8) bytes of the victim's stream and, `linger` (0..=6) rounds
    /// after its own half-close, drops its stream (RST if bytes are unread); `fin_late`: the
    /// victim holds its own shutdown back until after its pause (otherwise both FINs are out
    /// when the RST arrives and the stream is complete)
    PeerQuits { read: u16, linger: u8, fin_late: bool },
}

pub fn apply_teardown(sc: &mut Scenario, td: &Teardown) {
    sc.reply = Reply::None;
    sc.fin_by_drop = false;
    sc.ext = Ext::default();
    if !td.keep_plan {
        sc.plan = FatePlan::default();
    }
    sc.plan.blackhole = None;
    fit_budget(sc);
    let (v, p) = if td.victim_server { (1usize, 0usize) } else { (0usize, 1usize) };
    let max_hold = sc.plan.max_hold;
    let budget = (sc.cfg.retx_max + 2) * sc.cfg.retx_threshold + 2;
    let (victim, peer) = if td.victim_server { (&mut sc.server, &mut sc.client) } else { (&mut sc.client, &mut sc.server) };
    let mut first = td.first;
    let mut want = td.first as u32 + 1 + td.more;
    let cap = sc.cfg.send_cap.min(sc.cfg.recv_cap).min(1 << 20) as u32;
    if td.fit && cap >= 2 {
        first = first.min((cap - 1).min(u16::MAX as u32) as u16);
        want = want.min(cap);
        let mut room = cap;
        for w in peer.writes.iter_mut() {
            w.0 = w.0.min(room);
            room -= w.0;
        }
    }
    let have = total(peer);
    if have < want {
        peer.writes.push((want - have, 0));
    }
    if let Some(w) = victim.writes.first_mut() {
        w.1 = w.1.saturating_add(td.late);
    }
    let mut before = 2 * max_hold + victim.writes.iter().chain(peer.writes.iter()).map(|w| w.1 as u32).sum::<u32>();
    let mut fin_late = false;
    match td.cause {
        Cause::Blackhole { from } => sc.plan.blackhole = Some((v, from)),
        Cause::PeerQuits { read, linger, fin_late: fl } => {
            // something of the victim's stream stays unread at the peer
            let have = total(victim);
            if have <= read as u32 {
                victim.writes.push((read as u32 + 1 - have, 0));
            }
            sc.ext.quit[p] = Some((read, linger));
            before += linger as u32;
            fin_late = fl;
        }
    }
    let pause = (before + budget + td.extra).min(250) as u8;
    victim.read_steps = vec![(first, pause)];
    if fin_late {
        sc.ext.fin_delay[v] = pause.saturating_add(4);
    }
}

/// The slow-reader class: no faults at all, one reader pauses longer than a whole retransmit budget.
fn apply_slow(sc: &mut Scenario, server_reads_slowly: bool, first: u16, extra: u32) {
    sc.plan = FatePlan::default();
    sc.reply = Reply::None;
    sc.fin_by_drop = false;
    sc.ext = Ext::default();
    let pause = ((sc.cfg.retx_max + 2) * sc.cfg.retx_threshold + 2 + extra).min(255) as u8;
    let fill = (sc.cfg.recv_cap.min(48) + 8) as u32;
    let (reader, writer) = if server_reads_slowly { (&mut sc.server, &mut sc.client) } else { (&mut sc.client, &mut sc.server) };
    reader.read_steps = vec![(first, pause)];
    if writer.writes.iter().map(|w| w.0).sum::<u32>() < fill {
        writer.writes.push((fill, 0));
    }
}

fn teardown_strategy() -> BoxedStrategy<Teardown> {
    (
        any::<bool>(),
        1u16..=6,
        0u32..=16,
        0u32..=6,
        0u8..=6,
        any::<bool>(),
        prop_oneof![3 => Just(true), 1 => Just(false)],
        prop_oneof![
            1 => prop_oneof![4 => 2u32..8, 2 => 8u32..16, 1 => 16u32..34].prop_map(|from| Cause::Blackhole { from }),
            1 => (0u16..=8, 0u8..=6, prop_oneof![3 => Just(true), 1 => Just(false)])
                .prop_map(|(read, linger, fin_late)| Cause::PeerQuits { read, linger, fin_late }),
        ],
    )
        .prop_map(|(victim_server, first, more, extra, late, keep_plan, fit, cause)| Teardown { victim_server, first, more, extra, late, keep_plan, fit, cause })
        .boxed()
}

/// Sprinkled program dimensions of `Ext` (any combination with everything else).
fn ext_strategy() -> BoxedStrategy<Ext> {
    let quit = || prop_oneof![15 => Just(None), 1 => (0u16..=8, 0u8..=6).prop_map(Some)];
    let delay = || prop_oneof![7 => Just(0u8), 1 => 1u8..=6];
    (quit(), quit(), delay(), delay()).prop_map(|(q0, q1, d0, d1)| Ext { quit: [q0, q1], fin_delay: [d0, d1] }).boxed()
}

pub fn strategy() -> BoxedStrategy<Scenario> {
    strategy_w(1, 5)
}

/// `strategy()` with the aborted-under-a-slow-reader class drawn with odds `td` : `other`.
fn strategy_w(td: u32, other: u32) -> BoxedStrategy<Scenario> {
    (
        cfg_strategy(),
        side_strategy(),
        side_strategy(),
        prop_oneof![2 => Just(Reply::None), 1 => Just(Reply::Client), 1 => Just(Reply::Server)],
        any::<bool>(),
        plan_strategy(),
        prop_oneof![1 => Just(false), 1 => Just(true)],
        // beyond-budget class: (host, from packet id)
        prop_oneof![7 => Just(None), 1 => (0usize..2, 0u32..24).prop_map(Some)],
        // slow-reader class: no faults at all, one reader pauses longer than a whole retransmit budget
        prop_oneof![7 => Just(None), 1 => (any::<bool>(), 1u16..=6, 0u32..=6).prop_map(Some)],
        ext_strategy(),
        // aborted-under-a-slow-reader class
        prop_oneof![other => Just(None), td => teardown_strategy().prop_map(Some)],
    )
        .prop_map(|((cfg, v6), client, server, reply, fbd, plan, drop_acks, black, slow, ext, teardown)| {
            let mut sc = Scenario {
                mode: Mode::Wire,
                cfg,
                v6,
                client,
                server,
                reply,
                fin_by_drop: fbd && reply != Reply::None,
                plan,
                drop_acks,
                strict: false,
                ext,
            };
            if let Some(td) = teardown {
                apply_teardown(&mut sc, &td);
                return sc;
            }
            if let Some((server_reads_slowly, first, extra)) = slow {
                apply_slow(&mut sc, server_reads_slowly, first, extra);
                return sc;
            }
            fit_budget(&mut sc);
            sc.plan.blackhole = black;
            sc
        })
        .boxed()
}

/// End-to-end: smaller transfers, fixture modes.
pub fn e2e_strategy() -> BoxedStrategy<Scenario> {
    (strategy(), prop_oneof![4 => Just(Mode::ClientServer), 1 => Just(Mode::Lo)])
        .prop_map(|(mut sc, mode)| {
            sc.mode = mode;
            // no black-holing in the fixtures: a scenario of the aborted-under-a-slow-reader class
            // that relied on it becomes an ordinary within-budget one, so its long reader pause is
            // cut back to what the budget accounts for (unless no fault is planned at all)
            if sc.plan.blackhole.take().is_some() && !sc.ext.quits() && sc.plan != FatePlan::default() {
                for r in sc.client.read_steps.iter_mut().chain(sc.server.read_steps.iter_mut()) {
                    r.1 = r.1.min(3);
                }
            }
            sc.plan.prio.clear();
            for w in sc.client.writes.iter_mut().chain(sc.server.writes.iter_mut()) {
                w.0 = w.0.min(64);
            }
            if mode == Mode::Lo {
                // rules never see loopback traffic
                sc.plan.by_id.clear();
                sc.plan.by_kind.clear();
                // loopback MSS instead of the external one
                sc.cfg.loopback_mtu = sc.cfg.mtu;
                // no packet log in this mode, so F-C06-2 cannot be recognised: while it is a known
                // finding avoid its shape (a reader whose single reads free less than half the
                // receive buffer); once it is fixed the full space is generated again
                if is_known("F-C06-2") {
                    let need = (sc.cfg.recv_cap / 2 + 1).min(40_000) as u16;
                    for side in [&mut sc.client, &mut sc.server] {
                        side.read_steps.clear();
                        side.bufs.iter_mut().for_each(|b| *b = (*b).max(need));
                    }
                }
                if sc.cfg.recv_cap > 65_536 {
                    sc.cfg.recv_cap = 65_536;
                }
            }
            fit_budget(&mut sc);
            sc
        })
        .boxed()
}

// ---------------------------------------------------------------- bounded-exhaustive tier

fn exhaustive_bases() -> Vec<Scenario> {
    // MSS 4; transfers of <= 2 segments each way
    let mk = |c: &[u32], s: &[u32], reply: Reply, fbd: bool, send_cap: usize, recv_cap: usize, bufs: &[u16]| Scenario {
        mode: Mode::Wire,
        cfg: Cfg { mtu: 44, loopback_mtu: 65536, send_cap, recv_cap, retx_threshold: 3, retx_max: 5 },
        v6: false,
        client: Side { writes: c.iter().map(|n| (*n, 0)).collect(), bufs: bufs.to_vec(), read_steps: vec![] },
        server: Side { writes: s.iter().map(|n| (*n, 0)).collect(), bufs: bufs.to_vec(), read_steps: vec![] },
        reply,
        fin_by_drop: fbd,
        plan: FatePlan::default(),
        drop_acks: true,
        strict: false,
        ext: Ext::default(),
    };
    vec![
        mk(&[4], &[], Reply::None, false, 65536, 65536, &[1024]),
        mk(&[8], &[], Reply::None, false, 65536, 65536, &[1024]),
        mk(&[], &[8], Reply::None, false, 65536, 65536, &[3]),
        mk(&[4], &[4], Reply::None, false, 65536, 65536, &[1024]),
        mk(&[8], &[8], Reply::None, false, 65536, 65536, &[1]),
        mk(&[8], &[5], Reply::Server, false, 65536, 65536, &[1024]),
        mk(&[6], &[8], Reply::Server, true, 65536, 65536, &[2]),
        mk(&[8], &[8], Reply::None, false, 4, 4, &[1024]),
        mk(&[7], &[3], Reply::Client, false, 2, 8, &[1024]),
    ]
}

/// All vectors in {Now, Hold(2), Drop}^n with at most `max_drops` drops, by odometer.
struct FateOdometer {
    n: usize,
    max_drops: usize,
    digits: Vec<u8>,
    done: bool,
}
impl Iterator for FateOdometer {
    type Item = Vec<Fate>;
    fn next(&mut self) -> Option<Vec<Fate>> {
        loop {
            if self.done {
                return None;
            }
            let cur = self.digits.clone();
            // advance
            let mut i = 0;
            loop {
                if i == self.n {
                    self.done = true;
                    break;
                }
                if self.digits[i] < 2 {
                    self.digits[i] += 1;
                    break;
                }
                self.digits[i] = 0;
                i += 1;
            }
            if cur.iter().filter(|d| **d == 2).count() <= self.max_drops {
                return Some(
                    cur.iter()
                        .map(|d| match d {
                            0 => Fate::Now,
                            1 => Fate::Hold(2),
                            _ => Fate::Drop,
                        })
                        .collect(),
                );
            }
        }
    }
}

fn exhaustive_space(n: usize, max_drops: usize) -> impl Iterator<Item = Scenario> + Send {
    exhaustive_bases().into_iter().flat_map(move |base| {
        FateOdometer { n, max_drops, digits: vec![0; n], done: false }.map(move |by_id| {
            let mut sc = base.clone();
            sc.plan = FatePlan { by_id, by_kind: vec![], prio: vec![], max_drops: max_drops as u32, max_hold: 2, blackhole: None };
            sc
        })
    })
}

/// Small family of the aborted-under-a-slow-reader class, enumerated: victim side x cause (black
/// hole from packet 2..=9 | peer quits after 0..=2 bytes, lingering 0..=2 rounds, victim's FIN
/// late or not) x bytes taken before the pause x victim's write program x retransmit settings x
/// reader buffer.  No other fault.
fn teardown_space() -> impl Iterator<Item = Scenario> + Send {
    let mut causes: Vec<Cause> = (2u32..=9).map(|from| Cause::Blackhole { from }).collect();
    for read in 0u16..=2 {
        for linger in 0u8..=2 {
            for fin_late in [true, false] {
                causes.push(Cause::PeerQuits { read, linger, fin_late });
            }
        }
    }
    let victim_writes: [&[(u32, u8)]; 3] = [&[], &[(5, 0)], &[(3, 0), (3, 4)]];
    let mut v = Vec::new();
    for victim_server in [false, true] {
        for cause in &causes {
            for first in [1u16, 3] {
                for vw in victim_writes {
                    for (t, m) in [(1u32, 1u32), (2, 2), (3, 5)] {
                        for buf in [1024u16, 2] {
                            let mut sc = Scenario {
                                mode: Mode::Wire,
                                cfg: Cfg { mtu: 44, loopback_mtu: 65536, send_cap: 65536, recv_cap: 65536, retx_threshold: t, retx_max: m },
                                v6: false,
                                client: Side { writes: vec![], bufs: vec![buf], read_steps: vec![] },
                                server: Side { writes: vec![], bufs: vec![buf], read_steps: vec![] },
                                reply: Reply::None,
                                fin_by_drop: false,
                                plan: FatePlan::default(),
                                drop_acks: true,
                                strict: false,
                                ext: Ext::default(),
                            };
                            let victim = if victim_server { &mut sc.server } else { &mut sc.client };
                            victim.writes = vw.to_vec();
                            let td = Teardown { victim_server, first, more: 4, extra: 1, late: 0, keep_plan: false, fit: true, cause: *cause };
                            apply_teardown(&mut sc, &td);
                            v.push(sc);
                        }
                    }
                }
            }
        }
    }
    v.into_iter()
}

// ---------------------------------------------------------------- probes for the known findings

fn probe_base() -> Scenario {
    Scenario {
        mode: Mode::Wire,
        cfg: Cfg::default(),
        v6: false,
        client: Side { writes: vec![(5, 0)], bufs: vec![1024], read_steps: vec![] },
        server: Side { writes: vec![], bufs: vec![1024], read_steps: vec![] },
        reply: Reply::None,
        fin_by_drop: false,
        plan: FatePlan { max_drops: 1, ..FatePlan::default() },
        drop_acks: true,
        strict: true,
        ext: Ext::default(),
    }
}

/// F-C06-1: one lost pure ACK (1 <= retx_max = 5), everything else delivered at once.
pub fn probe_lost_tail_ack() -> Scenario {
    let mut sc = probe_base();
    // second write long after the first one, whose only ACK is lost
    sc.client.writes = vec![(5, 0), (5, 30)];
    // the server stays silent until it has seen EOF, so no later segment repeats the ACK
    sc.reply = Reply::Server;
    sc.plan.by_kind = vec![(Kind::PureAck, 0, Fate::Drop)];
    sc
}
/// F-C06-1, handshake flavour: the handshake ACK is lost and the client has nothing to say.
pub fn probe_lost_handshake_ack() -> Scenario {
    let mut sc = probe_base();
    sc.client.writes.clear();
    sc.server.writes = vec![(5, 0)];
    sc.reply = Reply::Client;
    sc.plan.by_kind = vec![(Kind::HandshakeAck, 0, Fate::Drop)];
    sc
}
/// F-C06-2: recv_buf_cap 8, 32 bytes, reader takes 1 byte at a time; no loss at all.
pub fn probe_zero_window() -> Scenario {
    let mut sc = probe_base();
    sc.cfg.recv_cap = 8;
    sc.client.writes = vec![(32, 0)];
    sc.server.bufs = vec![1];
    sc.plan.max_drops = 0;
    sc
}

/// F-C06-4: no loss, holds of 1-2 rounds (T=3, M=4): a window update overtakes the older ACK that
/// carries window 0, the retransmit timer rewinds snd_nxt while the window is closed, and the ACK of
/// the byte that had already been sent is then ignored (acked > in_flight); the byte is resent
/// below the receiver's rcv_nxt, never re-ACKed, and the sender gives up.
pub fn probe_ack_ignored_after_rewind() -> Scenario {
    let mut sc = probe_base();
    sc.cfg = Cfg { mtu: 41, loopback_mtu: 65536, send_cap: 1, recv_cap: 1, retx_threshold: 3, retx_max: 4 };
    sc.client = Side { writes: vec![], bufs: vec![1], read_steps: vec![] };
    sc.server = Side { writes: vec![(3, 0)], bufs: vec![1], read_steps: vec![] };
    sc.reply = Reply::Server;
    use Fate::{Hold, Now};
    sc.plan = FatePlan {
        by_id: vec![Now, Now, Now, Now, Now, Now, Now, Now, Hold(1), Now, Now, Hold(1), Now, Hold(2)],
        by_kind: vec![],
        prio: vec![],
        max_drops: 0,
        max_hold: 2,
        blackhole: None,
    };
    sc
}
/// F-C06-5: no loss, no delay; the server reads the two bytes, pauses three rounds and then
/// expects EOF, but a spuriously retransmitted FIN has meanwhile hit the client's reaped socket
/// and the answering RST turns the finished connection into ConnectionReset.
pub fn probe_rst_after_clean_close() -> Scenario {
    let mut sc = probe_base();
    sc.cfg = Cfg { mtu: 41, loopback_mtu: 65536, send_cap: 17, recv_cap: 9, retx_threshold: 3, retx_max: 4 };
    sc.client = Side { writes: vec![(2, 0)], bufs: vec![1], read_steps: vec![] };
    sc.server = Side { writes: vec![], bufs: vec![1], read_steps: vec![(1, 0), (1, 3)] };
    sc.plan.max_drops = 0;
    sc
}
/// F-C06-3: retx_threshold 1, retx_max 2, no loss, no delay, nothing written: the two
/// spurious SYN retransmissions are charged to the FIN, which is given up after one pass.
pub fn probe_carried_counters() -> Scenario {
    let mut sc = probe_base();
    sc.cfg.retx_threshold = 1;
    sc.cfg.retx_max = 2;
    sc.client.writes.clear();
    sc.plan.max_drops = 0;
    sc
}

fn check(tier: Tier, seed: u64) -> i32 {
    let ctx = Ctx::new("C06", tier, seed, "exploration");
    ctx.replay_corpus(&replay);
    ctx.random("walk", tier.pick(12_000, 100_000), &|| strategy(), &run);
    let (n, k) = tier.pick((8usize, 1usize), (11usize, 2usize));
    ctx.exhaustive(
        "exhaustive",
        &format!(
            "9 programs (MSS 4, transfers of <= 2 segments each way, half-close / reply-after-EOF / FIN-by-drop, caps 64K or 2-8 bytes) x every fate vector in {{deliver now, hold 2 rounds, drop}}^{n} over the first {n} emitted packets with at most {k} drop(s), by odometer over emission numbers, each executed from scratch"
        ),
        Box::new(exhaustive_space(n, k)),
        &run,
    );
    ctx.exhaustive(
        "teardown",
        "aborted-under-a-slow-reader family, no other fault: victim side (2) x cause (black hole of the victim's host from packet 2..=9 | peer takes 0..=2 bytes, lingers 0..=2 rounds and drops its stream, victim's own FIN held back or not: 26) x bytes the victim's reader takes before it pauses past everything else (1, 3) x victim's writes (none / 5 / 3 then 3 four rounds later) x (retx_threshold, retx_max) in {(1,1),(2,2),(3,5)} x reader buffer (1024, 2), MSS 4, each executed from scratch",
        Box::new(teardown_space()),
        &run,
    );
    ctx.random("abort-under-slow-reader", tier.pick(8_000, 60_000), &|| strategy_w(31, 1), &run);
    ctx.random("e2e", tier.pick(1_500, 20_000), &|| e2e_strategy(), &run);
    ctx.finish(
        "random walks: KernelConfig (MSS 1..1460 via mtu, send/recv caps 1..64K, retx_threshold 1-4, retx_max 1-5, v4/v6) x client/server programs (0-3 writes of 1-300 bytes with pauses, reader buffers 1-1024 bytes with optional pauses, half-close / reply-after-EOF / FIN-by-drop) x fate plan (per emission number and per n-th packet of a kind: deliver now / hold 1-12 rounds / drop, delivery priority inside a round), drops <= D <= retx_max and hold d with 2d <= (retx_max-D-slack)*T - 2 so that no legitimate retransmit exhaustion exists, or the beyond-budget class (all packets of one host black-holed from packet k on); sprinkled program dimensions: a writer that delays its shutdown 1-6 rounds, a side that takes only the first 0-8 bytes, lingers 0-6 rounds after its own half-close and drops its stream (abortive close, RST, if bytes are unread); and the aborted-under-a-slow-reader class (1/6 of `walk`, 31/32 of `abort-under-slow-reader`, enumerated small family in `teardown`): the peer writes more than the victim's reader takes before it pauses past everything else in the run and half-closes, so its bytes and FIN sit unread at the victim, the connection is then aborted (the victim's host is black-holed from packet 2..33 on while it still has data or its FIN to send, possibly written only after the peer's FIN came in; or the peer closes with unread bytes while the victim has not yet shut down), and the victim's reader reads again. Non-trivial = at least one packet dropped or overtaken by a later packet of the same direction, or a reader that still had unread bytes and the peer's FIN in when its connection was aborted and that read afterwards; distinct by scenario hash.",
        &[
            "one egress_all per round; retransmission in turmoil-net is clocked by egress passes, so rounds are the only clock",
            "packet kinds are derived from public packet fields only (flags, seq/ack/window, payload length)",
            "within budget the reader task only reads; with reordering possible, scripted reader pauses are <= 3 rounds and count as 2 extra lost copies in the budget (plus 1 for a first segment that overtakes the handshake ACK); without any fault a reader may pause longer than a whole retransmit budget (slow-reader class)",
            "round bound R = 4*((bytes+12+D+plan/4)*(T+2d+3)+pauses)+64; a run that hits it is re-run with 10*R before it is called a stall; a run in which nothing can happen any more (no runnable task, nothing in flight, no emission for T*(M+2)+2+d rounds) is a definitive stall",
            "packet duplication is never generated (outside the documented fault model)",
            "a scenario in which a side closes without reading everything (program-made abort) or a host is black-holed carries no liveness claim: only the SAFETY clauses (bytes read are a prefix of bytes written; Ok(0) only after the peer closed its write side and only at the offset of everything its write calls accepted, so an abort that discards accepted-but-unread bytes has to show up as an error to that reader, never as end-of-file), the error kinds, and 'no task parked for ever on an end that still has unacknowledged sequence space'",
            "tolerance is status-driven: a within-budget run that fails liveness and shows the wire pattern of a C06 finding whose entry in known_findings.json has status \"known\" (F-C06-1 duplicate never re-ACKed / lost ACK never repeated, F-C06-2 sender left with a zero window, F-C06-3 handshake retransmit counters carried over, F-C06-4 delivered ACK ignored after a go-back-N rewind, F-C06-5 late RST after a clean close) is excluded and counted, safety clauses are still checked on it, and the fixture::lo generator avoids the F-C06-2 shape only while F-C06-2 is known; a finding with status \"fixed\" suppresses nothing and its signature is reported as a violation again; the strict replays always assert the full clause",
            "fixture sub-tier: Deliver(k ms) = k fixture ticks; delivery order inside a tick is the fixture's own; loopback traffic never meets a rule",
        ],
    )
}

fn replay(_sub: &str, v: &Value) -> Result<Outcome, String> {
    replay_as::<Scenario>(v, &run)
}

/// Print the probe scenarios as replay-file bodies (used once to create /verif/replays/C06).
pub fn dump_probes() -> Vec<(&'static str, Scenario)> {
    vec![
        ("known-F-C06-1-lost-tail-ack", probe_lost_tail_ack()),
        ("known-F-C06-1-lost-handshake-ack", probe_lost_handshake_ack()),
        ("known-F-C06-2-zero-window-small-reads", probe_zero_window()),
        ("known-F-C06-3-handshake-retx-counters-carried-over", probe_carried_counters()),
        ("known-F-C06-4-ack-ignored-after-rewind", probe_ack_ignored_after_rewind()),
        ("known-F-C06-5-rst-after-clean-close", probe_rst_after_clean_close()),
        ("known-F-C06-3-fixture-client-server", Scenario { mode: Mode::ClientServer, ..probe_carried_counters() }),
        ("known-F-C06-5-fixture-client-server", Scenario { mode: Mode::ClientServer, ..probe_rst_after_clean_close() }),
        ("known-F-C06-2-fixture-client-server", Scenario { mode: Mode::ClientServer, ..probe_zero_window() }),
        ("known-F-C06-1-fixture-client-server", Scenario { mode: Mode::ClientServer, ..probe_lost_tail_ack() }),
    ]
}

// ---------------------------------------------------------------- coverage-guided tier

/// Clamp a byte-decoded scenario (engine::bytesde) into exactly the domain of `strategy()` (sub
/// `walk`): every field is first mapped into the range of the generator's *raw* draw and then the
/// same derivation as in `strategy()`'s `prop_map` is applied (fin_by_drop needs a replying side,
/// slow-reader class, aborted-under-a-slow-reader class, `fit_budget`, black-hole class).  The
/// draws of the strategy that have no field of their own (slow-reader class, aborted-under-a-slow-
/// reader class and their parameters) take their entropy from
/// `cfg.loopback_mtu`, which the strategy fixes at 65536; `mode` and `strict` are forced to the
/// only values the strategy produces (Wire, false).
pub fn fuzz_sanitize(sc: &mut Scenario) -> bool {
    let sel = sc.cfg.loopback_mtu;
    sc.mode = Mode::Wire;
    sc.strict = false;
    // cfg_strategy: MSS 1..=64 | 1460, caps 1..=64 | 65536, T 1..=4, M 1..=5
    let hdr = if sc.v6 { 60 } else { 40 };
    let mss = match sc.cfg.mtu % 70 {
        x @ 0..=63 => x + 1,
        _ => 1460,
    };
    let cap = |c: usize| match c % 72 {
        x @ 0..=63 => x + 1,
        _ => 65536,
    };
    sc.cfg = Cfg {
        mtu: hdr + mss,
        loopback_mtu: 65536,
        send_cap: cap(sc.cfg.send_cap),
        recv_cap: cap(sc.cfg.recv_cap),
        retx_threshold: 1 + sc.cfg.retx_threshold % 4,
        retx_max: 1 + sc.cfg.retx_max % 5,
    };
    // side_strategy
    for side in [&mut sc.client, &mut sc.server] {
        side.writes.truncate(3);
        for w in side.writes.iter_mut() {
            let x = w.0;
            w.0 = match x % 16 {
                0..=9 => 1 + (x / 16) % 12,
                10..=14 => 13 + (x / 16) % 36,
                _ => 100 + (x / 16) % 201,
            };
            w.1 %= 4;
        }
        side.bufs.truncate(2);
        if side.bufs.is_empty() {
            side.bufs.push(1024);
        }
        for b in side.bufs.iter_mut() {
            *b = match *b % 36 {
                x @ 0..=31 => x + 1,
                _ => 1024,
            };
        }
        side.read_steps.truncate(3);
        for r in side.read_steps.iter_mut() {
            r.0 = 1 + r.0 % 8;
            r.1 %= 4;
        }
    }
    sc.fin_by_drop = sc.fin_by_drop && sc.reply != Reply::None;
    // plan_strategy (bytesde vectors hold <= 16 elements, inside the generator's 0..48)
    let hold = |k: u32| Fate::Hold(1 + k % 8);
    sc.plan.by_id.truncate(47);
    for f in sc.plan.by_id.iter_mut() {
        if let Fate::Hold(k) = *f {
            *f = hold(k);
        }
    }
    sc.plan.by_kind.truncate(3);
    for (k, n, f) in sc.plan.by_kind.iter_mut() {
        if *k == Kind::Udp {
            *k = Kind::Data;
        }
        *n %= 4;
        *f = match *f {
            Fate::Hold(k) => hold(k),
            _ => Fate::Drop,
        };
    }
    sc.plan.prio.truncate(47);
    for p in sc.plan.prio.iter_mut() {
        *p %= 4;
    }
    sc.plan.max_drops %= 6;
    sc.plan.max_hold %= 13;
    // beyond-budget class (the generator gives it 1/8; here: Option bit and one more bit)
    let black = match sc.plan.blackhole.take() {
        Some((h, from)) if (h >> 1) & 1 == 0 => Some((h % 2, from % 24)),
        _ => None,
    };
    // ext_strategy: quit (n 0..=8, linger 0..=6) on either side, late shutdown 0..=6 rounds
    // (the generator gives quit 1/16 per side; here: Option bit and two more bits)
    for q in sc.ext.quit.iter_mut() {
        *q = match *q {
            Some((n, l)) if (l >> 3) % 4 == 0 => Some((n % 9, l % 7)),
            _ => None,
        };
    }
    for d in sc.ext.fin_delay.iter_mut() {
        *d = if (*d >> 3) % 4 == 0 { *d % 7 } else { 0 };
    }
    // aborted-under-a-slow-reader class (teardown_strategy), parameters from the higher bits
    if sel % 8 == 6 {
        let mut e = sel >> 3;
        let mut take = |n: u32| {
            let v = e % n;
            e /= n;
            v
        };
        let victim_server = take(2) == 1;
        let first = 1 + take(6) as u16;
        let more = take(17);
        let extra = take(7);
        let late = take(7) as u8;
        let keep_plan = take(2) == 1;
        let fit = take(4) != 0;
        let cause = if take(2) == 0 {
            Cause::Blackhole { from: 2 + take(32) }
        } else {
            let read = take(9) as u16;
            let linger = take(7) as u8;
            Cause::PeerQuits { read, linger, fin_late: take(4) != 0 }
        };
        apply_teardown(sc, &Teardown { victim_server, first, more, extra, late, keep_plan, fit, cause });
        return true;
    }
    // slow-reader class
    if sel % 8 == 7 {
        let server_reads_slowly = (sel >> 3) & 1 == 1;
        let first = 1 + ((sel >> 4) % 6) as u16;
        let extra = (sel >> 8) % 7;
        apply_slow(sc, server_reads_slowly, first, extra);
        return true;
    }
    fit_budget(sc);
    sc.plan.blackhole = black;
    true
}
